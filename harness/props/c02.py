"""C02 — Linear-sweep disassembly recovers the instruction stream and always terminates (DESIGN.md section 6, C02).

The check is registered against the tree WITH fixes/C01-31c-unsigned-index.diff and fixes/C02-*.diff applied
(ff-opcode with register, item running past the end of the code, odd trailing byte).  On the unfixed tree the
corpus witnesses fail first.

P: gen/opcodes.py; lake build AgVerif.Props.C02 + drv_C02; axiom audit.
T: real `LinearSweepAlgorithm.get_instructions(cm, size, bytes, idx)` (raw code bytes, minimal ClassManager stand-in,
   ODEX flag on/off) and `DCode.off_to_pos/get_ins_off` vs the compiled Lean model (drv_C02).
S: oracle = the statement itself with harness/dalvik_spec.py as assembler/reference: a program assembled from valid
   items must come back exactly (items, order, offsets, whole size); for any bytes every yielded item lies inside the
   code and re-encodes to the bytes at its offset, and the only other outcome is InvalidInstruction.
"""
import glob
import json
import os
import random
from concurrent.futures import ThreadPoolExecutor
from multiprocessing import Pool

from harness import dalvik_spec as DS
from harness.fw import VERIF, Check, Driver, hexs

_DEX = "androguard/core/dex/__init__.py"
# every hand-modelled function (Model/Sweep.lean); a changed normalised-AST hash escalates the search (fw.pins_changed)
PINS = [
    ("androguard/core/dex/__init__.py", "LinearSweepAlgorithm.get_instructions"),
    ("androguard/core/dex/__init__.py", "get_instruction"),
    ("androguard/core/dex/__init__.py", "get_optimized_instruction"),
    ("androguard/core/dex/__init__.py", "get_instruction_payload"),
    ("androguard/core/dex/__init__.py", "PackedSwitch.__init__"),
    ("androguard/core/dex/__init__.py", "PackedSwitch.get_length"),
    ("androguard/core/dex/__init__.py", "PackedSwitch.get_raw"),
    ("androguard/core/dex/__init__.py", "SparseSwitch.__init__"),
    ("androguard/core/dex/__init__.py", "SparseSwitch.get_length"),
    ("androguard/core/dex/__init__.py", "SparseSwitch.get_raw"),
    ("androguard/core/dex/__init__.py", "FillArrayData.__init__"),
    ("androguard/core/dex/__init__.py", "FillArrayData.get_length"),
    ("androguard/core/dex/__init__.py", "FillArrayData.get_raw"),
    ("androguard/core/dex/__init__.py", "DCode.__init__"),
    ("androguard/core/dex/__init__.py", "DCode.get_instructions"),
    ("androguard/core/dex/__init__.py", "DCode.off_to_pos"),
    ("androguard/core/dex/__init__.py", "DCode.get_ins_off"),
    ("androguard/core/dex/__init__.py", "DCode.get_instruction"),
    ("androguard/core/dex/__init__.py", "DCode.get_raw"),
    ("androguard/core/dex/__init__.py", "DCode.get_length"),
    ("androguard/core/dex/__init__.py", "DCode.set_insn"),
    ("androguard/core/dex/__init__.py", "DCode.set_instructions"),
    ("androguard/core/dex/__init__.py", "DalvikPacker"),
]

_R = {}


def _real():
    if _R:
        return _R["dex"], _R["CM"]
    from androguard.core import dex

    class CM:
        packer = dex.DalvikPacker(0x12345678)

        def __init__(self, odex=False):
            self.odex = odex

        def get_odex_format(self):
            return self.odex

    _R["dex"], _R["CM"] = dex, CM
    return dex, CM


def parse_req(req):
    w = req.split(" ")
    buf = bytes.fromhex(w[-1]) if w[-1] != "-" else b""
    return w[0], [int(x) for x in w[1:-1]], buf


def canon_real(req):
    dex, CM = _real()
    kind, a, buf = parse_req(req)
    if kind == "sweep":
        odex, size, idx = a
        items, off = [], idx
        try:
            for ins in dex.LinearSweepAlgorithm.get_instructions(CM(bool(odex)), size, bytearray(buf), idx):
                try:
                    raw = hexs(bytes(ins.get_raw()))
                except Exception as e:  # noqa
                    raw = "err"
                n = ins.get_length()
                items.append(f"{off}:{ins.get_name()}:{n}:{raw}")
                off += n
            out = "done"
        except dex.InvalidInstruction as e:
            at = e.args[1] if len(e.args) > 1 and isinstance(e.args[1], int) else "?"
            out = f"invalid@{at}"
        except Exception as e:  # noqa
            out = "other:" + type(e).__name__
        return out + " " + ";".join(items)
    if kind == "pos":
        size, off = a
        try:
            dc = dex.DCode(CM(False), 0, size, bytearray(buf))
            p = dc.off_to_pos(off)
            i = dc.get_ins_off(off)
            return f"{p} {i.get_name() if i is not None else 'None'}"
        except dex.InvalidInstruction:
            return "invalid"
        except Exception as e:  # noqa
            return "other:" + type(e).__name__
    return "bad-op"


def parse_reply(line):
    out, _, rest = line.partition(" ")
    items = []
    for it in rest.split(";") if rest else []:
        off, name, n, raw = it.split(":")
        items.append((int(off), name, int(n), raw))
    return out, items


def judge(req, real, expect=None):
    """the statement, on the real output.  expect = [(offset, raw bytes)] for an assembled valid program."""
    kind, a, buf = parse_req(req)
    if kind != "sweep":
        return None
    odex, size, idx = a
    out, items = parse_reply(real)
    if not (out == "done" or out.startswith("invalid@")):
        return ("disassembly ends with something else than the instruction list or InvalidInstruction", "done | invalid", out)
    code_end = min(2 * size, len(buf))
    for off, name, n, raw in items:
        if n <= 0:
            return ("yielded item of non-positive length", ">0", n)
        if off + n > code_end:
            return ("yielded item runs past the end of the code", f"<= {code_end}", f"{name} at {off} length {n}")
        if raw != buf[off:off + n].hex():
            want = buf[off:off + n].hex()
            if len(want) > 400:
                k = next((i for i, (x, y) in enumerate(zip(raw, want)) if x != y), min(len(raw), len(want))) // 2
                return ("yielded item does not re-encode to the bytes at its offset", f"the {n} bytes at offset {off}",
                        f"{name} at {off}: get_raw() gives {len(raw) // 2 if raw != 'err' else 'an error instead of'} bytes, "
                        f"first difference at byte {k} of the item")
            return ("yielded item does not re-encode to the bytes at its offset", want, f"{name} at {off}: {raw}")
    if expect is not None:
        got = [(off, raw) for off, _, _, raw in items]
        exp = [(off, r.hex()) for off, r in expect]
        if out != "done" or got != exp:
            k = next((i for i, (g, e) in enumerate(zip(got, exp)) if g != e), min(len(got), len(exp)))
            return ("assembled program is not recovered exactly", f"done, {len(exp)} items, item {k} = {exp[k] if k < len(exp) else None}",
                    f"{out}, {len(got)} items, item {k} = {got[k] if k < len(got) else None}")
        if sum(n for _, _, n, _ in items) != len(buf):
            return ("declared code size not consumed exactly", len(buf), sum(n for _, _, n, _ in items))
    return None


# ------------------------------------------------------------------ generators
def gen_programs(rng, n):
    """valid programs -> (request, expected items)"""
    out = []
    for _ in range(n):
        code, items = DS.random_program(rng, rng.randrange(1, 14), with_payloads=rng.random() < 0.8)
        out.append((f"sweep 0 {len(code) // 2} 0 {hexs(code)}", items))
    # every defined opcode alone and with any register byte on fe / ff, and each payload kind alone
    for op in sorted(DS.OPCODES):
        ins = DS.random_insn(rng, op, boundary=rng.random() < 0.5)
        out.append((f"sweep 0 {len(ins) // 2} 0 {hexs(ins)}", [(0, ins)]))
    for aa in range(256):
        for op in (0xfe, 0xff):
            ins = DS.encode(op, AA=aa, BBBB=rng.getrandbits(16))
            nop = DS.encode(0)
            out.append((f"sweep 0 3 0 {hexs(nop + ins)}", [(0, nop), (2, ins)]))
    for kind in ("packed", "sparse", "fill"):
        for _ in range(40):
            p = DS.random_payload(rng, max_size=rng.choice((0, 1, 2, 5, 40)), kind=kind)
            out.append((f"sweep 0 {len(p) // 2} 0 {hexs(p)}", [(0, p)]))
    return out


def gen_mutations(rng, progs, n):
    reqs = []
    for _ in range(n):
        rq, _ = rng.choice(progs)
        _, a, buf = parse_req(rq)
        b = bytearray(buf)
        m = rng.randrange(7)
        if m == 0 and b:
            b = b[:rng.randrange(len(b))]                       # truncation (odd and even)
        elif m == 1 and b:
            for _ in range(rng.randrange(1, 4)):
                b[rng.randrange(len(b))] = rng.randrange(256)   # byte mutation
        elif m == 2 and b:
            i = rng.randrange(len(b)); b[i:i] = rng.randbytes(rng.randrange(1, 4))
        elif m == 3 and len(b) >= 4:
            i = rng.randrange(0, len(b) - 2, 2)                 # inflate a size field / plant a payload ident
            b[i:i + 4] = bytes([0, rng.choice((1, 2, 3)), rng.choice((0, 1, 2, 100, 255)), rng.choice((0, 0, 1, 255))])
        elif m == 4 and len(b) >= 2:
            i = rng.randrange(0, len(b) - 1, 2)
            b[i:i + 2] = bytes([rng.choice((0x00, 0xff, 0xfe, 0x3e, 0x73, 0xf2)), rng.randrange(256)])
        size = rng.choice((len(b) // 2, len(b) // 2, (len(b) + 1) // 2, max(0, len(b) // 2 - rng.randrange(1, 4)),
                           len(b) // 2 + rng.randrange(1, 5), 0))
        idx = rng.choice((0, 0, 0, 0, 2, 4, 1, 3, len(b), len(b) + 2))
        odex = 1 if rng.random() < 0.25 else 0
        reqs.append(f"sweep {odex} {size} {idx} {hexs(bytes(b))}")
    return reqs


def gen_random(rng, n):
    reqs = []
    heads = sorted(DS.OPCODES) + [0x00, 0xff]
    for _ in range(n):
        k = rng.randrange(0, 40)
        b = bytearray(rng.randbytes(k))
        for i in range(0, len(b), 2):                            # bias first bytes of units to defined opcodes
            if rng.random() < 0.7:
                b[i] = rng.choice(heads)
        odex = 1 if rng.random() < 0.3 else 0
        if odex and len(b) >= 2 and rng.random() < 0.5:
            b[0:2] = bytes([0xff, rng.randrange(0xf2, 0x100)])
        size = rng.choice((len(b) // 2, (len(b) + 1) // 2, rng.randrange(0, 24)))
        reqs.append(f"sweep {odex} {size} {rng.choice((0, 0, 0, 2, 1))} {hexs(bytes(b))}")
    return reqs


def gen_small_exhaustive():
    """all one-unit codes and all (ident/opcode, second unit boundary) two-unit codes"""
    reqs = []
    for lo in range(256):
        for hi in range(256):
            reqs.append(f"sweep 0 1 0 {bytes([lo, hi]).hex()}")
    for lo in (0x00, 0xff, 0xfe, 0x01, 0x0e, 0x12, 0x13, 0x28, 0x29, 0x3e):
        for hi in (0, 1, 2, 3, 4, 0x10, 0xf2, 0xff):
            for t in ("0000", "0100", "ffff", "0000000000000000", "01000000", "0100000000000000", "00"):
                reqs.append(f"sweep 0 8 0 {bytes([lo, hi]).hex()}{t}")
                reqs.append(f"sweep 1 8 0 {bytes([lo, hi]).hex()}{t}")
    return reqs


def _chunk(args):
    from harness.fw import quiet_androguard
    quiet_androguard()
    reqs, expects = args
    real, fails = [], []
    for i, rq in enumerate(reqs):
        rl = canon_real(rq)
        real.append(rl)
        v = judge(rq, rl, expects[i] if expects else None)
        if v is not None and len(fails) < 20:
            fails.append((rq, v))
    return real, fails


def real_all(reqs, expects=None, procs=12):
    if len(reqs) < 4000:
        return _chunk((reqs, expects))
    n = (len(reqs) + procs - 1) // procs
    chunks = [(reqs[i:i + n], expects[i:i + n] if expects else None) for i in range(0, len(reqs), n)]
    with Pool(procs) as p:
        out = p.map(_chunk, chunks)
    return [x for c in out for x in c[0]], [x for c in out for x in c[1]]


def key_of(rq, v):
    return None


def run_stream(ck, drv, stream, reqs, expects=None):
    with ThreadPoolExecutor(1) as ex:
        fut = ex.submit(drv.ask, reqs)
        real, fails = real_all(reqs, expects)
        model = fut.result()
    ck.compare(stream, reqs, real, model)
    dist = {}
    for rl in real:
        out, items = parse_reply(rl) if rl.startswith(("done", "invalid@")) else (rl.split(" ")[0], [])
        k = out.split("@")[0]
        dist[f"{stream}:{k}"] = dist.get(f"{stream}:{k}", 0) + 1
        dist[f"{stream}:items"] = dist.get(f"{stream}:items", 0) + len(items)
        for _, name, _, _ in items:
            if name.endswith("-payload"):
                dist[f"{stream}:{name}"] = dist.get(f"{stream}:{name}", 0) + 1
    for rq, v in fails[:20]:
        ck.fail({"request": rq}, v[0], key_of(rq, v), v[1], v[2])
    ck.cover(evaluations=len(reqs), distinct=set(reqs),
             samples=[{"request": reqs[i][:120], "real": real[i][:160]} for i in (0, len(reqs) // 2, len(reqs) - 1)], dist=dist)
    return real


# ------------------------------------------------------------------ large-size boundary stream (deterministic)
def _shorten(line):
    """replace the raw hex of long items by a digest so that replies of MiB-sized items stay comparable and small"""
    import hashlib
    out, _, rest = line.partition(" ")
    if not rest:
        return line
    its = []
    for it in rest.split(";"):
        w = it.split(":")
        if len(w) == 4 and len(w[3]) > 64:
            w[3] = "sha1=" + hashlib.sha1(w[3].encode()).hexdigest()[:16] + "/" + str(len(w[3]) // 2)
        its.append(":".join(w))
    return out + " " + ";".join(its)


_BKINDS = ("u1", "u2", "u3", "u5", "packed", "sparse", "fill")


def _bitem(kind, rng):
    if kind == "u1":
        return DS.random_insn(rng, 0x12)          # const/4        1 unit
    if kind == "u2":
        return DS.random_insn(rng, 0x13)          # const/16       2 units
    if kind == "u3":
        return DS.random_insn(rng, 0x14)          # const          3 units
    if kind == "u5":
        return DS.random_insn(rng, 0x18)          # const-wide     5 units (the longest format)
    if kind == "packed":
        return DS.payload_encode("packed", first_key=-7, targets=[3, -1, 2 ** 31 - 1])
    if kind == "sparse":
        return DS.payload_encode("sparse", keys=[-5, 9], targets=[-2 ** 31, 12])
    return DS.payload_encode("fill", element_width=1, data=b"\x07\x08\x09")   # odd length: padding byte


def _bprogram(sled, targets, kind, rng):
    """a valid program in which an item of `kind` starts exactly at each byte offset of `targets`"""
    out, items = bytearray(), []

    def put(b):
        items.append((len(out), bytes(b)))
        out.extend(b)
    wide = DS.encode(0x18, AA=1)
    for T in targets:
        while len(out) < T:
            rem = T - len(out)
            if sled == "wide" and rem >= 10:
                put(wide)
            elif sled == "mix" and rem >= 12:
                ins = DS.random_insn(rng)
                put(ins if len(ins) <= rem else b"\0\0")
            else:
                put(b"\0\0")                     # nop (also the final alignment of the other sleds)
        put(_bitem(kind, rng))
    put(b"\x0e\x00")                             # return-void
    return bytes(out), items


def _bfill(width, size):
    data = (bytes(range(256)) * (size * width // 256 + 1))[: size * width]
    p = DS.payload_encode("fill", element_width=width, data=data)
    out, items = bytearray(), []
    for b in (b"\0\0", b"\0\0", p, b"\x0e\x00"):
        items.append((len(out), bytes(b)))
        out.extend(b)
    return bytes(out), items


def boundary_labels(full):
    """labels of the boundary stream, each regenerated on its own by boundary_case(label).
    full = thorough tier or escalated (a pinned function changed)."""
    L = []
    for kind in _BKINDS:
        for d in range(-12, 13, 2):
            L.append(f"nop:{kind}:{d}:4096,8192,12288")
            L.append(f"mix:{kind}:{d}:4096,8192,12288")
            L.append(f"wide:{kind}:{d}:65536")
            if full:
                L.append(f"mix:{kind}:{d}:65536")
                L.append(f"nop:{kind}:{d}:65536")
    # fill-array-data payloads whose total size (8 + data, padded to even) is just below / at / above B
    for B in (1 << 16, 1 << 20, (1 << 20) + 8):
        for w in (1, 2, 4, 8):
            at = (B - 8) // w                       # B - 8 is a multiple of 8: total size exactly B
            sizes = [at - 1, at, at + 1] + ([at - 2] if w == 1 else [])   # width 1: at - 1 is odd (padding byte), at - 2 is below
            if not full and B > (1 << 16):                      # quick tier: 8 instead of 26 MiB-sized payloads
                sizes = {(1 << 20, 1): [at - 1, at, at + 1], (1 << 20, 4): [at], ((1 << 20) + 8, 1): [at, at + 1],
                         ((1 << 20) + 8, 2): [at + 1], ((1 << 20) + 8, 8): [at + 1]}.get((B, w), [])
            for size in sizes:
                L.append(f"fill:{w}:{size}")
    L.append("packed:65535")
    L.append("sparse:65535")
    return L


def boundary_case(label):
    """-> (request, expected items); deterministic, independent of VERIF_SEED"""
    w = label.split(":")
    rng = random.Random("C02-boundary-" + label)
    if w[0] in ("nop", "mix", "wide"):
        d = int(w[2])
        code, items = _bprogram(w[0], [int(t) + d for t in w[3].split(",")], w[1], rng)
    elif w[0] == "fill":
        code, items = _bfill(int(w[1]), int(w[2]))
    else:
        n = int(w[1])
        i32 = lambda: rng.randint(-2 ** 31, 2 ** 31 - 1)
        if w[0] == "packed":
            p = DS.payload_encode("packed", first_key=i32(), targets=[i32() for _ in range(n)])
        else:
            p = DS.payload_encode("sparse", keys=sorted(rng.sample(range(-2 ** 31, 2 ** 31), n)), targets=[i32() for _ in range(n)])
        code, items = bytearray(), []
        for b in (b"\0\0", p, b"\x0e\x00"):
            items.append((len(code), bytes(b)))
            code.extend(b)
        code = bytes(code)
    return f"sweep 0 {len(code) // 2} 0 {hexs(code)}", items


def _bchunk(labels):
    from harness.fw import quiet_androguard
    quiet_androguard()
    out = []
    for lb in labels:
        rq, exp = boundary_case(lb)
        rl = canon_real(rq)
        v = judge(rq, rl, exp)
        if v is not None:
            v = tuple(str(x)[:300] for x in v)
        out.append((_shorten(rl), v))
    return out


def _bmodel(args):
    exe, labels = args
    return [_shorten(x) for x in Driver(exe).ask([boundary_case(lb)[0] for lb in labels])]


def run_boundary(ck, full, procs=12):
    labels = boundary_labels(full)
    # heavy cases first, dealt round-robin so that every worker gets its share
    order = sorted(range(len(labels)), key=lambda i: (not labels[i].startswith("fill"), "65536" not in labels[i], i))
    parts = [[labels[i] for i in order[k::procs]] for k in range(procs)]
    with ThreadPoolExecutor(procs) as ex:
        mfut = [ex.submit(_bmodel, ("drv_C02", p)) for p in parts]
        with Pool(procs) as pool:
            rres = pool.map(_bchunk, parts)
        mres = [f.result() for f in mfut]
    flat = [lb for p in parts for lb in p]
    real = [r for part in rres for r, _ in part]
    verd = [v for part in rres for _, v in part]
    model = [m for part in mres for m in part]
    ck.compare("boundary", ["boundary " + lb for lb in flat], real, model)
    dist = {"boundary:programs": len(flat)}
    for lb, rl in zip(flat, real):
        k = "boundary:" + lb.split(":")[0] + ":" + rl.split(" ")[0].split("@")[0]
        dist[k] = dist.get(k, 0) + 1
    nf = 0
    for lb, v in zip(flat, verd):
        if v is not None and nf < 20:
            nf += 1
            ck.fail({"boundary": lb}, v[0], None, v[1], v[2])
    ck.cover(evaluations=len(flat), distinct=set(flat),
             samples=[{"request": "boundary " + flat[i], "real": real[i][:160]} for i in (0, len(flat) // 2, len(flat) - 1)], dist=dist)


# ------------------------------------------------------------------ history stream on real DCode objects
def _listing(inss):
    items, off = [], 0
    for ins in inss:
        try:
            raw = hexs(bytes(ins.get_raw()))
        except Exception:  # noqa
            raw = "err"
        n = ins.get_length()
        items.append(f"{off}:{ins.get_name()}:{n}:{raw}")
        off += n
    return "done " + ";".join(items)


def _query(dc, op, arg):
    """one query on a DCode -> canonical answer"""
    dex, _ = _real()
    try:
        if op == "list":
            return _listing(list(dc.get_instructions()))
        if op == "raw":
            return "raw " + hexs(bytes(dc.get_raw()))
        if op == "len":
            return f"len {dc.get_length()}"
        if op == "insoff":
            i = dc.get_ins_off(arg)
            return "insoff " + ("None" if i is None else f"{i.get_name()}:{hexs(bytes(i.get_raw()))}")
        if op == "pos":
            return f"pos {dc.off_to_pos(arg)}"
        if op == "ins":
            list(dc.get_instructions())        # as every caller does: list first (guarded), then index
            i = dc.get_instruction(arg)
            return f"ins {i.get_name()}:{hexs(bytes(i.get_raw()))}"
    except dex.InvalidInstruction:
        return "invalid"
    except IndexError:
        return "indexerror"
    except Exception as e:  # noqa
        return "other:" + type(e).__name__
    return "bad-op"


def _fresh(buf):
    dex, CM = _real()
    return dex.DCode(CM(False), 0, (len(buf) + 1) // 2, bytearray(buf))


def run_history(h):
    """h = {"init": hex, "steps": [[op, arg], ...]}.  One live DCode goes through the steps; after every query the
    answer must be the one a FRESH DCode on the bytes in effect gives.  -> (list of (step, live, fresh), index of the
    first differing step or None, the byte strings that were in effect)"""
    dex, CM = _real()
    cur = bytes.fromhex(h["init"])          # what set_insn loaded
    eff = cur                                # the bytes whose decoding is in effect (an injected list overrides)
    dc = _fresh(cur)
    log, bad, effs = [], None, [cur]
    for k, (op, arg) in enumerate(h["steps"]):
        if op == "load":                     # set_insn(new program) + drop the cache
            cur = eff = bytes.fromhex(arg)
            dc.set_insn(bytearray(cur)); dc.set_instructions(None)
            effs.append(eff); log.append((f"load {arg}", "", "")); continue
        if op == "inject":                   # set_instructions(instruction list of another, valid program)
            eff = bytes.fromhex(arg)
            dc.set_instructions(list(_fresh(eff).get_instructions()))
            effs.append(eff); log.append((f"inject {arg}", "", "")); continue
        if op == "reload":                   # set_instructions(None): back to the loaded bytes
            eff = cur
            dc.set_instructions(None)
            log.append(("reload", "", "")); continue
        live = _query(dc, op, arg)
        fresh = _query(_fresh(eff), op, arg)
        log.append((f"{op} {arg if arg is not None else ''}".strip(), live, fresh))
        if live != fresh and bad is None:
            bad = k
    return log, bad, effs


def _invalid_program(rng):
    """a valid prefix (possibly empty) followed by something the sweep must reject"""
    code, _ = DS.random_program(rng, rng.randrange(0, 6), with_payloads=rng.random() < 0.3)
    b = bytearray(code)
    m = rng.randrange(6)
    if m == 0:
        b += bytes([rng.choice((0x3e, 0x3f, 0x43, 0x73, 0x79, 0x7a, 0xe3, 0xf9)), rng.randrange(256)])   # unused opcode
    elif m == 1:
        b += rng.choice((bytes([0x0e, rng.randrange(1, 256)]), bytes([0x29, rng.randrange(1, 256), 4, 0]),
                         bytes([0x2a, 1, 0, 0, 0, 0]), bytes([0x03, 7, 1, 0, 2, 0])))                    # non-zero pad byte
    elif m == 2:
        ins = DS.random_insn(rng, rng.choice((0x13, 0x14, 0x18, 0x6e, 0x02)))
        b += ins[: rng.randrange(2, len(ins), 2)]                                                         # truncated last instruction
    elif m == 3:
        p = bytearray(DS.random_payload(rng, max_size=3))
        p[2 if p[1] != 3 else 4] = rng.choice((50, 100, 255))                                             # payload running past the end
        if len(b) % 4:
            b += b"\0\0"
        b += p
    elif m == 4:
        b += bytes([rng.randrange(256)])                                                                  # odd trailing byte
    else:
        b += bytes([0x3e, 0]) + DS.random_insn(rng)                                                       # unused opcode in the middle
    return bytes(b)


def gen_histories(rng, n):
    out = []
    for _ in range(n):
        def prog(valid=None):
            if valid is None:
                valid = rng.random() < 0.45
            return DS.random_program(rng, rng.randrange(1, 8), with_payloads=rng.random() < 0.4)[0] if valid else _invalid_program(rng)
        cur = init = prog()
        steps = []
        for _ in range(rng.randrange(3, 11)):
            r = rng.random()
            if r < 0.10:
                cur = prog(); steps.append(["load", cur.hex()])
            elif r < 0.16:
                steps.append(["inject", prog(True).hex()])
            elif r < 0.22:
                steps.append(["reload", None])
            else:
                op = rng.choice(("list", "list", "raw", "len", "insoff", "pos", "ins"))
                arg = None
                if op in ("insoff", "pos"):
                    arg = rng.choice((0, 2, 4, 6, rng.randrange(0, len(cur) + 3)))
                elif op == "ins":
                    arg = rng.choice((0, 0, 1, 2, rng.randrange(0, 12)))
                steps.append([op, arg])
        out.append({"init": init.hex(), "steps": steps})
    return out



def _hchunk(hs):
    from harness.fw import quiet_androguard
    quiet_androguard()
    res = []
    for h in hs:
        log, bad, effs = run_history(h)
        res.append((bad, log[bad] if bad is not None else None, [e.hex() for e in effs], sum(1 for x in log if x[1] == "invalid")))
    return res


def run_histories(ck, drv, n, prop="C02"):
    """histories on real DCode objects; every distinct byte string in effect is also swept by the Lean model"""
    hs = gen_histories(ck.rng, n)
    procs = 8
    parts = [hs[k::procs] for k in range(procs)]
    with Pool(procs) as pool:
        res = pool.map(_hchunk, parts)
    flat = [(h, r) for part, rs in zip(parts, res) for h, r in zip(part, rs)]
    nf, steps, inval = 0, 0, 0
    effs = set()
    for h, (bad, entry, es, ninv) in flat:
        steps += len(h["steps"]); inval += ninv
        effs.update(es)
        if bad is not None and nf < 5:
            nf += 1
            ck.fail({"history": h}, f"step {bad} ({entry[0]}) of a history on one DCode object answers differently from a fresh DCode "
                    "on the same bytes (the answer depends on earlier queries)", None, entry[2][:300], entry[1][:300])
    if drv is not None:
        reqs = sorted(f"sweep 0 {(len(e) // 2 + 1) // 2} 0 {e if e else '-'}" for e in effs)
        run_stream(ck, drv, "history-bytes", reqs)
    ck.cover(evaluations=steps, distinct={json.dumps(h, sort_keys=True) for h, _ in flat},
             samples=[{"request": "history " + json.dumps(flat[0][0])[:200]}],
             dist={"history:histories": len(flat), "history:steps": steps, "history:invalid-answers": inval})


def corpus_cases():
    return [(os.path.basename(p), json.load(open(p))) for p in sorted(glob.glob(os.path.join(VERIF, "corpus", "C02", "*.json")))]


def run(ck: Check):
    _real()
    ck.pins_changed(PINS)
    big = (not ck.quick) or ck.escalated     # a pinned (hand-modelled) function changed: thorough sizes in the quick tier too
    ck.run_gen("opcodes")
    ck.prove(exes=["drv_C02"])
    drv = Driver("drv_C02")
    rng = ck.rng
    ck.rule = ("assembled valid programs (1-13 items over all defined opcodes incl. fe/ff with every register byte, nop padding, "
               "payloads of random sizes, aligned and misaligned), their byte mutations / truncations / size-field inflations "
               "with declared size below, at and above the buffer and start index 0/2/4/odd/end, random buffers biased to defined "
               "opcodes (ODEX flag on 25-30%), all 65536 one-unit codes; distinct = distinct request.  "
               "Deterministic large-size boundary stream (every run): 12-65 KiB programs (nop / mixed / const-wide sleds) with an "
               "instruction of each length class (1, 2, 3, 5 units) and each payload kind starting at every even offset within "
               "+-12 bytes of 0x1000, 0x2000, 0x3000 and 0x10000; fill-array-data payloads of total size just below / at / above "
               "2^16, 2^20, 2^20+8 bytes (widths 1, 2, 4, 8); packed / sparse switch payloads with 0xFFFF entries")
    creqs = [c["request"] for _, c in corpus_cases()]
    if creqs:
        run_stream(ck, drv, "corpus", creqs)
    run_boundary(ck, big)
    run_histories(ck, drv, 6000 if big else 400)
    nprog = 150000 if big else 6000
    progs = gen_programs(rng, nprog)
    run_stream(ck, drv, "assembled", [p[0] for p in progs], [p[1] for p in progs])
    run_stream(ck, drv, "mutated", gen_mutations(rng, progs, 500000 if big else 15000))
    run_stream(ck, drv, "random", gen_random(rng, 400000 if big else 10000))
    run_stream(ck, drv, "small", gen_small_exhaustive())
    # DCode.off_to_pos / get_ins_off on assembled programs
    preqs, pexp = [], []
    for rq, items in progs[: (20000 if big else 2000)]:
        _, a, buf = parse_req(rq)
        offs = [o for o, _ in items]
        for off in {rng.choice(offs), rng.randrange(0, len(buf) + 3), offs[-1]}:
            preqs.append(f"pos {a[1]} {off} {hexs(buf)}")
            pexp.append(offs.index(off) if off in offs else -1)
    real = run_stream(ck, drv, "dcode", preqs)
    for rq, rl, e in zip(preqs, real, pexp):
        if rl.split(" ")[0] != str(e) or ((rl.split(" ")[1] == "None") != (e == -1)):
            ck.fail({"request": rq}, "off_to_pos / get_ins_off do not look the instruction up by its byte offset", None, e, rl)
            break
    ck.assumptions.append("the ClassManager is a stand-in providing only `packer` and `get_odex_format` (as tests/test_dex.py); "
                          "struct modelled as AgVerif.Insn.pack/unpack")
    ck.notes.append("history stream: seeded sequences (3-10 steps) of get_instructions / get_raw / get_length / get_ins_off / off_to_pos / "
                    "get_instruction / set_insn+reload / set_instructions on ONE real DCode object, over valid programs and programs "
                    "ending in or containing an unused opcode, a non-zero pad byte, a truncated instruction, a payload past the end, "
                    "an odd trailing byte; after every step the answer must equal that of a FRESH DCode on the bytes in effect — "
                    "which is what the Lean model says, being a pure function of the bytes (its sweep of every byte string in effect "
                    "is compared in the stream history-bytes)")
    ck.notes.append("registered against the tree with fixes/C01-31c-unsigned-index.diff and fixes/C02-*.diff applied; "
                    "PackedSwitch's max_size rule and FillArrayData's silent truncation are modelled as they are "
                    "(they are unreachable for yielded items once the end-of-code check is in place)")
    ck.partial.append("sweep_assembled (exact recovery of every Valid program) is stated for the non-ODEX sweep; the ODEX "
                      "sweep of assembled programs is covered by sweep_assembled_partial, the correspondence and the oracle")

def replay(ck: Check, rp):
    _real()
    c = rp.get("case") or rp.get("first_divergence") or {}
    rq = c.get("request")
    print("replay", c)
    if c.get("history"):
        log, bad, _ = run_history(c["history"])
        for k, (st, live, fresh) in enumerate(log):
            mark = "  <-- differs" if live != fresh else ""
            print(f"  step {k}: {st[:120]}\n      live : {live[:200]}\n      fresh: {fresh[:200]}{mark}")
        print("first differing step:", bad)
        return 0
    lb = c.get("boundary") or (rq[len("boundary "):] if rq and rq.startswith("boundary ") else None)
    if lb:
        rq, exp = boundary_case(lb)
        kind, a, buf = parse_req(rq)
        print(f"boundary case {lb}: sweep odex=0 size={a[1]} idx=0 over {len(buf)} bytes; expected {len(exp)} items, "
              f"last three at {[(o, len(r)) for o, r in exp[-3:]]}")
        real = canon_real(rq)
        print("real :", _shorten(real)[-400:])
        try:
            print("model:", _shorten(Driver("drv_C02").ask([rq])[0])[-400:])
        except Exception as e:  # noqa
            print("model: (driver unavailable)", e)
        v = judge(rq, real, exp)
        print("judge:", tuple(str(x)[:300] for x in v) if v else None)
        return 0
    if rq:
        real = canon_real(rq)
        print("real :", real)
        try:
            print("model:", Driver("drv_C02").ask([rq])[0])
        except Exception as e:  # noqa
            print("model: (driver unavailable)", e)
        print("judge:", judge(rq, real))
        kind, a, buf = parse_req(rq)
        if kind == "sweep" and len(buf) % 2 == 0:
            items, st = DS.sweep(buf)
            print("spec sweep of the whole buffer:", st, [(o, d.get("name") or d.get("kind"), d["length"]) for o, d in items])
    if "theorem" in rp:
        print("theorem:", rp["theorem"])
    return 0
