"""C25 — merged short-circuit conditions route control as the original branches did (DESIGN.md section 6, C25).

Real code under test: control_flow.short_circuit_struct / identify_structures, basic_blocks.Condition /
ShortCircuitBlock / CondBlock, writer.Writer.visit_cond_node / visit_short_circuit_condition /
visit_cond_expression / visit_condz_expression, instruction.CONDS through ConditionalExpression.neg.

A case is a *chain graph*: k conditional nodes (real CondBlock objects holding one real
ConditionalExpression / ConditionalZExpression over real Param operands) and m exits (real ReturnBlock objects).

T  stream `sc`  : the merges the real short_circuit_struct performs (observed through the Graph object we pass in) are
                  replayed on the Lean model (AgVerif.ShortCircuit.mergeAt: the four shapes, the single-predecessor
                  test, the entry rule); the final graph (condition trees, flags, operators, true/false targets,
                  entry) must coincide.
   stream `wr`  : (acyclic graphs) which conditions the real Writer prints, in which order and which of them negated
                  and swapped, against the model of the visit discipline (AgVerif.WriterVisit.visitNode).
   stream `pr`  : every condition the real Writer prints (after identify_structures) against the model's
                  negate-and-swap + print (which mutates): the text and the (true,false) pair must coincide.
S  O0 graph     : the merged graph, evaluated by a 15-line evaluator of Condition objects, reaches from the entry the
                  same exit as a walk over the original chain, for every ordering of every leaf's operands.
   O1 printed   : the printed text of each merged/plain condition is parsed (independent Java-expression parser)
                  and evaluated; true must lead to node.true and false to node.false exactly as the original chain
                  from the node's first branch does.
   O2 program   : (acyclic graphs) the whole structured output is parsed and executed; it returns what the original
                  chain returns.
"""
import itertools
import json
import os
import re

from harness.fw import Check, Driver, VERIF

# hand-modelled functions (normalised-AST hashes in gen/pins.json; a change escalates the search, it is not a verdict)
PINS = [("androguard/decompiler/control_flow.py", "short_circuit_struct"),
        ("androguard/decompiler/control_flow.py", "short_circuit_struct.MergeNodes"),
        ("androguard/decompiler/basic_blocks.py", "Condition.neg"),
        ("androguard/decompiler/basic_blocks.py", "Condition.visit"),
        ("androguard/decompiler/basic_blocks.py", "ShortCircuitBlock.__init__"),
        ("androguard/decompiler/basic_blocks.py", "ShortCircuitBlock.neg"),
        ("androguard/decompiler/basic_blocks.py", "ShortCircuitBlock.visit_cond"),
        ("androguard/decompiler/basic_blocks.py", "CondBlock.neg"),
        ("androguard/decompiler/basic_blocks.py", "CondBlock.visit_cond"),
        ("androguard/decompiler/writer.py", "Writer.visit_node"),
        ("androguard/decompiler/writer.py", "Writer.visit_cond_node"),
        ("androguard/decompiler/writer.py", "Writer.visit_short_circuit_condition"),
        ("androguard/decompiler/writer.py", "Writer.visit_cond_expression"),
        ("androguard/decompiler/writer.py", "Writer.visit_condz_expression"),
        ("androguard/decompiler/instruction.py", "ConditionalExpression.neg"),
        ("androguard/decompiler/instruction.py", "ConditionalZExpression.neg")]

OPS = ["==", "!=", "<", "<=", ">=", ">"]
KINDS = ["bin", "zint", "zbool"]
KIND_OPS = {"bin": OPS, "zint": OPS, "zbool": ["==", "!="]}
CMP = {"==": lambda a, b: a == b, "!=": lambda a, b: a != b, "<": lambda a, b: a < b,
       "<=": lambda a, b: a <= b, ">=": lambda a, b: a >= b, ">": lambda a, b: a > b}
# operand choices per leaf (every ordering of the two operands)
CHOICES = {"bin": [(0, 1), (1, 1), (1, 0)], "zint": [(-1, 0), (0, 0), (1, 0)], "zbool": [(0, 0), (1, 0)]}


# ----------------------------------------------------------------------------------------------- real objects
def _real():
    from androguard.decompiler import basic_blocks, control_flow, graph, instruction, writer
    return basic_blocks, control_flow, graph, instruction, writer


class _Method:
    """what Writer.write_method reads from a DvMethod"""
    access = ["static"]
    name = "m"
    type = "I"
    cls_name = "LX;"
    lparams = []
    params_type = []


def build(spec):
    """spec = {"conds": [[kind, op, true_target, false_target], ...], "exits": m, "entry": "c0"}
    targets are "c<i>" / "e<j>". Returns (graph, name->node) made of real decompiler objects."""
    bb, cf, gr, ins, wr = _real()
    g = gr.Graph()
    nodes = {}
    for i, (kind, op, t, f) in enumerate(spec["conds"]):
        if kind == "bin":
            e = ins.ConditionalExpression(op, ins.Param(2 * i, "I"), ins.Param(2 * i + 1, "I"))
        elif kind == "zint":
            e = ins.ConditionalZExpression(op, ins.Param(2 * i, "I"))
        else:
            e = ins.ConditionalZExpression(op, ins.Param(2 * i, "Z"))
        nodes["c%d" % i] = bb.CondBlock("c%d" % i, [e])
    for j in range(spec["exits"]):
        nodes["e%d" % j] = bb.ReturnBlock("e%d" % j, [ins.ReturnInstruction(ins.Constant(j, "I"))])
    for j, suc in enumerate(spec.get("stmts", [])):
        nodes["s%d" % j] = bb.StatementBlock("s%d" % j, [])
    reach = reachable(spec)
    for name in sorted(reach, key=lambda s: ("cse".index(s[0]), int(s[1:]))):
        g.add_node(nodes[name])
    for j, suc in enumerate(spec.get("stmts", [])):
        if "s%d" % j in reach:
            g.add_edge(nodes["s%d" % j], nodes[suc])
    for i, (kind, op, t, f) in enumerate(spec["conds"]):
        if "c%d" % i not in reach:
            continue
        n = nodes["c%d" % i]
        n.true, n.false = nodes[t], nodes[f]
        # graph.make_node adds the edges in the order of block.childs: fall-through (false) first, then the target
        g.add_edge(n, nodes[f])
        g.add_edge(n, nodes[t])
    g.entry = nodes[spec.get("entry", "c0")]
    g.compute_rpo()
    return g, nodes


def reachable(spec):
    seen, todo = set(), [spec.get("entry", "c0")]
    while todo:
        n = todo.pop()
        if n in seen:
            continue
        seen.add(n)
        if n[0] == "c":
            todo += [spec["conds"][int(n[1:])][2], spec["conds"][int(n[1:])][3]]
        elif n[0] == "s":
            todo.append(spec["stmts"][int(n[1:])])
    return seen


def rep(node):
    """original node name a (possibly merged / loop-wrapped) node starts with"""
    bb = _real()[0]
    while True:
        if isinstance(node, bb.ShortCircuitBlock):
            node = node.cond.cond1
        elif isinstance(node, bb.LoopBlock):
            node = node.cond
        else:
            return node.name if node is not None else None


def leaves(node):
    bb = _real()[0]
    if isinstance(node, bb.ShortCircuitBlock):
        return leaves(node.cond.cond1) + leaves(node.cond.cond2)
    if isinstance(node, bb.LoopBlock):
        return leaves(node.cond)
    return [node.name]


def tree(node):
    """canonical text of a condition tree: L<id>:<kind>:<op> | S<isnot><isand>(a,b)"""
    bb = _real()[0]
    if isinstance(node, bb.LoopBlock):
        return tree(node.cond)
    if isinstance(node, bb.ShortCircuitBlock):
        c = node.cond
        return "S%d%d(%s,%s)" % (bool(c.isnot), bool(c.isand), tree(c.cond1), tree(c.cond2))
    e = node.ins[-1]
    kind = "bin" if hasattr(e, "arg1") else ("zbool" if str(e.var_map[e.arg].get_type()) == "Z" else "zint")
    return "L%s:%s:%s" % (node.name[1:], kind, e.op)


def run_struct(spec):
    """real short_circuit_struct on the chain graph. Returns (canonical final graph line, merge trace, graph)
    or ("exc:<Type>", [], None)."""
    bb, cf, gr, ins, wr = _real()
    g, nodes = build(spec)
    trace = []
    real_add = g.add_node

    def add_node(n):                       # observation only: the Graph instance is ours
        if isinstance(n, bb.ShortCircuitBlock):
            trace.append((rep(n.cond.cond1), rep(n.cond.cond2)))
        return real_add(n)
    g.add_node = add_node
    try:
        idom = g.immediate_dominators()
        cf.short_circuit_struct(g, idom, {})
    except Exception as e:  # noqa
        return "exc:" + type(e).__name__, trace, None
    return canon_graph(g), trace, g


def canon_graph(g):
    out = []
    for n in g.nodes:
        if n.type.is_cond:
            out.append((int(rep(n)[1:]), "%s>%s,%s" % (tree(n), rep(n.true), rep(n.false))))
    return "entry=%s " % rep(g.entry) + " ".join(s for _, s in sorted(out))


def spec_line(spec, trace):
    cs = ",".join("%s:%s:%s:%s" % tuple(c) for c in spec["conds"])
    ss = ",".join(spec.get("stmts", [])) or "-"
    tr = ",".join("%s>%s" % (a, b) for a, b in trace) or "-"
    return "sc %s %s %s %s" % (spec.get("entry", "c0"), cs, ss, tr)


# ----------------------------------------------------------------------------------------------- oracle pieces
def assignments(spec, cap=243):
    """every ordering of every leaf's operands; beyond `cap` combinations a deterministic sample of them"""
    ks = [CHOICES[c[0]] for c in spec["conds"]]
    total = 1
    for k in ks:
        total *= len(k)
    if total <= cap:
        return list(itertools.product(*ks))
    import random
    r = random.Random(json.dumps(spec["conds"]))
    out = {tuple(r.choice(k) for k in ks) for _ in range(cap)}
    return sorted(out)


def leaf_truth(spec, i, env):
    kind, op = spec["conds"][i][0], spec["conds"][i][1]
    a, b = env[i]
    return CMP[op](a, b)


def walk(spec, env, start, inside=None):
    """walk the ORIGINAL chain from `start` under env; stop at an exit, or on leaving `inside` (a set of names).
    Returns the name reached, or "diverge"."""
    n, steps = start, 0
    while (n[0] == "c" and (inside is None or n in inside)) or (n[0] == "s" and inside is None):
        if n[0] == "s":
            n = spec["stmts"][int(n[1:])]
        else:
            i = int(n[1:])
            n = spec["conds"][i][2] if leaf_truth(spec, i, env) else spec["conds"][i][3]
        steps += 1
        if inside is not None and n == start:
            return n                    # an edge back to the first branch of the merged node leaves the chain
        if steps > 4 * (len(spec["conds"]) + len(spec.get("stmts", []))) + 4:
            return "diverge"
    return n


def ev_node(node, env):
    """truth of a (merged) condition node as the data structure stands now (Condition semantics by its flags)"""
    bb = _real()[0]
    if isinstance(node, bb.ShortCircuitBlock):
        c = node.cond
        v1 = ev_node(c.cond1, env)
        if c.isnot:
            v1 = not v1
        if c.isand:
            return v1 and ev_node(c.cond2, env)
        return v1 or ev_node(c.cond2, env)
    e = node.ins[-1]
    a, b = env[int(node.name[1:])]
    return CMP[e.op](a, b)


def walk_merged(g, env, limit):
    n, steps = g.entry, 0
    while n.type.is_cond or n.type.is_stmt:
        if n.type.is_stmt:
            n = g.sucs(n)[0]
        else:
            n = n.true if ev_node(n, env) else n.false
        steps += 1
        if steps > limit:
            return "diverge"
    return n.name


def print_all(g):
    """print every conditional node of the graph ONCE through a real Writer (node.visit_cond) and parse the text"""
    wr = _real()[4]
    w = wr.Writer(g, _Method())
    out = {}
    for n in g.nodes:
        if n.type.is_cond:
            start = len(w.buffer)
            n.visit_cond(w)
            out[n] = parse_cond("".join(str(x) for x in w.buffer[start:]))
    return out


def walk_printed(g, asts, env, limit):
    """entry-to-exit routing of the merged graph when every node branches as its PRINTED text says"""
    n, steps = g.entry, 0
    while n.type.is_cond or n.type.is_stmt:
        if n.type.is_stmt:
            n = g.sucs(n)[0]
        else:
            n = n.true if truthy(ev_ast(asts[n], env)) else n.false
        steps += 1
        if steps > limit:
            return "diverge"
    return n.name


TOK = re.compile(r"\s*(&&|\|\||==|!=|<=|>=|<|>|!|\(|\)|-?\d+|[A-Za-z_][A-Za-z_0-9]*)")


def parse_cond(text):
    """Java boolean expression over p<n>, integer literals, relational operators, !, &&, ||, parentheses -> AST"""
    toks, pos = [], 0
    text = text.strip()
    while pos < len(text):
        m = TOK.match(text, pos)
        if not m:
            raise ValueError("cannot tokenise %r at %d" % (text, pos))
        toks.append(m.group(1)); pos = m.end()
    p = [0]

    def peek():
        return toks[p[0]] if p[0] < len(toks) else None

    def eat(t=None):
        x = peek()
        if x is None or (t is not None and x != t):
            raise ValueError("expected %r, got %r in %r" % (t, x, text))
        p[0] += 1
        return x

    def p_or():
        a = p_and()
        while peek() == "||":
            eat(); a = ("or", a, p_and())
        return a

    def p_and():
        a = p_rel()
        while peek() == "&&":
            eat(); a = ("and", a, p_rel())
        return a

    def p_rel():
        a = p_un()
        if peek() in CMP:
            op = eat(); return ("cmp", op, a, p_un())
        return a

    def p_un():
        if peek() == "!":
            eat(); return ("not", p_un())
        if peek() == "(":
            eat(); a = p_or(); eat(")"); return a
        t = eat()
        if re.fullmatch(r"-?\d+", t):
            return ("int", int(t))
        if t in ("true", "false"):
            return ("int", int(t == "true"))
        if re.fullmatch(r"p\d+", t):
            return ("var", int(t[1:]))
        raise ValueError("unexpected token %r in %r" % (t, text))
    a = p_or()
    if peek() is not None:
        raise ValueError("trailing %r in %r" % (peek(), text))
    return a


def ev_ast(a, env):
    k = a[0]
    if k == "or":
        return truthy(ev_ast(a[1], env)) or truthy(ev_ast(a[2], env))
    if k == "and":
        return truthy(ev_ast(a[1], env)) and truthy(ev_ast(a[2], env))
    if k == "not":
        return not truthy(ev_ast(a[1], env))
    if k == "cmp":
        return CMP[a[1]](ev_ast(a[2], env), ev_ast(a[3], env))
    if k == "int":
        return a[1]
    if k == "var":
        v = env[a[1] // 2]
        return v[a[1] % 2]
    raise ValueError(a)


def truthy(v):
    return v if isinstance(v, bool) else v != 0


def parse_program(text):
    """structured output of Writer for an acyclic chain graph -> nested statement list"""
    lines = [l.strip() for l in text.split("\n") if l.strip()]
    pos = [0]

    def block(stop):
        out = []
        while pos[0] < len(lines):
            l = lines[pos[0]]
            if l in stop or (l.startswith("}") and "}" in stop):
                return out
            pos[0] += 1
            m = re.fullmatch(r"if \((.*)\) \{", l)
            if m:
                then = block({"}"})
                els = []
                l2 = lines[pos[0]]
                pos[0] += 1
                if l2 == "} else {":
                    els = block({"}"})
                    if lines[pos[0]] != "}":
                        raise ValueError("unclosed else: %r" % lines[pos[0]])
                    pos[0] += 1
                elif l2 != "}":
                    raise ValueError("unexpected %r" % l2)
                out.append(("if", parse_cond(m.group(1)), then, els))
                continue
            m = re.fullmatch(r"return (-?\d+);", l)
            if m:
                out.append(("return", int(m.group(1)))); continue
            if l.startswith("// Both branches"):
                continue
            m = re.fullmatch(r"// if \((.*)\) \{", l)
            if m:
                parse_cond(m.group(1))
                body = block({"// }"})
                pos[0] += 1
                out.append(("seq", body)); continue
            raise ValueError("unexpected line %r" % l)
        return out
    prog = block(set())
    if pos[0] != len(lines):
        raise ValueError("trailing %r" % lines[pos[0]])
    return prog


def run_program(prog, env):
    for st in prog:
        if st[0] == "return":
            return st[1]
        if st[0] == "seq":
            r = run_program(st[1], env)
            if r is not None:
                return r
        if st[0] == "if":
            r = run_program(st[2] if truthy(ev_ast(st[1], env)) else st[3], env)
            if r is not None:
                return r
    return None


# ----------------------------------------------------------------------------------------------- writer run
def run_writer(spec):
    """real identify_structures + Writer on the chain graph.
    Returns dict(prints=[{owner, pre, pre_tf, text, tf, leaves}], text=<whole output>) or {"exc": ...}"""
    bb, cf, gr, ins, wr = _real()
    g, nodes = build(spec)
    try:
        cf.identify_structures(g, g.immediate_dominators())
    except Exception as e:  # noqa
        return {"exc": "struct:" + type(e).__name__}
    w = wr.Writer(g, _Method())
    prints, depth = [], [0]

    def wrap(n):
        if n is None or getattr(n, "_c25", False):
            return
        n._c25 = True
        inner = n.visit_cond                      # bound method of the real class

        def visit_cond(visitor, n=n, inner=inner):
            top = depth[0] == 0
            depth[0] += 1
            start = len(visitor.buffer)
            try:
                return inner(visitor)
            finally:
                depth[0] -= 1
                if top:
                    before = str(visitor.buffer[start - 1]) if start else ""
                    pos = ("latch" if before.endswith("} while(") else "both" if before.endswith("// if (") else
                           "while" if before.endswith("while (") else "if" if before.endswith("if (") else "other")
                    prints.append({"owner": n, "text": "".join(str(s) for s in visitor.buffer[start:]), "pos": pos,
                                   "tf": (rep(n.true), rep(n.false)), "leaves": leaves(n), "rep": rep(n)})
        n.visit_cond = visit_cond
        if isinstance(n, bb.ShortCircuitBlock):
            wrap(n.cond.cond1); wrap(n.cond.cond2)
        elif isinstance(n, bb.LoopBlock):
            wrap(n.cond)
    pre = {}
    wr_nodes = []

    def wname(n):
        # a LoopBlock and the node it wraps are two objects: the loop is l<id>, the wrapped node keeps its name
        if n is None:
            return "-"
        if isinstance(n, bb.LoopBlock):
            inner = rep(n)
            return "l%d" % (int(inner[1:]) + (1000 if inner[0] == "s" else 0))
        return rep(n)

    def wdump(n):
        if isinstance(n, bb.LoopBlock):
            lt = "pre" if n.looptype.is_pretest else "post" if n.looptype.is_posttest else "endless" if n.looptype.is_endless else "none"
            wr_nodes.append("%s:%d:%s:%s:%s:%s:%s:%s" % (wname(n), n.num, lt, wname(n.cond), wname(n.latch),
                                                         wname(n.true), wname(n.false), wname(n.follow["loop"])))
            wdump(n.cond)
        elif n.type.is_cond:
            wr_nodes.append("%s:%d:%s:%s:%s" % (wname(n), n.num, wname(n.true), wname(n.false), wname(n.follow["if"])))
        elif n.type.is_stmt:
            sucs = g.sucs(n)
            wr_nodes.append("%s:%d:%s" % (wname(n), n.num, wname(sucs[0]) if len(sucs) == 1 else "-"))
        else:
            wr_nodes.append("%s:%d" % (n.name, n.num))
    for n in list(g.nodes):
        wdump(n)
    for n in list(g.nodes):
        if n.type.is_cond:
            pre[rep(n)] = (tree(n), rep(n.true), rep(n.false), type(n).__name__)
            wrap(n)
            if isinstance(n, bb.LoopBlock) and n.latch is not None and n.latch.type.is_cond:
                wrap(n.latch)
    try:
        w.visit_node(g.entry)
    except Exception as e:  # noqa
        return {"exc": "writer:" + type(e).__name__, "prints": prints, "pre": pre}
    return {"prints": prints, "pre": pre, "text": str(w), "wr": "wr %s %s" % (wname(g.entry), ",".join(wr_nodes))}


# ----------------------------------------------------------------------------------------------- case checks
def check_case(ck: Check, spec, want_writer=True, o2=True):
    """all three oracles on one spec. Returns (request lines, real replies, info)"""
    reqs, real = [], []
    info = {"merges": 0, "prints": 0, "swapped": 0, "sc_prints": 0, "exc": None}
    envs = list(assignments(spec))
    # ---- stage A: short_circuit_struct
    line, trace, g = run_struct(spec)
    reqs.append(spec_line(spec, trace)); real.append(line)
    info["merges"] = len(trace)
    if g is None:
        ck.fail({"spec": spec, "stage": "struct"}, "short_circuit_struct raises on a chain graph", None, "no exception", line)
    else:
        entry = spec.get("entry", "c0")
        for env in envs:
            exp = walk(spec, env, entry)
            got = walk_merged(g, env, 4 * len(spec["conds"]) + 4)
            if exp != got:
                ck.fail({"spec": spec, "stage": "struct", "env": list(env)},
                        "after short_circuit_struct the graph routes an input to another exit than the original chain",
                        None, exp, got)
                break
        else:
            # the same routing question through the text the writer prints for each node of the merged graph
            lim = 4 * (len(spec["conds"]) + len(spec.get("stmts", []))) + 4
            try:
                asts = print_all(g)
            except ValueError as e:
                asts = None
                ck.fail({"spec": spec, "stage": "struct-print"}, "printed condition is not a boolean expression", None,
                        "parsable", str(e))
            for env in envs if asts is not None else ():
                exp = walk(spec, env, entry)
                got = walk_printed(g, asts, env, lim)
                if exp != got:
                    ck.fail({"spec": spec, "stage": "struct-print", "env": list(env)},
                            "entering the method, the printed conditions of the merged graph lead to another exit than the original branches",
                            None, exp, got)
                    break
    if not want_writer:
        return reqs, real, info
    # ---- stage B: identify_structures + Writer
    r = run_writer(spec)
    if "exc" in r:
        info["exc"] = r["exc"]
        return reqs, real, info
    seen_leaves = set()
    order = []
    for pr in r["prints"]:
        t0 = r["pre"].get(pr["rep"])
        if t0 is None or seen_leaves & set(pr["leaves"]):
            # a condition printed a second time: only on graphs the loop structuring does not handle (see notes)
            info["reprinted"] = info.get("reprinted", 0) + 1
            continue
        seen_leaves |= set(pr["leaves"])
        info["prints"] += 1
        info["pos_" + pr["pos"]] = info.get("pos_" + pr["pos"], 0) + 1
        swapped = (t0[1], t0[2]) == (pr["tf"][1], pr["tf"][0]) and t0[1] != t0[2]
        order.append("%s:%d" % (pr["rep"], swapped))
        info["swapped"] += swapped
        info["sc_prints"] += t0[0].startswith("S")
        reqs.append("pr %d %s" % (swapped, t0[0]))
        real.append("%s" % pr["text"])
        # O1
        try:
            ast = parse_cond(pr["text"])
        except ValueError as e:
            ck.fail({"spec": spec, "stage": "print", "node": pr["rep"]}, "printed condition is not a boolean expression",
                    None, "parsable", str(e))
            continue
        inside = set(pr["leaves"])
        for env in envs:
            b = truthy(ev_ast(ast, env))
            exp = walk(spec, env, pr["rep"], inside)
            got = pr["tf"][0] if b else pr["tf"][1]
            if exp != got:
                ck.fail({"spec": spec, "stage": "print", "node": pr["rep"], "env": list(env)},
                        "printed condition sends an input to another successor than the original chain of branches",
                        None, {"text": pr["text"], "reaches": exp}, {"value": b, "true": pr["tf"][0], "false": pr["tf"][1]})
                break
    if (acyclic(spec) and not spec.get("stmts")) or spec.get("family") == "loop":
        # the visit discipline (which conditions are printed, in which order, which ones negated-and-swapped);
        # loop nodes (visit_loop_node) on the structured while / do-while / break families
        reqs.append(r["wr"]); real.append(" ".join(order))
        if info.get("reprinted"):
            ck.fail({"spec": spec, "stage": "print"}, "a condition is printed more than once on an acyclic graph",
                    None, "each condition once", [p_["rep"] for p_ in r["prints"]])
    # O2
    if o2 and acyclic(spec) and not spec.get("stmts"):
        try:
            prog = parse_program(r["text"])
        except (ValueError, IndexError) as e:
            info["exc"] = "o2-parse"
            info["o2_text"] = r["text"]
            return reqs, real, info
        for env in envs:
            exp = walk(spec, env, spec.get("entry", "c0"))
            got = run_program(prog, env)
            if "e%s" % got != exp:
                ck.fail({"spec": spec, "stage": "program", "env": list(env)},
                        "decompiled if/else text returns another exit than the original chain",
                        None, exp, {"returns": got, "text": r["text"]})
                break
        info["o2"] = 1
    return reqs, real, info


def acyclic(spec):
    color = {}

    def dfs(n):
        if n[0] == "e":
            return True
        if color.get(n) == 1:
            return False
        if color.get(n) == 2:
            return True
        color[n] = 1
        if n[0] == "s":
            ok = dfs(spec["stmts"][int(n[1:])])
        else:
            c = spec["conds"][int(n[1:])]
            ok = dfs(c[2]) and dfs(c[3])
        color[n] = 2
        return ok
    return dfs(spec.get("entry", "c0"))


# ----------------------------------------------------------------------------------------------- generators
def gen_exhaustive(k, m, rng, back_edges):
    """all chain graphs with k conditional nodes over m exits: every node's two targets range over the later nodes
    (all nodes when back_edges) and the exits; every node reachable from c0; every exit index used is < m.
    Operators/kinds are drawn per graph (seeded) — the routing structure is exhaustive."""
    names_c = ["c%d" % i for i in range(k)]
    names_e = ["e%d" % j for j in range(m)]
    per_node = []
    for i in range(k):
        tg = (names_c if back_edges else names_c[i + 1:]) + names_e
        per_node.append([(t, f) for t in tg for f in tg])
    for combo in itertools.product(*per_node):
        spec = {"conds": [[None, None, t, f] for (t, f) in combo], "exits": m}
        r = reachable(spec)
        if any(c not in r for c in names_c):
            continue
        # canonical exits: first use order (avoid counting renamings of exits twice)
        used = []
        for c in spec["conds"]:
            for t in c[2:]:
                if t[0] == "e" and t not in used:
                    used.append(t)
        if used != names_e[:len(used)]:
            continue
        for c in spec["conds"]:
            c[0] = rng.choice(["bin", "bin", "zint", "zbool"])
            c[1] = rng.choice(KIND_OPS[c[0]])
        yield spec


def gen_canonical(k, m, rng):
    """ALL graphs of k conditional nodes over <= m exits, back edges included (every target ranges over every
    conditional node and every exit), up to renaming: nodes numbered in depth-first discovery order from the entry c0
    (true branch first), exits in first-use order, every node reachable.  Yields (spec, entry_is_loop_header)."""
    names_c = ["c%d" % i for i in range(k)]
    names_e = ["e%d" % j for j in range(m)]
    tg = names_c + names_e
    pairs = [(t, f) for t in tg for f in tg]
    for combo in itertools.product(pairs, repeat=k):
        order, eorder, seen = [], [], set()
        stack = ["c0"]
        while stack:                                  # iterative pre-order, true before false
            x = stack.pop()
            if x in seen:
                continue
            seen.add(x)
            if x[0] == "e":
                eorder.append(x)
                continue
            order.append(x)
            t, f = combo[int(x[1:])]
            stack.append(f); stack.append(t)
        if order != names_c or eorder != names_e[:len(eorder)]:
            continue
        conds = []
        for (t, f) in combo:
            kind = rng.choice(["bin", "bin", "zint", "zbool"])
            conds.append([kind, rng.choice(KIND_OPS[kind]), t, f])
        yield {"conds": conds, "exits": m}, any("c0" in p for p in combo)


def gen_random_cyclic(rng, k, ns, m):
    """random graph of k conditional nodes and ns empty statement nodes; every conditional target is drawn uniformly
    from all conditional nodes, statement nodes and exits (so back edges, also to the entry c0, are common);
    statement nodes lead to a conditional node or an exit"""
    tg = ["c%d" % j for j in range(k)] + ["s%d" % j for j in range(ns)] + ["e%d" % j for j in range(m)]
    conds = []
    for i in range(k):
        kind = rng.choice(["bin", "bin", "zint", "zbool"])
        conds.append([kind, rng.choice(KIND_OPS[kind]), rng.choice(tg), rng.choice(tg)])
    stmts = [rng.choice(["c%d" % j for j in range(k)] * 3 + ["e%d" % j for j in range(m)]) for _ in range(ns)]
    spec = {"conds": conds, "exits": m}
    if ns:
        spec["stmts"] = stmts
    return spec


class _Collect:
    """stands in for Check inside worker processes"""
    def __init__(self):
        self.failures = []

    def fail(self, case, what, key=None, expected=None, observed=None):
        self.failures.append((case, what, key, expected, observed))


def _work(job):
    spec, ww, o2 = job
    c = _Collect()
    try:
        rq, rl, info = check_case(c, spec, want_writer=ww, o2=o2)
    except Exception as e:      # the real pass left a graph this harness cannot even walk (never seen on a tree where C25 holds)
        c.fail({"spec": spec, "stage": "inspect"}, "short_circuit_struct / the writer on this condition graph ended in an exception while the "
               "merged graph was being inspected (a node the harness looks up is missing or unexpected): the merged "
               "graph does not route control like the original one", None, "a merged graph with every original exit",
               "%s: %s" % (type(e).__name__, str(e)[:120]))
        return [], [], {"merges": 0, "prints": 0, "swapped": 0, "sc_prints": 0, "exc": "inspect", "o2": 0}, c.failures
    info.pop("o2_text", None)
    return rq, rl, info, c.failures


def gen_loop(shape, k, rng):
    """chains inside loops (empty StatementBlocks s<i> give the loops a body):
    W  while (chain) { s1 }            s0 -> c0 ; chain targets in {later, s1 (body), e0 (leave)} ; s1 -> c0
    D  do { s0 } while (chain)         s0 -> c0 ; chain targets in {later, s0 (again), e0 (leave)}
    B  while (c0) { s2; if (chain) break; s1 }   c0 -> s2 | e0 ; s2 -> c1 ; chain c1.. targets in {later, s1, e0} ; s1 -> c0"""
    first = 1 if shape == "B" else 0
    n = k + first
    body = {"W": "s1", "D": "s0", "B": "s1"}[shape]
    per_node = []
    for i in range(first, n):
        tg = ["c%d" % j for j in range(i + 1, n)] + [body, "e0"]
        per_node.append([(t, f) for t in tg for f in tg if t != f])
    for combo in itertools.product(*per_node):
        conds = [[None, None, t, f] for (t, f) in combo]
        if shape == "B":
            conds.insert(0, [None, None, "s2", "e0"])
        stmts = {"W": ["c0", "c0"], "D": ["c0"], "B": ["c0", "c0", "c1"]}[shape]
        spec = {"conds": conds, "exits": 1, "stmts": stmts, "entry": "s0", "family": "loop"}
        r = reachable(spec)
        if any("c%d" % i not in r for i in range(n)) or body not in r or "e0" not in r:
            continue
        for c in conds:
            c[0] = rng.choice(["bin", "bin", "zint", "zbool"])
            c[1] = rng.choice(KIND_OPS[c[0]])
        yield spec


def gen_random_chain(rng, k, m):
    """a longer chain: node i goes to node i+1 on one side and to an exit or a later node on the other; the polarity
    of each node is random, so that all four merge shapes and deep nesting occur"""
    conds = []
    for i in range(k):
        nxt = "c%d" % (i + 1) if i + 1 < k else "e%d" % rng.randrange(m)
        r = rng.random()
        if r < 0.75 or i + 2 >= k:
            other = "e%d" % rng.randrange(m)
        else:
            other = "c%d" % rng.randrange(i + 2, k)
        t, f = (nxt, other) if rng.random() < 0.5 else (other, nxt)
        kind = rng.choice(["bin", "bin", "zint", "zbool"])
        conds.append([kind, rng.choice(KIND_OPS[kind]), t, f])
    return {"conds": conds, "exits": m}


def gen_random_graph(rng, k, m, back):
    conds = []
    for i in range(k):
        tg = ["c%d" % j for j in range(k) if back or j > i] + ["e%d" % j for j in range(m)] * 2
        kind = rng.choice(["bin", "bin", "zint", "zbool"])
        conds.append([kind, rng.choice(KIND_OPS[kind]), rng.choice(tg), rng.choice(tg)])
    return {"conds": conds, "exits": m}


# ----------------------------------------------------------------------------------------------- run / replay
def corpus_cases():
    d = os.path.join(VERIF, "corpus", "C25")
    out = []
    if os.path.isdir(d):
        for fn in sorted(os.listdir(d)):
            if fn.endswith(".json"):
                out.append(json.load(open(os.path.join(d, fn)))["spec"])
    return out


def run(ck: Check):
    import time
    import multiprocessing
    t0 = time.time()
    ck.pins_changed(PINS)                  # a modelled function changed: thorough sizes even in the quick tier
    if os.environ.get("VERIF_NO_ESCALATE"):
        ck.escalated = False
    big = (not ck.quick) or ck.escalated
    ck.run_gen("conds")
    ck.run_gen("scstruct")
    ck.prove(exes=["drv_C25"])
    drv = Driver("drv_C25")
    t1 = time.time()
    rng = ck.rng
    ck.rule = ("chain graph = k real CondBlocks (one real Conditional[Z]Expression each) + m ReturnBlocks; exhaustive: every "
               "assignment of (true,false) targets for k=2,3 over <=3 exits, forward edges (and with back edges for the "
               "graph-level oracles), all nodes reachable, exits named in first-use order; k=4 over <=2 exits with back edges "
               "up to renaming (quick: all graphs whose entry is a loop header + 20% of the rest); random: chains of 4..9 nodes "
               "with random polarity and skip edges, random graphs, random cyclic graphs of 4..7 conditions with statement "
               "nodes in between; every case is evaluated under every ordering of every "
               "leaf's operands (3^k, 2 for boolean leaves). distinct = distinct (routing structure, operators); "
               "non-trivial = at least one merge happened")
    specs = []          # (spec, want_writer, family)
    for sp in corpus_cases():
        specs.append((sp, True, "corpus"))
    for k in (2, 3):
        for sp in gen_exhaustive(k, 3, rng, back_edges=False):
            specs.append((sp, True, "exh-k%d" % k))
    # graphs with back edges among the conditional nodes: graph-level oracle and merge correspondence only
    for sp in gen_exhaustive(2, 3, rng, back_edges=True):
        if not acyclic(sp):
            specs.append((sp, False, "exh-back-k2"))
    for sp in gen_exhaustive(3, 3 if big else 2, rng, back_edges=True):
        if not acyclic(sp):
            specs.append((sp, False, "exh-back-k3"))
    for shape in "WDB":
        for k in (2, 3):
            for sp in gen_loop(shape, k, rng):
                specs.append((sp, True, "loop-%s%d" % (shape, k)))
    # k = 4 over <= 2 exits with back edges, all graphs up to renaming (31712): every graph whose entry is a loop
    # header (21199) + a seeded 20 % of the others; all of them when thorough / escalated
    for sp, hdr in gen_canonical(4, 2, rng):
        if hdr or big or rng.random() < 0.2:
            specs.append((sp, False, "exh-k4-entryloop" if hdr else "exh-k4-other"))
    for _ in range(40000 if big else 4000):
        sp = gen_random_cyclic(rng, rng.randrange(4, 8), rng.randrange(0, 4), rng.randrange(1, 3))
        specs.append((sp, acyclic(sp) and not sp.get("stmts"), "rand-cyclic"))
    for _ in range(30000 if big else 1200):
        specs.append((gen_random_chain(rng, rng.randrange(4, 10), rng.randrange(2, 4)), True, "rand-chain"))
    for _ in range(10000 if big else 600):
        k = rng.randrange(3, 7)
        sp = gen_random_graph(rng, k, rng.randrange(2, 4), rng.random() < 0.4)
        specs.append((sp, acyclic(sp), "rand-graph"))
    reqs, real = [], []
    dist = {"merges": 0, "prints": 0, "prints_swapped": 0, "prints_shortcircuit": 0, "writer_skipped_exc": 0,
            "program_checked": 0, "program_unparsed": 0}
    fam = {}
    distinct = set()
    samples = []
    nevals = 0
    _real()                                 # import androguard before forking
    jobs = [(spec, ww, family in ("exh-k2", "exh-k3")) for spec, ww, family in specs]
    with multiprocessing.get_context("fork").Pool(min(16, os.cpu_count() or 1)) as pool:
        results = pool.map(_work, jobs, chunksize=64)
    for (spec, ww, family), (rq, rl, info, fails) in zip(specs, results):
        for f in fails:
            ck.fail(*f)
        reqs += rq; real += rl
        nevals += 1
        fam[family] = fam.get(family, 0) + 1
        dist["merges"] += info["merges"]; dist["prints"] += info["prints"]
        dist["prints_swapped"] += info["swapped"]; dist["prints_shortcircuit"] += info["sc_prints"]
        dist["program_checked"] += info.get("o2", 0)
        if info["exc"] == "o2-parse":
            dist["program_unparsed"] += 1
        elif info["exc"]:
            dist["writer_skipped_exc"] += 1
        if info["merges"]:
            distinct.add(json.dumps(spec["conds"]))
            if len(samples) < 6 and family not in [s_["family"] for s_ in samples]:
                samples.append({"family": family, "spec": spec_line(spec, []), "final": rl[0],
                                "printed": [r_ for q_, r_ in zip(rq, rl) if q_.startswith("pr ")][:2]})
    model = drv.ask(reqs)
    sc_idx = [i for i, q in enumerate(reqs) if q.startswith("sc ")]
    pr_idx = [i for i, q in enumerate(reqs) if q.startswith("pr ")]
    wr_idx = [i for i, q in enumerate(reqs) if q.startswith("wr ")]
    ck.compare("sc", [reqs[i] for i in sc_idx], [real[i] for i in sc_idx], [model[i] for i in sc_idx])
    ck.compare("pr", [reqs[i] for i in pr_idx], [real[i] for i in pr_idx], [model[i] for i in pr_idx])
    ck.compare("wr", [reqs[i] for i in wr_idx], [real[i] for i in wr_idx], [model[i] for i in wr_idx])
    ck.cover(evaluations=nevals, distinct=distinct, samples=samples, dist=dict(dist, **{"family_" + k: v for k, v in fam.items()}))
    ck.assumptions.append("conditions are side-effect free comparisons of distinct parameters (stub operands); "
                          "set-iteration order of MergeNodes' lpreds/ldests is not modelled (the merge trace is observed and replayed)")
    ck.notes.append("wall: gen+lake build+audit (includes waiting for the shared build lock) %.1fs, correspondence+search %.1fs"
                    % (t1 - t0, time.time() - t1))
    ck.partial.append("print-once premise of merged_conditions_route_as_original: proved per visited node for cond/stmt/return/"
                      "loop nodes (writer_prints_each_node_once); switch and try nodes are outside the visit model, and with loop "
                      "nodes object-level uniqueness needs the stated injectivity premise (loop_self_latch_printed_twice)")
    ck.notes.append("O2 (whole if/else text) is applied to acyclic graphs only; loops are covered at graph and printed-condition level")


def replay(ck: Check, rp):
    c = rp.get("case") or {}
    if "spec" in c:
        spec = c["spec"]
        print("spec:", spec_line(spec, []))
        line, trace, g = run_struct(spec)
        print("real short_circuit_struct:", line, "merges:", trace)
        if "env" in c and g is not None:
            env = [tuple(e) for e in c["env"]]
            print("env", env, "original chain reaches", walk(spec, env, spec.get("entry", "c0")),
                  "merged graph reaches", walk_merged(g, env, 50))
        r = run_writer(spec)
        if "text" in r:
            print(r["text"])
        for pr in r.get("prints", []):
            print("printed", pr["rep"], repr(pr["text"]), "true/false =", pr["tf"])
        ck2 = Check(ck.prop, "quick", ck.seed)
        try:
            check_case(ck2, spec)
        except Exception as e:
            print("FAIL: inspecting the merged graph raised", type(e).__name__, str(e)[:200])
            return 1
        for f in ck2.failures[:3]:
            print("FAIL:", f["what"], "expected", f["expected"], "observed", f["observed"])
        return 1 if ck2.failures else 0
    fd = rp.get("first_divergence")
    if fd:
        print("request:", fd["request"]); print("real :", fd["real"]); print("model:", fd["model"])
    else:
        print(json.dumps(rp.get("errors"), indent=1)[:3000])
    return 0
