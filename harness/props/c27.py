"""C27 — resource values are formatted with Android's meaning (DESIGN.md §6 C27).

P: gen/resvalues.py -> Gen/ResValues.lean; Props/C27.lean (+ drv_C27).
T: real format_value (directly and through ARSCResStringPoolRef.format_value read from bytes),
   complexToFloat, ARSCParser.get_resource_dimen / get_resource_color, struct's binary32 decoding and
   CPython's '%f' on exactly representable doubles  vs  the Lean model AgVerif.ResValue.
   Floats are never compared as floats: complexToFloat / get_resource_dimen results are turned into the
   exact fractions.Fraction of the double and compared with the model's exact numerator/denominator.
S: oracle = AOSP TypedValue (complexToFloat with a signed 24-bit mantissa, radix shifts 0/7/15/23, unit
   tables, signed 32-bit decimal, IEEE-754 binary32) computed with fractions.Fraction and decimal
   (round-half-even to 6 places); it shares nothing with the model.
   'Ask again later' streams: format_value is a pure function, so (a) the whole main case list is asked a
   second time in reverse order and (b) fresh distinct complex values are formatted in chunks of varying
   size with the whole recent history re-asked newest-first after every chunk; every later answer must
   equal Android's meaning again (catches memo / cache state of any size; the model is stateless).
The model and theorems describe the code with fixes/C27-signed-mantissa-exact-radix.diff applied."""
import decimal
import io
import json
import math
import os
import re
import struct
import types
from fractions import Fraction

from harness.fw import VERIF, Check, Driver

PINS = [
    ("androguard/core/axml/__init__.py", "format_value"),
    ("androguard/core/axml/__init__.py", "complexToFloat"),
    ("androguard/core/axml/__init__.py", "ARSCParser.get_resource_dimen"),
    ("androguard/core/axml/__init__.py", "ARSCParser.get_resource_color"),
    ("androguard/core/axml/__init__.py", "ARSCResStringPoolRef.__init__"),
    ("androguard/core/axml/__init__.py", "ARSCResStringPoolRef.format_value"),
]

DIM = ["px", "dip", "sp", "pt", "in", "mm"]      # android.util.TypedValue.DIMENSION_UNIT_STRS
FRA = ["%", "%p"]                                # FRACTION_UNIT_STRS
SHIFT = [0, 7, 15, 23]                           # 23p0, 16p7, 8p15, 0p23
T_REF, T_ATTR, T_STR, T_FLOAT, T_DIM, T_FRAC = 1, 2, 3, 4, 5, 6
T_DEC, T_HEX, T_BOOL, T_COLOR0, T_LAST = 0x10, 0x11, 0x12, 0x1C, 0x1F


def _axml():
    from androguard.core import axml
    return axml


def lookup(ix):
    return f"str:{ix}"


# ----------------------------------------------------------------- real side, canonical forms
def frac_of_float(x: float) -> str:
    if math.isnan(x):
        return "nan"
    if math.isinf(x):
        return "inf 1" if x < 0 else "inf 0"
    neg = 1 if math.copysign(1.0, x) < 0 else 0
    fr = Fraction(abs(x))
    return f"fin {neg} {fr.numerator} {fr.denominator}"


def canon_model_f(reply: str) -> str:
    """reduce the model's 'fin s n d' to lowest terms (the model keeps products unreduced)"""
    p = reply.split()
    if p and p[0] == "fin":
        fr = Fraction(int(p[2]), int(p[3]))
        return f"fin {p[1]} {fr.numerator} {fr.denominator}"
    return reply


def canon_model_dimen(reply: str) -> str:
    p = reply.split(" ")
    if p[0] == "value" and p[1] == "fin":
        return "value " + canon_model_f(" ".join(p[1:5])) + " " + " ".join(p[5:])
    return reply


class Real:
    def __init__(self):
        self.axml = _axml()
        self.parent = types.SimpleNamespace(stringpool_main=types.SimpleNamespace(getString=lookup))

    def wrap(self, f):
        try:
            return f()
        except IndexError:
            return "err index"
        except struct.error:
            return "err struct"
        except Exception as e:  # noqa
            return "other:" + type(e).__name__

    def fmt(self, t, d):
        return self.wrap(lambda: "ok " + self.axml.format_value(t, d, lookup))

    def fmt_ref(self, t, d):
        """Res_value as it stands in a resources.arsc: size=8, res0=0, dataType, data"""
        def f():
            r = self.axml.ARSCResStringPoolRef(io.BytesIO(struct.pack("<HBBI", 8, 0, t, d)), self.parent)
            return "ok " + r.format_value()
        return self.wrap(f)

    def c2f(self, d):
        return self.wrap(lambda: frac_of_float(self.axml.complexToFloat(d)))

    def ate(self, d):
        return types.SimpleNamespace(get_value=lambda: "name", key=types.SimpleNamespace(get_data=lambda: d))

    def dimen_raw(self, d):
        return self.axml.ARSCParser.get_resource_dimen(None, self.ate(d))

    def dimen(self, d):
        def f():
            r = self.dimen_raw(d)
            if r[0] != "name" or len(r) != 2:
                return "bad-shape"
            if isinstance(r[1], int):
                return f"fallback {r[1]}"
            m = re.match(r"^(-?[0-9.]+(?:e[-+]?[0-9]+)?|-?inf|nan)(.*)$", r[1], re.S)
            if not m:
                return "unparsed " + r[1]
            return f"value {frac_of_float(float(m.group(1)))} {m.group(2)}"
        return self.wrap(f)

    def color(self, d):
        def f():
            r = self.axml.ARSCParser.get_resource_color(None, self.ate(d))
            return r[1] if r[0] == "name" and len(r) == 2 else "bad-shape"
        return self.wrap(f)


# ----------------------------------------------------------------- independent oracle (AOSP, exact)
CTX = decimal.Context(prec=600, rounding=decimal.ROUND_HALF_EVEN)
SIX = decimal.Decimal("0.000001")


def fmt6(q: Fraction, negzero=False) -> str:
    """q printed with six decimals, nearest, ties to even; the sign of a negative value is kept even
    when it rounds to zero (C printf)"""
    dq = CTX.divide(decimal.Decimal(q.numerator), decimal.Decimal(q.denominator))   # exact: q is dyadic
    s = format(dq.quantize(SIX, context=CTX), "f")
    if (q < 0 or negzero) and not s.startswith("-"):
        s = "-" + s
    return s


def aosp_complex(d: int) -> Fraction:
    m = (d >> 8) & 0xFFFFFF
    if m >= 1 << 23:
        m -= 1 << 24
    return Fraction(m, 1 << SHIFT[(d >> 4) & 3])


def ieee32(d: int):
    s, e, f = d >> 31, (d >> 23) & 0xFF, d & 0x7FFFFF
    if e == 255:
        return None
    q = Fraction(f, 1 << 149) if e == 0 else Fraction((1 << 23) + f) * Fraction(2) ** (e - 150)
    return (-q if s else q), bool(s)


def expect(t: int, d: int):
    """('eq', string) exact demand, ('pred', description, predicate) weaker demand, or None (no demand)"""
    if t == T_DIM:
        u = d & 0xF
        return ("eq", fmt6(aosp_complex(d)) + DIM[u]) if u < len(DIM) else None
    if t == T_FRAC:
        u = d & 0xF
        return ("eq", fmt6(aosp_complex(d) * 100) + FRA[u]) if u < len(FRA) else None
    if t == T_FLOAT:
        v = ieee32(d)
        return ("eq", fmt6(v[0], negzero=v[1])) if v else None
    if t == T_BOOL:
        return ("eq", "true" if d != 0 else "false")
    if t == T_HEX:
        return ("pred", "0x + hexadecimal digits of data",
                lambda s: re.fullmatch(r"0x[0-9A-Fa-f]+", s) is not None and int(s[2:], 16) == d)
    if T_COLOR0 <= t <= T_LAST:
        return ("pred", "# + hexadecimal digits of data",
                lambda s: re.fullmatch(r"#[0-9A-Fa-f]{8}", s) is not None and int(s[1:], 16) == d)
    if T_DEC <= t <= T_LAST:
        return ("eq", str(d - (1 << 32) if d >= 1 << 31 else d))
    if t in (T_REF, T_ATTR):
        sig = "@" if t == T_REF else "?"
        pre = "android:" if (d >> 24) == 1 else ""
        return ("pred", f"{sig}{pre}<8 hex digits of the id>",
                lambda s: re.fullmatch(re.escape(sig + pre) + r"[0-9A-Fa-f]{8}", s) is not None and int(s[-8:], 16) == d)
    if t == T_STR:
        return ("eq", lookup(d))
    return None


def judge(ck: Check, t, d, got: str, via="format_value"):
    ex = expect(t, d)
    if ex is None:
        return True
    case = {"type": t, "data": d, "via": via}
    if not got.startswith("ok "):
        ck.fail(case, "a defined typed value is not formatted", None, ex[1], got)
        return False
    s = got[3:]
    if ex[0] == "eq":
        if s != ex[1]:
            ck.fail(case, "typed value printed with a meaning different from Android's", None, ex[1], s)
            return False
    elif not ex[2](s):
        ck.fail(case, "typed value printed with a meaning different from Android's", None, ex[1], s)
        return False
    return True


def judge_dimen(ck: Check, real: Real, d: int):
    u = d & 0xF
    if u >= len(DIM):
        return True
    q = aosp_complex(d)
    case = {"getter": "dimen", "data": d}
    try:
        r = real.dimen_raw(d)
    except Exception as e:  # noqa
        ck.fail(case, "get_resource_dimen raises", None, f"{float(q)!r}{DIM[u]}", type(e).__name__)
        return False
    ok = isinstance(r, list) and len(r) == 2 and isinstance(r[1], str) and r[1].endswith(DIM[u])
    if ok:
        num = r[1][: len(r[1]) - len(DIM[u])]
        try:
            ok = Fraction(float(num)) == q
        except ValueError:
            ok = False
    if not ok:
        ck.fail(case, "get_resource_dimen reports a different dimension", None, f"{float(q)!r}{DIM[u]}", r[1] if isinstance(r, list) and len(r) == 2 else repr(r))
    return ok


def judge_color(ck: Check, real: Real, d: int):
    got = real.color(d)
    exp = "#" + "".join("%02x" % b for b in d.to_bytes(4, "big"))
    if got != exp:
        ck.fail({"getter": "color", "data": d}, "get_resource_color reports a different colour", None, exp, got)
        return False
    return True


# ----------------------------------------------------------------- generators
MANT = [0, 1, 2, 3, 5, 100, 127, 128, 129, 0x7FFF, 0x8000, 0x123456, 0x400000, 0x7FFFFE, 0x7FFFFF,
        0x800000, 0x800001, 0xC00000, 0xFFFF80, 0xFFFF81, 0xFFFFFB, 0xFFFFFE, 0xFFFFFF, 0x000040, 0x0000C0, 0x000201]


def boundary_data():
    out = []
    for m in MANT:
        for radix in range(4):
            for unit in range(16):
                out.append((m << 8) | (radix << 4) | unit)
    for k in range(33):
        for dlt in (-1, 0, 1):
            v = (1 << k) + dlt
            if 0 <= v < 1 << 32:
                out.append(v)
    # reserved bits 6..7 set, all-ones, IEEE-754 landmarks, package bytes
    out += [0xFFFFFFFF, 0x80000000, 0x7FFFFFFF, 0x000000C0, 0xFFFFFB40, 0xFFFFFBC1, 0x000005F0, 0x0000050F]
    out += [0x00000000, 0x80000000, 0x00000001, 0x80000001, 0x007FFFFF, 0x00800000, 0x3F800000, 0xBF800000,
            0x3F000000, 0x3EAAAAAB, 0x40490FDB, 0x7F7FFFFF, 0xFF7FFFFF, 0x7F800000, 0xFF800000, 0x7FC00000,
            0xFFC00000, 0x7F800001, 0x3C000000, 0x3C000001, 0x35000000, 0x358637BD, 0x358637BE, 0x4B000001,
            0x4B7FFFFF, 0x5F000000, 0x33D6BF95, 0x3727C5AC, 0x49742400, 0x49742408, 0x3A83126F]
    for pkg in (0, 1, 2, 0x7F, 0x80, 0xFF):
        for rest in (0, 1, 0x010000, 0x020002, 0xFFFFFF):
            out.append((pkg << 24) | rest)
    return sorted(set(out))


TYPES_MAIN = [T_REF, T_ATTR, T_STR, T_FLOAT, T_DIM, T_FRAC, T_DEC, T_HEX, T_BOOL, 0x1C, 0x1D, 0x1E, 0x1F]
TYPES_ALL = list(range(0, 0x24)) + [0x7F, 0x80, 0xFE, 0xFF]


def random_data(rng):
    k = rng.random()
    if k < 0.35:
        return rng.getrandbits(32)
    if k < 0.6:      # small magnitudes of either sign
        m = rng.choice((rng.randrange(0, 4096), (1 << 24) - rng.randrange(1, 4096)))
        return (m << 8) | (rng.randrange(4) << 4) | rng.choice((0, 1, 2, 3, 4, 5, 0, 1, rng.randrange(16)))
    if k < 0.8:      # any mantissa, defined units
        return (rng.getrandbits(24) << 8) | (rng.randrange(4) << 4) | rng.randrange(6)
    if k < 0.9:      # floats with moderate exponents
        return (rng.getrandbits(1) << 31) | (rng.randrange(90, 170) << 23) | rng.getrandbits(23)
    return (rng.choice((0, 1, 1, 2, 0x7F)) << 24) | rng.getrandbits(24)


# ----------------------------------------------------------------- ask again later
CHUNKS = (1, 2, 3, 5, 8, 17, 64, 300, 1500, 5000)


def reask_chunked(ck: Check, real: Real, seed, n, depth, report=True):
    """formats n fresh distinct complex values in chunks; after each chunk re-asks the last `depth` values
    newest-first.  Returns (calls, first failure or None)."""
    import random
    rng = random.Random(f"C27-reask/{seed}")
    hist, seen, calls, first = [], set(), 0, None
    while len(hist) < n:
        for _ in range(rng.choice(CHUNKS)):
            t = rng.choice((T_DIM, T_DIM, T_FRAC))
            d = (rng.getrandbits(24) << 8) | (rng.randrange(4) << 4) | rng.randrange(6 if t == T_DIM else 2)
            if (t, d) in seen:
                continue
            seen.add((t, d))
            want = "ok " + expect(t, d)[1]
            got = real.fmt(t, d); calls += 1
            hist.append((t, d, want))
            if got != want and first is None:
                first = (t, d, want, got, "first time", len(hist))
        for back, (t, d, want) in enumerate(reversed(hist[-depth:])):
            got = real.fmt(t, d); calls += 1
            if got != want and first is None:
                first = (t, d, want, got, f"asked again after {back} newer values ({len(hist)} distinct values formatted so far)", len(hist))
        if first is not None:
            break
    if first is not None and report:
        t, d, want, got, when, k = first
        ck.fail({"type": t, "data": d, "via": "re-ask", "reask": {"stream": "chunked", "seed": seed, "n": n, "depth": depth, "when": when}},
                "format_value answers differently when a value is asked again later", None, want[3:], got[3:] if got.startswith("ok ") else got)
    return calls, first


def corpus_cases():
    d = os.path.join(VERIF, "corpus", "C27")
    out = []
    if os.path.isdir(d):
        for n in sorted(os.listdir(d)):
            if n.endswith(".json"):
                out += json.load(open(os.path.join(d, n)))["cases"]
    return out


# ----------------------------------------------------------------- run
def run(ck: Check):
    real = Real()
    ck.pins_changed(PINS)
    deep = (not ck.quick) or getattr(ck, "escalated", False)
    ck.run_gen("resvalues")
    # tie by translation: AgVerif.Gen.PyResValue.complexToFloat is the statement-by-statement translation
    # (gen/py2lean.py) of complexToFloat; Props/C27.lean proves gen_complexToFloat_eq / src_complexToFloat
    ck.run_gen("py2lean_selftest")    # translator self-test: the subset, construct by construct, against CPython
    ck.run_gen("py2lean_c27")
    ck.prove(exes=["drv_C27"])
    drv = Driver("drv_C27")
    rng = ck.rng
    ck.rule = ("(type, data): every type 0..0x23,0x7f,0x80,0xfe,0xff x boundary data (26 mantissas incl. sign bit / "
               "all-ones x 4 radixes x 16 units, 2^k±1, IEEE-754 landmarks, package bytes) + seeded random data per "
               "defined type; distinct = distinct (type, data); non-trivial = the oracle makes a demand (defined type "
               "and unit) and data is not 0")

    # ---- corpus first
    ncorp = 0
    for c in corpus_cases():
        ncorp += 1
        if "getter" in c:
            (judge_dimen if c["getter"] == "dimen" else judge_color)(ck, real, c["data"])
        else:
            judge(ck, c["type"], c["data"], real.fmt(c["type"], c["data"]))

    # ---- cases
    bnd = boundary_data()
    cases = [(t, d) for t in TYPES_ALL for d in bnd]
    nrand = 12000 if ck.quick else 150000
    for t in TYPES_MAIN:
        w = 3 if t in (T_DIM, T_FRAC) else (2 if t == T_FLOAT else 1)
        for _ in range(nrand * w):
            cases.append((t, random_data(rng)))
    for _ in range(nrand):
        cases.append((rng.randrange(256), random_data(rng)))
    reqs = [f"fmt {t} {d}" for t, d in cases]
    rr = [real.fmt(t, d) for t, d in cases]
    model = drv.ask(reqs)
    ck.compare("format_value", reqs, rr, model)
    # ask again later (a): the whole list a second time, newest first; answers must not have changed
    order = list(range(len(cases) - 1, -1, -1))
    rr2 = [real.fmt(*cases[i]) for i in order]
    ck.compare("format_value-asked-again", [reqs[i] for i in order], rr2, [model[i] for i in order])
    nre = 0
    for i, got in zip(order, rr2):
        if got != rr[i] and nre < 5:
            nre += 1
            t, d = cases[i]
            ex = expect(t, d)
            ck.fail({"type": t, "data": d, "via": "re-ask", "reask": {"stream": "reverse-main", "seed": ck.seed, "n": 40000, "depth": 20000,
                                                                     "when": f"first answer {rr[i]!r}, asked again after {len(cases) - 1 - i} later requests"}},
                    "format_value answers differently when a value is asked again later", None, ex[1] if ex else rr[i], got[3:] if got.startswith("ok ") else got)
    # (b) fresh values in chunks, recent history re-asked after every chunk
    ncalls, _ = reask_chunked(ck, real, ck.seed, 40000 if deep else 10000, 20000 if deep else 10000)
    ck.cover(evaluations=len(cases), dist={"asked_again_reverse": len(cases), "asked_again_chunked_calls": ncalls})
    # the same values as Res_value records read from bytes (types are one byte there)
    sub = [i for i, (t, d) in enumerate(cases) if t < 256][:: 3 if ck.quick else 1]
    ck.compare("ARSCResStringPoolRef.format_value", [reqs[i] for i in sub],
               [real.fmt_ref(*cases[i]) for i in sub], [model[i] for i in sub])
    # data beyond 32 bits (not reachable from files; the model is total on naturals)
    big = [(t, d) for t in TYPES_MAIN + [0, 7] for d in (1 << 32, (1 << 32) + 0xFFFFFB00, (1 << 36) - 1, (1 << 40) + 0x01000000)]
    breqs = [f"fmt {t} {d}" for t, d in big]
    ck.compare("format_value", breqs, [real.fmt(t, d) for t, d in big], drv.ask(breqs))

    # S on the same outputs
    nbad, demanded, dist = 0, 0, {}
    for (t, d), got in zip(cases, rr):
        name = {T_REF: "reference", T_ATTR: "attribute", T_STR: "string", T_FLOAT: "float", T_DIM: "dimension",
                T_FRAC: "fraction", T_HEX: "int_hex", T_BOOL: "boolean"}.get(t) or \
               ("color" if T_COLOR0 <= t <= T_LAST else "int_dec" if T_DEC <= t <= T_LAST else "undefined_type")
        dist[name] = dist.get(name, 0) + 1
        if t in (T_DIM, T_FRAC):
            if (d >> 31) & 1:
                dist["complex_negative"] = dist.get("complex_negative", 0) + 1
            if (d & 0xF) >= (6 if t == T_DIM else 2):
                dist["complex_undefined_unit"] = dist.get("complex_undefined_unit", 0) + 1
        if expect(t, d) is not None:
            demanded += 1
            if nbad < 25 and not judge(ck, t, d, got):
                nbad += 1
    ck.cover(evaluations=len(cases) + ncorp,
             distinct=set((t, d) for t, d in cases if d != 0 and expect(t, d) is not None),
             samples=[{"type": t, "data": "0x%08x" % d, "printed": r} for (t, d), r in
                      [(cases[i], rr[i]) for i in (len(bnd) * 5 + 200, len(bnd) * 6 + 333, len(cases) - nrand - 5, len(cases) - 3)]]
                     + [{"type": 5, "data": "0xfffffb00", "printed": real.fmt(5, 0xFFFFFB00)}],
             dist=dict(dist, oracle_demands=demanded, corpus=ncorp))

    # ---- complexToFloat / getters
    datas = sorted(set(bnd + [random_data(rng) for _ in range(20000 if ck.quick else 500000)]))
    reqs = [f"c2f {d}" for d in datas]
    ck.compare("complexToFloat", reqs, [real.c2f(d) for d in datas], [canon_model_f(x) for x in drv.ask(reqs)])
    reqs = [f"dimen {d}" for d in datas]
    ck.compare("get_resource_dimen", reqs, [real.dimen(d) for d in datas], [canon_model_dimen(x) for x in drv.ask(reqs)])
    reqs = [f"color {d}" for d in datas]
    ck.compare("get_resource_color", reqs, [real.color(d) for d in datas], drv.ask(reqs))
    nb = 0
    for d in datas:
        if nb < 10 and not (judge_dimen(ck, real, d) and judge_color(ck, real, d)):
            nb += 1
    ck.cover(evaluations=2 * len(datas), dist={"getter_data": len(datas)})

    # ---- modelled library behaviour: binary32 decoding and '%f'
    fb = sorted(set(bnd + [rng.getrandbits(32) for _ in range(20000 if ck.quick else 300000)]))
    reqs = [f"fbits {d}" for d in fb]
    ck.compare("struct-binary32", reqs, [frac_of_float(struct.unpack("=f", struct.pack("=L", d))[0]) for d in fb],
               [canon_model_f(x) for x in drv.ask(reqs)])
    f6 = []
    for _ in range(30000 if ck.quick else 400000):
        k = rng.choice((0, 1, 6, 7, 7, 8, 15, 20, 23, 31, 40, 60, rng.randrange(0, 80)))
        n = rng.choice((rng.getrandbits(53), rng.getrandbits(24), rng.getrandbits(24) * 100, rng.randrange(1, 1 << 12),
                        rng.getrandbits(30) | 1))
        f6.append((rng.getrandbits(1), n, k))
    f6 += [(s, n, 7) for s in (0, 1) for n in range(0, 600)]          # exact ties at the sixth decimal (odd n / 128)
    f6 += [(s, n, 8) for s in (0, 1) for n in range(0, 600)]
    reqs = [f"f6 {s} {n} {1 << k}" for s, n, k in f6]
    ck.compare("cpython-%f", reqs, ["%f" % math.ldexp(-n if s else n, -k) if n else ("-0.000000" if s else "0.000000")
                                    for s, n, k in f6], drv.ask(reqs))
    ck.assumptions.append("tie by translation (complexToFloat): gen/py2lean.py reads the Python subset it documents correctly "
                          "(int = Int, & >> as in Model/PyInt.lean); float(mantissa) * RADIX_MULTS[i] is kept symbolic "
                          "and interpreted by the generated table")
    ck.partial.append("text shape of '%f' (sign, integer digits, '.', six zero-padded places, '-0.000000'): stated by "
                      "definition (Spec.microText = the model's) and examples, tied to CPython by the stream cpython-%f; "
                      "the rounding itself is proved against an independent formulation")
    ck.partial.append("spelling of non-finite TYPE_FLOAT values: theorem float_nonfinite states what the code prints "
                      "(inf / -inf / nan); Android spells them Infinity / NaN - outside the property, CPython's "
                      "spelling tied by correspondence only")
    ck.assumptions.append("binary64 arithmetic of the fixed code is modelled by exact rationals (sound: float() of a "
                          "32-bit integer, multiplication by a power of two and by 100 are exact; theorems radix_exact, "
                          "complex_binary64); CPython '%f' is round-half-even to six places (checked by the correspondence "
                          "stream cpython-%f on exactly representable doubles); nan/inf spellings by correspondence only")
    ck.notes.append("model and theorems describe the tree with fixes/C27-signed-mantissa-exact-radix.diff applied; "
                    "fractions are compared with the exact value x100 (Android multiplies in binary32); "
                    "unit nibbles Android does not define (dimension >= 6, fraction >= 2) carry no demand")


def replay(ck: Check, rp):
    real = Real()
    c = rp.get("case") or rp.get("first_divergence") or {}
    print("replay", c)
    if "getter" in c:
        d = c["data"]
        if c["getter"] == "dimen":
            print("real :", real.wrap(lambda: repr(real.dimen_raw(d))), " AOSP value:", aosp_complex(d), DIM[d & 0xF] if d & 0xF < 6 else "(undefined unit)")
            ok = judge_dimen(ck, real, d)
        else:
            print("real :", real.color(d))
            ok = judge_color(ck, real, d)
        print("property holds on this case:", ok)
        return 0 if ok else 1
    if c.get("via") == "re-ask":
        ra = c["reask"]
        print("state-dependent failure:", ra.get("when"))
        calls, first = reask_chunked(ck, real, ra.get("seed", 0), max(ra.get("n", 40000), 40000), max(ra.get("depth", 20000), 20000), report=False)
        if first:
            t, d, want, got, when, k = first
            print(f"reproduced ({calls} calls): format_value(0x{t:02x}, 0x{d:08x}) = {got}; Android: {want}; {when}")
            return 1
        print(f"not reproduced by the chunked ask-again stream ({calls} calls); single-shot value follows")
    if "type" in c:
        t, d = c["type"], c["data"]
        got = real.fmt(t, d)
        ex = expect(t, d)
        print(f"format_value(0x{t:02x}, 0x{d:08x}) = {got}")
        print("Android          :", ex[1] if ex else "(no demand)")
        ok = judge(ck, t, d, got)
        print("property holds on this case:", ok)
        return 0 if ok else 1
    if "request" in c:
        print("real :", c.get("real"))
        print("model:", c.get("model"), " now:", Driver("drv_C27").ask([c["request"]])[0])
        rq = c["request"].split()
        if rq[0] == "fmt":
            print("real now:", real.fmt(int(rq[1]), int(rq[2])))
    return 0
