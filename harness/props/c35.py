"""C35 — Parsers terminate on every input (DESIGN.md §6 C35).

P: gen/loops.py -> Gen/Loops.lean (loop inventory, constants); Props/C35.lean: `loops_covered`,
   `count_loops_consume`, a step bound for every modelled loop, the refutation for the unfixed reader.
T: the loop models against the real code (drv_C35): ARSCHeader (result + iterations of the dummy-data
   loop), the sequence of events/positions of repeated `_do_next` calls over random chunk streams,
   DebugInfoItem, HiddenApiClassDataItem.  (Step counts of whole parsers are not compared; the shape of
   every loop is pinned by its AST hash in `loops_covered`.)
S: the property itself.  Valid generated files (harness/dexasm.py, axmlwriter, arscwriter, zipwriter),
   shipped files from tests/data and crafted files (unterminated string, huge declared counts,
   self-referential / zero-size chunks), and byte mutations / truncations of all of them, are parsed in a
   pool of worker processes, each parse under a CPU-time limit proportional to the file size
   (`ITIMER_PROF`, so machine load does not matter).  A parse that exceeds the limit is re-run alone with
   twice the limit; if it exceeds that too it is a failing input (then reduced edit by edit).
"""
import io
import json
import multiprocessing as mp
import os
import random
import resource
import signal
import struct
import sys
import time
import zipfile

from harness.fw import Check, Driver, ToolFailure, REPO, hexs

PROP = "C35"
ROOT = os.path.dirname(os.path.dirname(os.path.dirname(os.path.abspath(__file__))))
CORPUS = os.path.join(ROOT, "corpus", PROP)
AX, DX, AP = "androguard/core/axml/__init__.py", "androguard/core/dex/__init__.py", "androguard/core/apk/__init__.py"
PINS = [
    ("androguard/core/dex/__init__.py", "read_null_terminated_string"),
    ("androguard/core/dex/__init__.py", "HiddenApiClassDataItem.__init__"),
    ("androguard/core/dex/__init__.py", "DebugInfoItem.__init__"),
    ("androguard/core/dex/__init__.py", "MapList.__init__"),
    ("androguard/core/axml/__init__.py", "ARSCHeader.__init__"),
    ("androguard/core/axml/__init__.py", "AXMLParser._do_next"),
    ("androguard/core/axml/__init__.py", "AXMLPrinter.__init__"),
    ("androguard/core/axml/__init__.py", "ARSCParser.__init__"),
    ("androguard/core/axml/__init__.py", "AXMLPrinter._fix_name"),
    ("androguard/core/axml/__init__.py", "AXMLPrinter._fix_value"),
    ("androguard/core/apk/__init__.py", "APK.get_dex_names"),
    ("androguard/core/apk/__init__.py", "APK.is_multidex"),
    ("androguard/core/apk/__init__.py", "APK.x509_ordered_name"),
    ("androguard/core/apk/__init__.py", "APK.get_signature_names"),
    ("androguard/core/apk/__init__.py", "APK.get_signatures"),
]
BASE_LIMIT = 10.0           # seconds of CPU
PER_BYTE = 1.0 / 20000      # + 1 s per 20 kB


def cpu_limit(n):
    return BASE_LIMIT + n * PER_BYTE


class CpuTimeout(BaseException):
    pass


# ------------------------------------------------------------------ the parsers under test
def p_dex(data):
    from androguard.core import dex
    d = dex.DEX(data)
    d.get_strings()


def p_axml(data):
    from androguard.core import axml
    a = axml.AXMLPrinter(data)
    if a.is_valid() and a.root is not None:
        a.get_xml()


def p_arsc(data):
    from androguard.core import axml
    r = axml.ARSCParser(data)
    r.get_packages_names()
    r._analyse()


def p_apk(data):
    from androguard.core import apk
    a = apk.APK(data, raw=True)
    for fn in ("is_signed_v2", "is_signed_v3", "get_certificates_der_v2", "get_certificates_der_v3",
               "get_android_resources", "get_dex_names", "is_multidex", "get_signature_names"):
        try:
            r = getattr(a, fn)()
            if fn == "get_dex_names":
                list(r)
        except CpuTimeout:
            raise
        except Exception:  # noqa
            pass


PARSERS = {"dex": p_dex, "axml": p_axml, "arsc": p_arsc, "apk": p_apk}


def _init_worker():
    try:
        from loguru import logger
        logger.remove()
    except Exception:  # noqa
        pass
    try:
        resource.setrlimit(resource.RLIMIT_AS, (8 << 30, 8 << 30))
    except Exception:  # noqa
        pass
    sys.setrecursionlimit(3000)


def parse_one(task):
    """(index, kind, data, limit) -> (index, outcome, cpu seconds). Runs in a worker process."""
    idx, kind, data, limit = task

    def on_timer(*_a):
        raise CpuTimeout()

    signal.signal(signal.SIGPROF, on_timer)
    t0 = time.process_time()
    signal.setitimer(signal.ITIMER_PROF, limit, 0.5)      # keeps firing in case the exception is swallowed
    try:
        try:
            PARSERS[kind](data)
            out = "ok"
        finally:
            signal.setitimer(signal.ITIMER_PROF, 0)
    except CpuTimeout:
        out = "timeout"
    except MemoryError:
        out = "err:MemoryError"
    except BaseException as e:  # noqa
        out = "err:" + type(e).__name__
    return idx, out, time.process_time() - t0


def run_pool(tasks, nproc, wall_guard):
    """tasks: list of (kind, data, limit). returns list of (outcome, cpu)"""
    res = [None] * len(tasks)
    ctx = mp.get_context("fork")
    with ctx.Pool(nproc, initializer=_init_worker) as pool:
        it = pool.imap_unordered(parse_one, [(i, k, d, l) for i, (k, d, l) in enumerate(tasks)], chunksize=1)
        for _ in range(len(tasks)):
            try:
                i, out, cpu = it.next(timeout=wall_guard)
            except mp.TimeoutError:
                pool.terminate()
                raise ToolFailure("a parser worker did not answer within the wall-clock guard (hang outside Python code?)")
            res[i] = (out, cpu)
    return res


def run_single(kind, data, limit):
    """one parse in a fresh process"""
    ctx = mp.get_context("fork")
    with ctx.Pool(1, initializer=_init_worker) as pool:
        r = pool.apply_async(parse_one, ((0, kind, data, limit),))
        try:
            _, out, cpu = r.get(timeout=limit * 20 + 120)
        except mp.TimeoutError:
            pool.terminate()
            return "timeout", limit * 20
    return out, cpu


# ------------------------------------------------------------------ inputs
def apply_edits(base: bytes, edits):
    b = bytearray(base)
    for e in edits:
        op = e[0]
        if op == "set":
            _, off, hx = e
            v = bytes.fromhex(hx)
            b[off:off + len(v)] = v
        elif op == "trunc":
            del b[e[1]:]
        elif op == "del":
            del b[e[1]:e[1] + e[2]]
        elif op == "ins":
            b[e[1]:e[1]] = bytes.fromhex(e[2])
        elif op == "fixdex":
            from harness import dexasm
            b = bytearray(dexasm.fix_checksum(bytes(b))) if len(b) >= 0x70 else b
    return bytes(b)


INTERESTING = [0, 1, 2, 4, 7, 8, 9, 12, 16, 24, 0x70, 0x7F, 0x80, 0xFF, 0x100, 0xFFFF, 0x10000, 0x7FFFFFFF, 0x80000000,
               0xFFFFFFFF, 0xFFFFFFFE, 0xFFFFFFF8]


def rand_edits(rng, n, kind):
    edits = []
    r = rng.random()
    k = rng.choice((1, 1, 2, 3, 6))
    for _ in range(k):
        c = rng.randrange(10)
        off = rng.randrange(0, max(1, n))
        if c <= 2:
            edits.append(("set", off, bytes([rng.randrange(256)]).hex()))
        elif c <= 5:
            off &= ~3
            v = rng.choice(INTERESTING + [n, n - 1, n + 1, max(0, n - off), off])
            edits.append(("set", off, struct.pack("<I", v & 0xFFFFFFFF).hex()))
        elif c == 6:
            off &= ~1
            edits.append(("set", off, struct.pack("<H", rng.choice((0, 1, 8, 16, 0x10, 0xFFFF, 0x100, 0x180, 0x102)) & 0xFFFF).hex()))
        elif c == 7:
            edits.append(("set", off, bytes(rng.choice((0, 0xFF, 0x80)) for _ in range(rng.choice((4, 16, 64)))).hex()))
        elif c == 8:
            edits.append(("del", off, rng.choice((1, 2, 4, 8, 20))))
        else:
            edits.append(("ins", off, bytes(rng.randrange(256) for _ in range(rng.choice((1, 4, 8)))).hex()))
    if r < 0.25:
        edits.append(("trunc", rng.randrange(0, max(1, n))))
    if kind == "dex" and rng.random() < 0.85:
        edits.append(("fixdex",))
    return edits


def gen_valid(ck):
    """valid generated files: {name: (kind, bytes)}"""
    rng = random.Random(f"C35-valid/{ck.seed}")
    out = {}
    from harness import dexasm as A
    from harness.props import c06
    for i in range(4 if ck.quick else 12):
        ss = [c06.rand_units(rng, rng.choice((4, 12, 150))) for _ in range(rng.choice((4, 8, 16)))]
        ss = c06.dedupe(ss)
        data, b, _ = c06.make_dex(ss, random.Random(i), leb_pad=i % 2)
        out[f"gen-dex-{i}"] = ("dex", data)
    # a DEX with debug info, tries, static values, annotations
    try:
        b = A.DexBuilder()
        dbg = A.debug_info_item(3, ["a", None], bytes([1, 2, 2, 3, 3, 0, 1, 2, 7, 8, 0x20, 0]), resolver=None) \
            if False else None
        b.add_class("LFoo;", static_fields=[A.Field("X", "I", 0x9, init=(A.VALUE_INT, 7)),
                                            A.Field("S", "Ljava/lang/String;", 0x9, init=(A.VALUE_STRING, "hi"))],
                    direct_methods=[A.Method("main", "V", ("[Ljava/lang/String;",), 0x9, A.Code(3, 1, 2, [
                        "start:", ("const-string", 1, A.StringRef("hello")), ("const/4", 0, 1), "end:", ("return-void",),
                        "h:", ("move-exception", 2), ("throw", 2)],
                        tries=[A.Try("start", "end", [("Ljava/lang/Exception;", "h")], catch_all=None)]))],
                    annotations={"class": [A.Annotation(1, "LAnn;", [("v", (A.VALUE_INT, 3))])]})
        out["gen-dex-rich"] = ("dex", b.build())
    except Exception as e:  # noqa
        ck.notes.append("rich DEX not generated: " + type(e).__name__)
    try:
        from harness import axmlwriter as W, axmlgen
        for i in range(4 if ck.quick else 12):
            tree = axmlgen.gen_tree(rng)
            out[f"gen-axml-{i}"] = ("axml", W.encode_axml(tree, utf8=bool(i % 2)))
    except Exception as e:  # noqa
        ck.notes.append("axmlwriter not usable: " + type(e).__name__ + " " + str(e)[:80])
    try:
        from harness import arscwriter as R
        for i in range(3 if ck.quick else 8):
            types = []
            for t in range(rng.choice((1, 2, 3))):
                ec = rng.choice((1, 3, 6))
                chunks = [R.TypeChunk(R.Config(language=rng.choice(("", "en", "fr"))),
                                      {e: R.Entry(f"k{t}_{e}", "simple", R.Str(f"v{e}")) for e in range(ec) if rng.random() < 0.8},
                                      rng.choice(("plain", "plain", "sparse", "offset16")))
                          for _ in range(rng.choice((1, 2)))]
                types.append(R.ResType(rng.choice(("string", "id", "bool", "integer", "color", "dimen")) if t else "string", ec, chunks))
            out[f"gen-arsc-{i}"] = ("arsc", R.encode_arsc(R.ResTable([R.Package(0x7F, "com.x", types)])))
    except Exception as e:  # noqa
        ck.notes.append("arscwriter not usable: " + type(e).__name__ + " " + str(e)[:80])
    try:
        from harness import zipwriter as Z, sigblock as SB
        ax = next((d for k, (kd, d) in out.items() if kd == "axml"), b"")
        dx = next((d for k, (kd, d) in out.items() if kd == "dex"), b"")
        ar = next((d for k, (kd, d) in out.items() if kd == "arsc"), b"")
        entries = [("AndroidManifest.xml", ax, True), ("classes.dex", dx, False), ("resources.arsc", ar, False)]
        out["gen-apk-plain"] = ("apk", Z.write_zip(entries))
        blk = SB.encode_block([(0x7109871A, SB.encode_value([], False)), (0x42726577, b"\x00" * 16)])
        out["gen-apk-sigblock"] = ("apk", Z.write_zip(entries, signing_block=blk))
    except Exception as e:  # noqa
        ck.notes.append("zipwriter/sigblock not usable: " + type(e).__name__ + " " + str(e)[:80])
    return out


def shipped(ck):
    """shipped files (tests/data), by magic; only files small enough to mutate many times"""
    out = {}
    root = os.path.join(REPO, "tests", "data")
    lim = 40000 if ck.quick else 150000
    for r, _d, fs in sorted(os.walk(root)):
        for f in sorted(fs):
            p = os.path.join(r, f)
            try:
                sz = os.path.getsize(p)
                if sz == 0 or sz > lim:
                    continue
                with open(p, "rb") as fh:
                    data = fh.read()
            except OSError:
                continue
            rel = os.path.relpath(p, root)
            if data[:4] == b"\x03\x00\x08\x00":
                out["file:" + rel] = ("axml", data)
            elif data[:4] == b"dex\n":
                out["file:" + rel] = ("dex", data)
            elif data[:4] == b"PK\x03\x04" and (f.endswith(".apk") or f.endswith(".jar")):
                out["file:" + rel] = ("apk", data)
                try:
                    z = zipfile.ZipFile(io.BytesIO(data))
                    for n in z.namelist():
                        if n == "resources.arsc" and z.getinfo(n).file_size <= lim:
                            out["file:" + rel + "!resources.arsc"] = ("arsc", z.read(n))
                        if n == "AndroidManifest.xml" and z.getinfo(n).file_size <= lim:
                            out["file:" + rel + "!AndroidManifest.xml"] = ("axml", z.read(n))
                except Exception:  # noqa
                    pass
    if ck.quick:      # keep the quick tier small: at most 12 APKs (smallest), all the rest
        apks = sorted((k for k, v in out.items() if v[0] == "apk"), key=lambda k: len(out[k][1]))
        for k in apks[12:]:
            del out[k]
    return out


# ------------------------------------------------------------------ pathological names (regex engines)
PATHO_UNITS = list(".-_:/$ ") + list("0123456789") + [".-", "-.", "._", "a.", "a-", "1.", "/.", "$_", " -"]
PATHO_SUFFIX = [" ", ":", "!", "\u00e9", "\n", "/", "\u20ac"]


def patho_names(ck, big):
    """(spec, string): a run of k repeated separator / class-boundary characters followed, somewhere later, by a
    character outside the usual name classes — the shape on which an ambiguous regex backtracks 2^k times"""
    rng = random.Random(f"C35-patho/{ck.seed}")
    out = []
    for unit in PATHO_UNITS:
        for k in (20, 28, 40, 64):
            for prefix in ("", "x"):
                sufs = PATHO_SUFFIX if big else rng.sample(PATHO_SUFFIX, 3)
                for suf in sufs:
                    tail = rng.choice(("", "y"))
                    reps = (k + len(unit) - 1) // len(unit)
                    out.append(({"prefix": prefix, "unit": unit, "k": k, "suffix": suf + tail},
                                prefix + (unit * reps)[:k] + suf + tail))
    rng.shuffle(out)
    return out


def patho_doc(kind, name):
    """a generated input of the given kind in which `name` is placed wherever a parser applies a regex (and more)"""
    if kind == "axml":
        from harness import axmlwriter as W
        root = W.Element("manifest", children=[
            W.Element(name, attrs=[W.Attr(None, name, W.S(name)), W.Attr("http://schemas.android.com/apk/res/android", "name", W.S(name))],
                      children=[W.Text(name)])])
        return W.encode_axml(root)
    if kind == "apk":
        from harness import zipwriter as Z
        entries = [("AndroidManifest.xml", patho_doc("axml", name), False), (name, b"x", False),
                   ("classes" + name + ".dex", b"", False), ("META-INF/" + name + ".RSA", b"", False),
                   ("META-INF/" + name, b"", False)]
        return Z.write_zip(entries)
    if kind == "arsc":
        from harness import arscwriter as R
        t = R.ResType("string", 1, [R.TypeChunk(R.Config(), {0: R.Entry(name, "simple", R.Str(name))}, "plain")])
        return R.encode_arsc(R.ResTable([R.Package(0x7F, name[:100], [t])]))
    if kind == "dex":
        from harness import dexasm as A
        b = A.DexBuilder()
        b.extra_strings.append(name)
        b.add_class("L" + name + ";", instance_fields=[A.Field(name, "I", 1)], virtual_methods=[A.Method(name, "V", (), 1, None)])
        return b.build()
    raise ValueError(kind)


def patho_tasks(ck, big):
    tasks, meta, skipped = [], [], 0
    for i, (spec, name) in enumerate(patho_names(ck, big)):
        kinds = ["axml"] + (["apk"] if i % 6 == 0 or big else []) + (["arsc", "dex"] if i % 25 == 0 else [])
        for kind in kinds:
            try:
                data = patho_doc(kind, name)
            except Exception:  # noqa  (a writer that refuses the name)
                skipped += 1
                continue
            tasks.append((kind, data, cpu_limit(len(data))))
            meta.append({"kind": kind, "base": "patho", "patho": spec, "name": "patho:" + repr(name)[:60]})
    return tasks, meta, skipped


def chunk(t, hs, size, body=b""):
    return struct.pack("<HHI", t, hs, size) + body


def axml_prefix():
    """minimal valid document start: ResXMLTree_header + string pool with one UTF-16 string "a" """
    s = struct.pack("<H", 1) + "a".encode("utf-16-le") + b"\x00\x00"
    s += b"\x00" * (-len(s) % 4)
    pool = struct.pack("<HHIIIIII", 1, 28, 28 + 4 + len(s), 1, 0, 0, 28 + 4, 0) + struct.pack("<I", 0) + s
    return pool


def axml_doc(body: bytes, filesize=None):
    pool = axml_prefix()
    total = 8 + len(pool) + len(body)
    return struct.pack("<HHI", 3, 8, total if filesize is None else filesize) + pool + body


def crafted(ck):
    from harness import dexasm as A
    out = {}
    # ---- D18: the last string of the string_data section has no terminator before the end of the file
    b = A.DexBuilder()
    b.extra_strings.extend(["a", "b"])
    b.add_class("LX;")
    data = bytearray(b.build())
    ml = b.layout["map_list"]
    n = struct.unpack_from("<I", data, ml)[0]
    for i in range(n):
        t, _u, sz, off = struct.unpack_from("<HHII", data, ml + 4 + 12 * i)
        if t == 0x2002:
            struct.pack_into("<II", data, ml + 4 + 12 * i + 4, 1, len(data))
    data += b"\x03abc"                                  # utf16_size=3, "abc", no NUL, end of file
    out["crafted-dex-unterminated-string"] = ("dex", A.fix_checksum(bytes(data)))
    # ---- huge declared counts
    base = b.build()
    hdr = A.parse_header(base)
    for name, field_off in (("string_ids_size", 0x38), ("type_ids_size", 0x40), ("proto_ids_size", 0x48),
                            ("field_ids_size", 0x50), ("method_ids_size", 0x58), ("class_defs_size", 0x60)):
        d = bytearray(base)
        struct.pack_into("<I", d, field_off, 0xFFFFFFF0)
        out[f"crafted-dex-huge-{name}"] = ("dex", A.fix_checksum(bytes(d)))
    d = bytearray(base)
    struct.pack_into("<I", d, ml, 0xFFFFFFFF)           # map list size
    out["crafted-dex-huge-map-size"] = ("dex", A.fix_checksum(bytes(d)))
    for i in range(n):
        d = bytearray(base)
        struct.pack_into("<I", d, ml + 4 + 12 * i + 4, 0x7FFFFFFF)   # item count of each map entry
        out[f"crafted-dex-huge-map-item-{i}"] = ("dex", A.fix_checksum(bytes(d)))
        d = bytearray(base)
        struct.pack_into("<I", d, ml + 4 + 12 * i + 8, ml)            # every section points at the map list itself
        out[f"crafted-dex-selfref-map-item-{i}"] = ("dex", A.fix_checksum(bytes(d)))
    # ---- AXML: zero-size, self-referential, undersized, oversized chunks; dummy data between elements
    tag = lambda size=36: chunk(0x0102, 0x10, size, struct.pack("<IIIIHHII", 1, 0xFFFFFFFF, 0xFFFFFFFF, 0, 0x14, 0x14, 0, 0))
    end = lambda size=24: chunk(0x0103, 0x10, size, struct.pack("<IIII", 1, 0xFFFFFFFF, 0xFFFFFFFF, 0))
    out["crafted-axml-zero-size-chunk"] = ("axml", axml_doc(chunk(0x0102, 0x10, 0) + b"\x00" * 64))
    out["crafted-axml-size8-chunks"] = ("axml", axml_doc(chunk(0x0105, 8, 8) * 2000))
    out["crafted-axml-unknown-chunks"] = ("axml", axml_doc(chunk(0x0200, 8, 8) * 2000 + tag() + end()))
    out["crafted-axml-hsize-gt-size"] = ("axml", axml_doc(chunk(0x0102, 0x40, 0x10) + b"\x00" * 64))
    out["crafted-axml-oversized-chunk"] = ("axml", axml_doc(chunk(0x0102, 0x10, 0xFFFFFFFF) + b"\x00" * 64))
    out["crafted-axml-resmap-huge"] = ("axml", axml_doc(chunk(0x0180, 8, 0xFFFFFFFC) + b"\x00" * 64))
    out["crafted-axml-tags-declared-short"] = ("axml", axml_doc((tag(16) + end(16)) * 300))
    out["crafted-axml-attr-count-huge"] = ("axml", axml_doc(
        chunk(0x0102, 0x10, 36, struct.pack("<IIIIHHII", 1, 0xFFFFFFFF, 0xFFFFFFFF, 0, 0x14, 0x14, 0xFFFF, 0)) + b"\x00" * 200))
    out["crafted-axml-stringcount-huge"] = ("axml", struct.pack("<HHI", 3, 8, 100) + struct.pack("<HHIIIIII", 1, 28, 92, 0xFFFFFFFF, 0, 0, 32, 0) + b"\x00" * 64)
    # dummy data: garbage (no acceptable header) of length g, then one acceptable small chunk; the scan restarts 16
    # bytes later each time — quadratic in g (kept small here; measured, see notes)
    for g in (256, 2048):
        out[f"crafted-axml-dummy-data-{g}"] = ("axml", axml_doc(b"\x00" * g + chunk(0x0200, 16, 16, b"\x00" * 8) + tag() + end()))
    # ---- ARSC: chunk sizes 0 / 8 / beyond the file, entry counts
    pool = axml_prefix()
    def arsc(body, count=1):
        total = 12 + len(body)
        return struct.pack("<HHII", 2, 12, total, count) + body
    out["crafted-arsc-zero-size-chunk"] = ("arsc", arsc(pool + chunk(0x0200, 0x120, 0) + b"\x00" * 300))
    out["crafted-arsc-size8-chunks"] = ("arsc", arsc(pool + chunk(0x0205, 8, 8) * 3000))
    out["crafted-arsc-oversized-chunk"] = ("arsc", arsc(pool + chunk(0x0200, 0x120, 0xFFFFFFF0) + b"\x00" * 300))
    pkg_hdr = struct.pack("<I", 0x7F) + "x".encode("utf-16-le").ljust(256, b"\x00") + struct.pack("<IIIII", 0x120, 0, 0x120 + len(pool), 0, 0)
    inner = pool + pool + chunk(0x0202, 16, 16, struct.pack("<BBHI", 1, 0, 0, 0xFFFFFFFF)) + chunk(0x0203, 8, 8) * 500
    out["crafted-arsc-package-inner-chunks"] = ("arsc", arsc(pool + chunk(0x0200, 0x120, 0x120 + len(inner), pkg_hdr[: 0x120 - 8] + inner)))
    inner2 = pool + pool + chunk(0x0201, 0x54, 0x54 + 8, struct.pack("<BBHII", 1, 0, 0, 0xFFFFFFFF, 0x54) + struct.pack("<I", 64) + b"\x00" * 60 + b"\x00" * 8)
    out["crafted-arsc-entrycount-huge"] = ("arsc", arsc(pool + chunk(0x0200, 0x120, 0x120 + len(inner2), pkg_hdr[: 0x120 - 8] + inner2)))
    # ---- APK: EOCD / signing block fields
    try:
        from harness import zipwriter as Z, sigblock as SB
        ent = [("AndroidManifest.xml", axml_doc(tag() + end()), False)]
        lay = Z.layout(ent, signing_block=SB.encode_block([(0x7109871A, b"\x00" * 8)]))
        z = lay["bytes"]
        for name, off, val in (("central-offset-0", lay["eocd_offset"] + 16, 0), ("central-offset-huge", lay["eocd_offset"] + 16, 0xFFFFFFF0),
                               ("block-size-huge", lay["central_offset"] - 24, 0xFFFFFFFF), ("block-size-0", lay["central_offset"] - 24, 0),
                               ("pair-size-0", lay["block_offset"] + 8, 0), ("pair-size-huge", lay["block_offset"] + 8, 0xFFFFFFFF)):
            d = bytearray(z)
            struct.pack_into("<I", d, off, val)
            out[f"crafted-apk-{name}"] = ("apk", bytes(d))
        out["crafted-apk-many-eocd-lookalikes"] = ("apk", z[:-22] + b"PK\x05" * 4000 + z[-22:])
    except Exception as e:  # noqa
        ck.notes.append("crafted APKs not generated: " + type(e).__name__ + " " + str(e)[:80])
    return out


# ------------------------------------------------------------------ correspondence (loop models)
class Reader:
    """BufferedReader-like with .raw and a count of 8-byte reads"""

    def __init__(self, data, pos):
        self.f = io.BufferedReader(io.BytesIO(data))
        self.raw = self.f.raw
        self.f.seek(pos)
        self.reads8 = 0

    def read(self, n=-1):
        if n == 8:
            self.reads8 += 1
        return self.f.read(n)

    def tell(self):
        return self.f.tell()

    def seek(self, *a):
        return self.f.seek(*a)


def real_hdr(axml, data, start):
    b = Reader(data, start)
    try:
        h = axml.ARSCHeader(b)
    except axml.ResParserError:
        return "err parser"
    except struct.error:
        return "err struct"
    except Exception as e:  # noqa
        return "other:" + type(e).__name__
    return f"ok {h.type} {h.header_size} {h.size} {b.tell()} {b.reads8}"


EVN = {1: "end", 2: "start", 3: "endtag", 4: "text"}


class Guard:
    """in-process time limit for the correspondence calls (pure-Python loops): a call that does not return
    within 3 s is reported as `hang`; after three hangs the stream stops calling the real code"""

    def __init__(self, ck, what):
        self.ck, self.what, self.hangs = ck, what, 0

    def __call__(self, fn, case):
        from harness.props.c06 import time_limit, Hang
        if self.hangs >= 3:
            return None
        try:
            with time_limit(3.0):
                return fn()
        except Hang:
            self.hangs += 1
            self.ck.fail(case, f"{self.what} does not return (3 s, {case.get('size', '?')} bytes)", None,
                         "a result or an error", "no return")
            return "hang"


def real_axml_walk(axml, data):
    try:
        ap = axml.AXMLParser(data)
    except Exception as e:  # noqa
        return None, "init:" + type(e).__name__
    if not ap.is_valid():
        return None, "init-invalid"
    pos0 = ap.buff.tell()
    out = []
    for _ in range(len(data) + 2):
        try:
            ev = next(ap)
        except Exception:  # noqa
            out.append("raised")
            break
        if not ap.is_valid():
            out.append("invalid")
            break
        if ev == 1:
            out.append("end")
            break
        out.append(f"{EVN.get(ev, ev)}@{ap.buff.tell()}")
    return (pos0, ap.filesize), " ".join(out)


def canon_model_walk(line):
    out = []
    for it in line.split():
        it = it.split("#")[0]
        if it.split("@")[0] in ("end", "invalid", "raised"):
            it = it.split("@")[0]
        out.append(it)
    return " ".join(out)


def gen_chunk_stream(rng):
    parts = []
    tagc = lambda t, size, n: chunk(t, 0x10, size, struct.pack("<II", 1, 0xFFFFFFFF) + bytes(n))
    for _ in range(rng.choice((1, 2, 3, 5, 8))):
        k = rng.randrange(12)
        if k == 0:
            parts.append(tagc(0x0102, rng.choice((36, 36, 40, 16, 8, 64)), 28))
        elif k == 1:
            parts.append(tagc(0x0103, rng.choice((24, 24, 8, 32)), 16))
        elif k == 2:
            parts.append(chunk(0x0104, 0x10, rng.choice((28, 28, 8, 40)), struct.pack("<IIIHBBI", 1, 0xFFFFFFFF, 0, 8, 0, 3, 0)))
        elif k == 3:
            parts.append(tagc(rng.choice((0x0100, 0x0101)), rng.choice((24, 24, 8)), 16)[: rng.choice((24, 24, 24, 16, 20))])
        elif k == 4:
            n = rng.choice((0, 1, 3))
            parts.append(chunk(0x0180, 8, rng.choice((8 + 4 * n, 8 + 4 * n, 6, 10, 4 * n + 12)), struct.pack("<%dI" % n, *([0x01010000] * n))))
        elif k == 5:
            sz = rng.choice((8, 12, 16, 24, 0, 4, 7, 1000, 0xFFFFFFFF))
            parts.append(chunk(rng.choice((0x0001, 0x0200, 0x017f, 0x0105, 0x0181, 0xFFFF, 0)), rng.choice((8, 8, 16, 4, 0, 32)), sz, bytes(rng.choice((0, 4, 8, 16)))))
        elif k == 6:
            parts.append(bytes(rng.choice((0, 0, 0xFF, rng.randrange(256))) for _ in range(rng.choice((1, 2, 3, 5, 9, 17)))))   # dummy data
        elif k == 7:
            parts.append(tagc(rng.choice((0x0106, 0x0110, 0x017f)), rng.choice((16, 24, 8)), 8))
        elif k == 8:
            parts.append(chunk(0x0102, rng.choice((0x10, 0x10, 8, 0x20, 0)), rng.choice((36, 16, 8)), bytes(28)))
        else:
            parts.append(bytes(rng.randrange(256) for _ in range(rng.choice((8, 8, 16)))))
    body = b"".join(parts) + bytes(rng.choice((0, 0, 8, 64)))
    fs = None if rng.random() < 0.7 else rng.choice((8 + len(axml_prefix()) + len(body) - 8, 8 + len(axml_prefix()) + 8, 0))
    return axml_doc(body, fs)


def tie(ck, drv):
    from androguard.core import axml, dex
    rng = ck.rng
    # ARSCHeader
    g_hdr, g_walk, g_dbg, g_hid = (Guard(ck, w) for w in ("ARSCHeader", "AXMLParser next()", "DebugInfoItem", "HiddenApiClassDataItem"))
    reqs, real = [], []
    for _ in range(6000 if ck.quick else 24000):
        n = rng.choice((0, 3, 7, 8, 9, 12, 16, 24, 40))
        k = rng.randrange(5)
        if k == 0:
            data = bytes(rng.randrange(256) for _ in range(n))
        elif k == 1:
            data = bytes(rng.choice((0, 0, 0, 8, 16, 1, 0xFF)) for _ in range(n))
        else:
            pre = bytes(rng.choice((0, 0, 1, 0xFF)) for _ in range(rng.choice((0, 0, 1, 2, 5, 9))))
            hs = rng.choice((8, 8, 16, 28, 0, 4, 7, 0xFFFF))
            sz = rng.choice((8, 16, 24, 0, 4, hs, hs + 4, max(0, hs - 1), 0xFFFFFFFF, 100))
            data = pre + chunk(rng.choice((0x0001, 0x0003, 0x0100, 0x0101, 0x0102, 0x017f, 0x0180, 0x0200, 0)), hs, sz) + \
                bytes(rng.choice((0, 4, 8, 16)))
        start = rng.choice((0, 0, 1, 2, len(data) // 2, max(0, len(data) - 8), len(data), len(data) + 3))
        r = g_hdr(lambda: real_hdr(axml, data, start), {"op": "hdr", "start": start, "hex": data.hex(), "size": len(data)})
        if r is None:
            break
        reqs.append(f"hdr {start} {hexs(data)}")
        real.append(r)
    ck.compare("arsc-header", reqs, real, drv.ask(reqs))
    kinds = {}
    for r in real:
        kinds[r.split()[0] + (" " + r.split()[1] if r.startswith("err") else "")] = kinds.get(r.split()[0] + (" " + r.split()[1] if r.startswith("err") else ""), 0) + 1
    # _do_next event walks
    reqs, real = [], []
    nskip = 0
    for _ in range(3000 if ck.quick else 12000):
        data = gen_chunk_stream(rng)
        r = g_walk(lambda: real_axml_walk(axml, data), {"op": "axml-walk", "hex": data.hex(), "size": len(data)})
        if r is None:
            break
        if r == "hang":
            continue
        st, line = r
        if st is None:
            nskip += 1
            continue
        reqs.append(f"axml {st[1]} {st[0]} {hexs(data)}")
        real.append(line)
    raw = drv.ask(reqs)
    model = []
    for l in raw:
        # last item: total iterations of the composed model `axmlDoc` (theorem axml_parse_steps_linear); it must be
        # the sum of the per-call iteration counts of the walk that is compared with the real parser
        *items, tot = l.split()
        per_call = sum(int(it.split("#")[1]) for it in items if "#" in it)
        ok = tot == f"T{per_call}"
        model.append(canon_model_walk(" ".join(items)) + ("" if ok else f" composed-total-differs:{tot}/{per_call}"))
    ck.compare("axml-do-next-walk", reqs, real, model)
    evs = {}
    for l in real:
        for it in l.split():
            evs[it.split("@")[0]] = evs.get(it.split("@")[0], 0) + 1
    # DebugInfoItem / HiddenApiClassDataItem
    cm = type("CM", (), {})()
    cm.packer = dex.DalvikPacker(0x12345678)
    reqs, real = [], []
    for _ in range(4000 if ck.quick else 16000):
        n = rng.choice((0, 1, 3, 6, 12, 30))
        k = rng.randrange(3)
        if k == 0:
            data = bytes(rng.randrange(256) for _ in range(n))
        elif k == 1:
            data = bytes(rng.choice((0, 1, 2, 3, 4, 5, 6, 7, 8, 9, 10, 0x20, 0x80, 0xFF)) for _ in range(n))
        else:
            data = bytes([rng.randrange(8), rng.choice((0, 1, 2))]) + bytes(rng.choice((1, 2, 3, 4, 5, 6, 7, 8, 9, 0x0a, 0x81, 0x7f, 1)) for _ in range(n)) + b"\x00"
        pos = rng.choice((0, 0, 0, 1, 2))
        b = io.BufferedReader(io.BytesIO(data))
        b.seek(pos)
        def call_dbg():
            try:
                it = dex.DebugInfoItem(b, cm)
                return f"ok {len(it.get_bytecodes())}"
            except struct.error:
                return "err"
            except MemoryError:
                return "hang"
            except Exception as e:  # noqa
                return "other:" + type(e).__name__
        r = g_dbg(call_dbg, {"op": "dbg", "pos": pos, "hex": data.hex(), "size": len(data)})
        if r is None:
            break
        reqs.append(f"dbg {pos} {hexs(data)}")
        real.append(r)
    ck.compare("debug-info-item", reqs, real, drv.ask(reqs))
    ndbg_ok = sum(1 for r in real if r.startswith("ok"))
    reqs, real = [], []
    for _ in range(4000 if ck.quick else 16000):
        k = rng.randrange(3)
        nw = rng.choice((0, 1, 2, 4, 8))
        if k == 0:
            data = bytes(rng.randrange(256) for _ in range(rng.choice((0, 3, 4, 8, 20, 40))))
        else:
            first = rng.choice((0, 1, 2, 3))
            words = [0] * first + [4 + 4 * rng.choice((nw, nw, 1, 2, 0, 100))] + [rng.choice((0, 20, 24)) for _ in range(nw)]
            sec = rng.choice((4 + 4 * len(words), 4, 0, 8, 12, 1000, 0xFFFFFFFF))
            data = struct.pack("<I", sec) + struct.pack("<%dI" % len(words), *words) + bytes(rng.choice((0, 1, 2, 8, 9, 16, 0x0f, 0x80, 7)) for _ in range(rng.choice((0, 2, 8, 16))))
        off = rng.choice((0, 0, 0, 1, 4))
        b = io.BufferedReader(io.BytesIO(data))
        b.seek(off)
        def call_hid():
            try:
                it = dex.HiddenApiClassDataItem(b, cm)
                return f"ok {len(it.flags)} {b.tell()}"
            except (struct.error, ValueError):
                return "err"
            except Exception as e:  # noqa
                return "other:" + type(e).__name__
        r = g_hid(call_hid, {"op": "hidden", "pos": off, "hex": data.hex(), "size": len(data)})
        if r is None:
            break
        reqs.append(f"hidden {off} {hexs(data)}")
        real.append(r)
    model = [" ".join(l.split()[:3]) if l.startswith("ok") else l for l in drv.ask(reqs)]
    ck.compare("hidden-api-item", reqs, real, model)
    ck.cover(dist={"tie_header_" + k.replace(" ", "_"): v for k, v in kinds.items()})
    ck.cover(dist=dict({"tie_walk_" + k: v for k, v in evs.items()}, tie_walk_skipped_invalid_prefix=nskip,
                       tie_dbg_ok=ndbg_ok, tie_hidden_ok=sum(1 for r in real if r.startswith("ok"))))


# ------------------------------------------------------------------ run
def run(ck: Check):
    ck.pins_changed(PINS)                  # sets ck.escalated (not a verdict): larger streams below
    big = (not ck.quick) or getattr(ck, "escalated", False)
    ck.run_gen("strconsts")
    ck.run_gen("loops")
    ck.prove(exes=["drv_C35"])
    drv = Driver("drv_C35")
    ck.rule = ("inputs: valid generated DEX/AXML/ARSC/APK files, shipped files of tests/data (by magic), crafted files "
               "(unterminated string, huge counts, zero-size/self-referential/oversized chunks, dummy data, EOCD and signing-block "
               "fields), pathological names for the regex engines (runs of 20-64 separator / class-boundary characters followed by an "
               "invalid character, as element / attribute names and values, zip entry names, resource and class names), "
               "and seeded byte mutations/truncations of all of them (DEX mutants mostly with repaired checksum); each "
               "parsed under a CPU-time limit of 10 s + 1 s per 20 kB. distinct = distinct (parser, bytes); non-trivial = "
               "the parse got past the magic/checksum test or is a crafted file")
    tie(ck, drv)
    bases = {}
    bases.update(gen_valid(ck))
    bases.update(shipped(ck))
    cr = crafted(ck)
    bases.update(cr)
    # ---- corpus first
    tasks, meta = [], []
    if os.path.isdir(CORPUS):
        for fn in sorted(os.listdir(CORPUS)):
            if fn.endswith(".json"):
                c = json.load(open(os.path.join(CORPUS, fn)))
                data = bytes.fromhex(c["hex"])
                tasks.append((c["kind"], data, cpu_limit(len(data))))
                meta.append({"kind": c["kind"], "hex": c["hex"], "name": "corpus:" + fn})
    ncorpus = len(tasks)
    pt, pm, pskip = patho_tasks(ck, big)
    tasks += pt
    meta += pm
    npatho = len(pt)
    for name, (kind, data) in sorted(bases.items()):
        tasks.append((kind, data, cpu_limit(len(data))))
        meta.append({"kind": kind, "base": name, "edits": []})
    rng = random.Random(f"C35-mut/{ck.seed}")
    # sizes per tier (see manifest/C35.json): quick 5 000 + pathological; thorough 150 000 + pathological.
    # Measured: thorough with 40 000 mutants = 2 min 47 s wall at load 14.6 (16 workers); 150 000 scales to about 8-10 min.
    # (the earlier 300 000 run was slow because every mutant was held in memory at once)
    total = (5000 if ck.quick else 150000) + npatho
    if ck.quick and big:
        total += 15000                        # escalated: a pinned function changed
    names = sorted(bases)
    weights = [3 if n.startswith("crafted") or n.startswith("gen") else (1 if bases[n][0] != "apk" else 0.3) for n in names]
    nfixed, fixed_tasks = len(tasks), tasks
    while len(meta) < total:                  # mutants are materialised batch by batch (memory)
        name = rng.choices(names, weights)[0]
        kind, data = bases[name]
        edits = rand_edits(rng, len(data), kind)
        meta.append({"kind": kind, "base": name, "edits": edits})

    def data_of(i):
        if i < nfixed:
            return fixed_tasks[i][1]
        return apply_edits(bases[meta[i]["base"]][1], meta[i]["edits"])

    nproc = min(16, os.cpu_count() or 4)
    t0 = time.time()
    # batches: once three timeouts were seen the search has its failing inputs; the rest is skipped
    res, BATCH = [], (200 if ck.quick else 2000)
    kinds_l, limits, hashes = [], [], []
    for lo in range(0, len(meta), BATCH):
        batch = []
        for i in range(lo, min(lo + BATCH, len(meta))):
            d = data_of(i)
            batch.append((meta[i]["kind"], d, cpu_limit(len(d))))
            kinds_l.append(meta[i]["kind"]); limits.append(cpu_limit(len(d))); hashes.append(hash(d))
        res += run_pool(batch, nproc, wall_guard=3600)
        if sum(1 for o, _c in res if o == "timeout") >= 3:
            ck.notes.append(f"search stopped after {len(res)} of {len(meta)} inputs: three parses exceeded the limit")
            break
    meta = meta[:len(res)]
    tasks = [(kinds_l[i], None, limits[i]) for i in range(len(res))]
    wall = time.time() - t0
    outcomes, slow = {}, []
    for i, (out, cpu) in enumerate(res):
        kind = tasks[i][0]
        key = kind + ":" + (out if not out.startswith("err:") else out)
        outcomes[key] = outcomes.get(key, 0) + 1
        if cpu > 0.25 * tasks[i][2]:
            slow.append((cpu, i))
    nfail = 0
    for i, (out, cpu) in enumerate(res):
        if out != "timeout" or nfail >= 3:
            continue
        kind, _none, limit = tasks[i]
        data = data_of(i)
        out2, cpu2 = run_single(kind, data, 2 * limit)     # confirm alone, twice the limit
        if out2 != "timeout":
            ck.notes.append(f"slow but finished when re-run alone: {meta[i].get('base', meta[i].get('name'))} {cpu2:.1f}s cpu")
            continue
        nfail += 1
        case = dict(meta[i])
        if "patho" in case:                                 # shorten the run while the parse still exceeds the limit
            spec = dict(case["patho"])
            for _ in range(3):
                k2 = spec["k"] // 2
                unit = spec["unit"]
                name = spec["prefix"] + (unit * ((k2 + len(unit) - 1) // len(unit)))[:k2] + spec["suffix"]
                d2 = patho_doc(kind, name)
                o, _c = run_single(kind, d2, cpu_limit(len(d2)))
                if o != "timeout":
                    break
                spec["k"], data = k2, d2
            case["patho"] = spec
            if kind == "apk":                               # the manifest alone?
                unit = spec["unit"]
                name = spec["prefix"] + (unit * ((spec["k"] + len(unit) - 1) // len(unit)))[:spec["k"]] + spec["suffix"]
                d2 = patho_doc("axml", name)
                o, _c = run_single("axml", d2, cpu_limit(len(d2)))
                if o == "timeout":
                    case["kind"], kind, data = "axml", "axml", d2
        elif "edits" in case and len(case["edits"]) > 1:    # reduce the edit list greedily
            edits = list(case["edits"])
            base = bases[case["base"]][1]
            for e in list(edits):
                trial = [x for x in edits if x is not e]
                d2 = apply_edits(base, trial)
                o, _c = run_single(kind, d2, cpu_limit(len(d2)))
                if o == "timeout":
                    edits = trial
            case["edits"] = edits
            data = apply_edits(base, edits)
        if len(data) <= 100000:
            case["hex"] = data.hex()
        case["size"] = len(data)
        ck.fail(case, f"{kind} parser does not finish within the CPU-time limit ({2 * limit:.0f} s for {len(data)} bytes)",
                None, "a result or an error", f"no result after {cpu2:.0f} s of CPU time")
    passed_header = sum(v for k, v in outcomes.items() if not k.endswith("err:ValueError") or not k.startswith("dex"))
    ck.cover(evaluations=len(tasks),
             distinct=[(kinds_l[i], hashes[i]) for i in range(len(tasks))],
             samples=[{"base": meta[i].get("base", meta[i].get("name")), "edits": meta[i].get("edits", [])[:3], "outcome": res[i][0],
                       "cpu_s": round(res[i][1], 3)} for i in (ncorpus, len(tasks) // 2, len(tasks) - 1)],
             dist=dict(outcomes, bases=len(bases), crafted=len(cr), corpus_cases=ncorpus, pathological_inputs=npatho,
                       pathological_skipped=pskip, escalated=bool(getattr(ck, 'escalated', False)), pool_wall_s=round(wall, 1),
                       max_cpu_s=round(max(c for _o, c in res), 2)))
    if slow:
        slow.sort(reverse=True)
        ck.notes.append("slowest parses (cpu s, input): " + "; ".join(
            f"{c:.1f} {meta[i].get('base', meta[i].get('name'))}" for c, i in slow[:3]))
    ck.partial.append("coverage table (theorem coverage_classes): 9 of 27 entries have a Lean model with a proved bound "
                      "(read_null_terminated_string, HiddenApiClassDataItem, DebugInfoItem, _do_next, AXMLPrinter.__init__, get_apkid, "
                      "ARSCParser.__init__ x2, ARSCHeader); 7 are prose-only arguments (writeuleb128, writesleb128, get_information, "
                      "_fmt_classname, print_map, get_type, ARSCParser._analyse); 11 defer to other properties with any hash accepted "
                      "(LinearSweep -> C02; ResourceResolver x3 -> C29; APK signing block / EOCD x7 -> C33)")
    ck.partial.append("parser-level composition is proved for AXML (axml_parse_steps_linear) and ARSC (arsc_parse_steps_linear) only; "
                      "no Lean halting theorem for the DEX map walk (offset-addressed items, per-item count loops) or for APK/zip")
    ck.partial.append("count_loops_consume and regexes_linear are decide-checks over flags computed syntactically by gen/loops.py; the "
                      "semantic claims (a read consumes bytes or raises; audited patterns are linear) are not stated in Lean")
    ck.partial.append("completeness of the inventory rests on the AST scan; third-party code (apkInspector, lxml, mutf8, re) is "
                      "reached only by the search")
    ck.notes.append("bounds proved: chunk iterations of _do_next / ARSCParser are linear in the file size; each ARSCHeader "
                    "dummy-data scan is linear too, and a scan may be repeated per chunk (start+size lies before the position "
                    "where the header was found), so the model's worst case for AXML is quadratic, not linear; no input "
                    "exhibiting that was found (crafted-axml-dummy-data-*)")
    ck.assumptions.append("CPU time of a worker (ITIMER_PROF) measures the parser; a hang inside a C extension that never returns "
                          "to the interpreter is caught only by the wall-clock guard (tool failure, not a verdict)")


# ------------------------------------------------------------------ replay
def replay(ck: Check, rp):
    c = rp.get("case") or {}
    if not c and "first_divergence" in rp:
        m = rp["first_divergence"]
        print("correspondence", m.get("stream"), "request:", m.get("request")[:200])
        print("real :", m.get("real"))
        print("model:", m.get("model"))
        return 0
    if not c:
        print("broken obligation:", rp.get("theorem"))
        for e in rp.get("errors", [])[:3]:
            print(e.get("message", "")[:600])
        return 0
    if "op" in c:
        from androguard.core import axml, dex
        from harness.props.c06 import time_limit, Hang
        data = bytes.fromhex(c["hex"])
        cm = type("CM", (), {})()
        cm.packer = dex.DalvikPacker(0x12345678)
        b = io.BufferedReader(io.BytesIO(data))
        b.seek(c.get("pos", 0))
        calls = {"hdr": lambda: real_hdr(axml, data, c.get("start", 0)), "axml-walk": lambda: real_axml_walk(axml, data),
                 "dbg": lambda: dex.DebugInfoItem(b, cm), "hidden": lambda: dex.HiddenApiClassDataItem(b, cm)}
        print("replay", c["op"], "on", len(data), "bytes")
        try:
            with time_limit(5.0):
                print("returned:", calls[c["op"]]())
            return 0
        except Hang:
            print("does not return within 5 s")
            return 1
        except Exception as e:  # noqa
            print("raised", type(e).__name__)
            return 0
    kind = c["kind"]
    if "hex" in c:
        data = bytes.fromhex(c["hex"])
    else:
        bases = {}
        bases.update(gen_valid(ck)); bases.update(shipped(ck)); bases.update(crafted(ck))
        data = apply_edits(bases[c["base"]][1], [tuple(e) for e in c["edits"]])
    limit = cpu_limit(len(data))
    print(f"replay {kind} parser on {len(data)} bytes (base {c.get('base', c.get('name'))}, edits {c.get('edits')}), cpu limit {limit:.1f}s")
    out, cpu = run_single(kind, data, limit)
    print("outcome:", out, f"cpu {cpu:.2f}s")
    return 1 if out == "timeout" else 0
