"""C10 — see harness/cfg_common.py (shared harness of C10/C11/C12/C40) and harness/cfg_oracle.py (judge_c10)."""
from harness import cfg_common

PROP = "C10"
# hand-modelled functions of AgVerif.Cfg (read by tools/mkpins.py; same list as cfg_common.PINS)
PINS = [("androguard/core/dex/__init__.py", "determineNext"),
        ("androguard/core/dex/__init__.py", "determineException"),
        ("androguard/core/dex/__init__.py", "DCode.get_ins_off"),
        ("androguard/core/dex/__init__.py", "DCode.off_to_pos"),
        ("androguard/core/dex/__init__.py", "DCode.set_instructions"),
        ("androguard/core/dex/__init__.py", "DCode.get_instructions"),
        ("androguard/core/dex/__init__.py", "EncodedMethod.get_instructions_idx"),
        ("androguard/core/dex/__init__.py", "EncodedMethod.set_instructions"),
        ("androguard/core/analysis/analysis.py", "MethodAnalysis._create_basic_block"),
        ("androguard/core/analysis/analysis.py", "DEXBasicBlock.push"),
        ("androguard/core/analysis/analysis.py", "DEXBasicBlock.set_childs"),
        ("androguard/core/analysis/analysis.py", "DEXBasicBlock.set_fathers"),
        ("androguard/core/analysis/analysis.py", "BasicBlocks.get_basic_block"),
        ("androguard/core/analysis/analysis.py", "Exceptions.get_exception"),
        ("androguard/core/analysis/analysis.py", "Exceptions.add"),
        ("androguard/core/analysis/analysis.py", "ExceptionAnalysis.__init__"),
        ("androguard/core/dex/__init__.py", "DCode.set_insn"),
        ("androguard/core/dex/__init__.py", "EncodedMethod.reload")]


def run(ck):
    assert sorted(PINS) == sorted(cfg_common.PINS)
    cfg_common.run(ck, PROP, PINS)


def replay(ck, rp):
    return cfg_common.replay(ck, rp, PROP)
