"""C04 — encoded constant values keep their declared width and signedness (DESIGN.md section 6, C04).

P: gen/valuetypes.py (VALUE_* constants + the dispatch table of EncodedValue.__init__ read from the AST)
   -> lean/AgVerif/Gen/ValueTypes.lean; theorems lean/AgVerif/Props/C04.lean.
T: real androguard vs the Lean model (drv_C04):
     evalue  EncodedValue(BytesIO(bytes), stub cm)      every type x every value_arg x boundary payloads,
             values written by the independent writer harness/dexasm.py (nested arrays / annotations,
             padded uleb128s), truncations, random bytes
     statics whole DEX files built by dexasm, parsed by androguard.core.dex.DEX; init values read through
             EncodedField.get_init_value().get_value()
     bind    ClassDataItem.set_static_fields on mock fields
     print   DvClass.get_source on mock fields (field initialiser text)
S: oracle = the format document's interpretation in plain Python (int.from_bytes / struct), the writer's
   intent for DEX files, and for the printed initialiser a Java literal parser (JLS 3.10) that reads the
   text back.
Registered against the tree WITH fixes/C04-encoded-value-sign.diff.
"""
import io
import json
import math
import os
import re
import struct

from harness.fw import VERIF, Check, Driver, hexs

PINS = [("androguard/core/dex/__init__.py", "EncodedValue.__init__"),
        ("androguard/core/dex/__init__.py", "EncodedValue._getintvalue"),
        ("androguard/core/dex/__init__.py", "EncodedValue._getfloatvalue"),
        ("androguard/core/dex/__init__.py", "EncodedArray.__init__"),
        ("androguard/core/dex/__init__.py", "EncodedAnnotation.__init__"),
        ("androguard/core/dex/__init__.py", "AnnotationElement.__init__"),
        ("androguard/core/dex/__init__.py", "ClassDataItem.set_static_fields"),
        ("androguard/decompiler/decompile.py", "DvClass.get_source"),
        ("androguard/decompiler/decompile.py", "DvClass.get_source_ext"),
        ("androguard/decompiler/decompile.py", "get_field_init_literal")]

SIGNED = {0x00: 1, 0x02: 2, 0x04: 4, 0x06: 8}
UNSIGNED = {0x03: 2, 0x17: 4, 0x18: 4, 0x19: 4, 0x1a: 4, 0x1b: 4}
FLOATS = {0x10: 4, 0x11: 8}
NAMES = {0x00: "BYTE", 0x02: "SHORT", 0x03: "CHAR", 0x04: "INT", 0x06: "LONG", 0x10: "FLOAT", 0x11: "DOUBLE",
         0x17: "STRING", 0x18: "TYPE", 0x19: "FIELD", 0x1a: "METHOD", 0x1b: "ENUM", 0x1c: "ARRAY",
         0x1d: "ANNOTATION", 0x1e: "NULL", 0x1f: "BOOLEAN"}


# ------------------------------------------------------------------ real side
def _real():
    from androguard.core import dex

    class StubCM:
        packer = dex.DalvikPacker(0x12345678)

        def get_raw_string(self, i):
            return "S%d" % i

        def get_type(self, i):
            return "T%d" % i

        def get_field(self, i):
            return ["Fc%d" % i, "Ft%d" % i, "Fn%d" % i]

        def get_method(self, i):
            return ["Mc%d" % i, "Mn%d" % i, "Mp%d" % i]

    return dex, StubCM()


def fbits(v, vt):
    if v != v:
        return "nan"
    if vt == 0x10:
        return str(struct.unpack("<I", struct.pack("<f", v))[0])
    return str(struct.unpack("<Q", struct.pack("<d", v))[0])


def canon_value(dex, ev, ref=None):
    """canonical text of an EncodedValue object (same format as Driver/C04.lean `render`).
    ref(vt, resolved) maps what a real ClassManager resolved back to the stub's names."""
    vt, v = ev.value_type, ev.value
    if isinstance(v, bool):
        return "true" if v else "false"
    if v is None:
        return "null"
    if isinstance(v, int):
        return "i%d:%d" % (vt, v)
    if isinstance(v, float):
        return ("f:" if vt == 0x10 else "d:") + fbits(v, vt)
    if isinstance(v, str):
        if v == "" and vt not in (0x17, 0x18):
            return "u%d" % vt
        return "r%d:%s" % (vt, ref(vt, v) if ref else v)
    if isinstance(v, list):
        return "r%d:%s" % (vt, ref(vt, v) if ref else "|".join(v))
    if isinstance(v, dex.EncodedArray):
        return "[" + ",".join(canon_value(dex, x, ref) for x in v.get_values()) + "]"
    if isinstance(v, dex.EncodedAnnotation):
        return "@%d{%s}" % (v.get_type_idx(), ",".join(
            "%d=%s" % (e.get_name_idx(), canon_value(dex, e.get_value(), ref)) for e in v.get_elements()))
    return "other-value:" + type(v).__name__


def real_evalue(dex, cm, data: bytes):
    buf = io.BytesIO(data)
    try:
        ev = dex.EncodedValue(buf, cm)
        return "ok %d %s" % (buf.tell(), canon_value(dex, ev))
    except struct.error:
        return "err"
    except Exception as e:  # noqa
        return "other:" + type(e).__name__


def real_earray(dex, cm, data: bytes, ref=None):
    buf = io.BytesIO(data)
    try:
        ea = dex.EncodedArray(buf, cm)
        return "ok %d %s" % (buf.tell(), ";".join(canon_value(dex, x, ref) for x in ea.get_values()))
    except struct.error:
        return "err"
    except Exception as e:  # noqa
        return "other:" + type(e).__name__


# ------------------------------------------------------------------ independent oracle (format document)
class Malformed(Exception):
    pass


def o_uleb(data, pos):
    v = 0
    for i in range(5):
        if pos + i >= len(data):
            raise Malformed("uleb128 runs off the buffer")
        b = data[pos + i]
        v |= (b & 0x7F) << (7 * i)
        if b < 0x80:
            if v >= 1 << 32:
                raise Malformed("uleb128 above 32 bits")
            return v, pos + i + 1
    raise Malformed("uleb128 longer than five bytes")


def o_value(data, pos=0):
    """(canonical text, end position) of the encoded_value at data[pos:] per the format document;
    Malformed when the document does not define it (illegal value_arg, unknown type, short buffer)."""
    if pos >= len(data):
        raise Malformed("no header byte")
    h = data[pos]
    vt, arg = h & 0x1F, h >> 5
    pos += 1

    def payload(n):
        if pos + n > len(data):
            raise Malformed("payload runs off the buffer")
        return bytes(data[pos:pos + n])

    if vt in SIGNED:
        if arg > SIGNED[vt] - 1:
            raise Malformed("illegal value_arg")
        p = payload(arg + 1)
        return "i%d:%d" % (vt, int.from_bytes(p, "little", signed=True)), pos + arg + 1
    if vt in UNSIGNED:
        if arg > UNSIGNED[vt] - 1:
            raise Malformed("illegal value_arg")
        n = int.from_bytes(payload(arg + 1), "little", signed=False)
        end = pos + arg + 1
        if vt == 0x03:
            return "i3:%d" % n, end
        if vt == 0x17:
            return "r23:S%d" % n, end
        if vt == 0x18:
            return "r24:T%d" % n, end
        if vt in (0x19, 0x1b):
            return "r%d:Fc%d|Ft%d|Fn%d" % (vt, n, n, n), end
        return "r26:Mc%d|Mn%d|Mp%d" % (n, n, n), end
    if vt in FLOATS:
        size = FLOATS[vt]
        if arg > size - 1:
            raise Malformed("illegal value_arg")
        p = payload(arg + 1)
        full = b"\x00" * (size - len(p)) + p            # zero-extended to the right = low-order zeros
        v = struct.unpack("<f" if size == 4 else "<d", full)[0]
        if v != v:
            return ("f:nan" if size == 4 else "d:nan"), pos + arg + 1
        return ("f:" if size == 4 else "d:") + str(int.from_bytes(full, "little")), pos + arg + 1
    if vt == 0x1c:
        if arg:
            raise Malformed("illegal value_arg")
        n, pos2 = o_uleb(data, pos)
        out = []
        for _ in range(n):
            if pos2 >= len(data):
                raise Malformed("array runs off the buffer")
            t, pos2 = o_value(data, pos2)
            out.append(t)
        return "[" + ",".join(out) + "]", pos2
    if vt == 0x1d:
        if arg:
            raise Malformed("illegal value_arg")
        ty, pos2 = o_uleb(data, pos)
        n, pos2 = o_uleb(data, pos2)
        out = []
        for _ in range(n):
            name, pos2 = o_uleb(data, pos2)
            t, pos2 = o_value(data, pos2)
            out.append("%d=%s" % (name, t))
        return "@%d{%s}" % (ty, ",".join(out)), pos2
    if vt == 0x1e:
        if arg:
            raise Malformed("illegal value_arg")
        return "null", pos
    if vt == 0x1f:
        if arg > 1:
            raise Malformed("illegal value_arg")
        return ("true" if arg else "false"), pos
    raise Malformed("unassigned value type")


# ------------------------------------------------------------------ Java literal reader (JLS 3.10)
def java_literal(text):
    """what the Java source text `text` denotes as a field initialiser:
    ('int', v) ('long', v) ('bool', b) ('null',) ('float', bits|'nan') ('double', bits|'nan') ('string', s) or None"""
    t = text.strip()
    if t in ("true", "false"):
        return ("bool", t == "true")
    if t == "null":
        return ("null",)
    for box, kind in (("Float", "float"), ("Double", "double")):
        if t == box + ".NaN":
            return (kind, "nan")
        if t in (box + ".POSITIVE_INFINITY", box + ".NEGATIVE_INFINITY"):
            v = math.inf if "POSITIVE" in t else -math.inf
            return (kind, fbits(v, 0x10 if kind == "float" else 0x11))
    if len(t) >= 2 and t[0] == '"' and t[-1] == '"':
        # interpretation: C04 checks WHICH string is printed; whether the escaping is Java's is C23's question.
        try:
            return ("string", t[1:-1].encode("ascii").decode("unicode-escape"))
        except Exception:  # noqa
            return None
    m = re.fullmatch(r"(-?)(0x[0-9a-fA-F]+|0|[1-9][0-9]*)([lL]?)", t)
    if m:
        neg, body, suf = m.group(1) == "-", m.group(2), m.group(3)
        w = 64 if suf else 32
        if body.startswith("0x"):
            mag = int(body[2:], 16)
            if mag >= 1 << w:
                return None
            v = mag - (1 << w) if mag >> (w - 1) else mag
            if neg:
                v = -v
                if v == 1 << (w - 1):
                    v = -v
        else:
            mag = int(body)
            if mag > (1 << (w - 1)) or (mag == 1 << (w - 1) and not neg):
                return None
            v = -mag if neg else mag
        return ("long" if suf else "int", v)
    m = re.fullmatch(r"(-?(?:[0-9]+\.?[0-9]*|\.[0-9]+)(?:[eE][-+]?[0-9]+)?)([fFdD]?)", t)
    if m and (m.group(2) or "." in t or "e" in t.lower()):
        v = float(m.group(1))
        if m.group(2) in ("f", "F"):
            try:
                b = struct.pack("<f", v)
            except OverflowError:
                return None
            return ("float", str(struct.unpack("<I", b)[0]))
        return ("double", fbits(v, 0x11))
    return None


def utf16_units(s):
    out = []
    for ch in s:
        c = ord(ch)
        if c >= 0x10000:
            c -= 0x10000
            out += [0xD800 + (c >> 10), 0xDC00 + (c & 0x3FF)]
        else:
            out.append(c)
    return out


_SIMPLE = {"b": 8, "s": 0x20, "t": 9, "n": 10, "f": 12, "r": 13, '"': 0x22, "'": 0x27, "\\": 0x5c}


def java_string_strict(text):
    """the UTF-16 units the Java source text `text` denotes when it is exactly one string literal
    (JLS 3.3 unicode escapes, 3.10.5, 3.10.7), else None"""
    if len(text) < 2 or text[0] != '"' or text[-1] != '"':
        return None
    body = text[1:-1]
    units, i, run = [], 0, 0
    while i < len(body):
        c = body[i]
        if c == "\\":
            if run % 2 == 0 and i + 1 < len(body) and body[i + 1] == "u":
                j = i + 1
                while j < len(body) and body[j] == "u":
                    j += 1
                h = body[j:j + 4]
                if len(h) < 4 or any(x not in "0123456789abcdefABCDEF" for x in h):
                    return None
                units.append((int(h, 16), True)); i = j + 4; run = 0
                continue
            run += 1
        else:
            run = 0
        if ord(c) > 0x7f:
            units += [(u, False) for u in utf16_units(c)]
        else:
            units.append((ord(c), False))
        i += 1
    us = [u for u, _ in units]
    out, i = [], 0
    while i < len(us):
        c = us[i]
        if c in (0x22, 0x0a, 0x0d):
            return None
        if c == 0x5c:
            if i + 1 >= len(us):
                return None
            e = chr(us[i + 1]) if us[i + 1] < 0x80 else ""
            if e in _SIMPLE:
                out.append(_SIMPLE[e]); i += 2
                continue
            if e and e in "01234567":
                j = i + 1
                lim = 3 if e in "0123" else 2
                v, n = 0, 0
                while j < len(us) and n < lim and us[j] < 0x80 and chr(us[j]) in "01234567":
                    v = v * 8 + (us[j] - 0x30); j += 1; n += 1
                out.append(v); i = j
                continue
            return None
        out.append(c); i += 1
    return out


KNOWN_STRING_KEY = "string-initialiser-python-unicode-escape"


def judge_string(text, want):
    """None: the printed String initialiser is a Java literal of `want`;
    KNOWN_STRING_KEY: it is `want` under Python's unicode-escape reading but not valid Java because of an
    unescaped double quote, a \\xNN or a \\UNNNNNNNN escape (the shape of the defect repaired by
    fixes/C04-string-initialiser-literal.diff; the key is no longer listed, so it is a violation again);
    'other': anything else (a violation)"""
    if java_string_strict(text) == utf16_units(want):
        return None
    lit = java_literal(text)
    body = text[1:-1] if len(text) >= 2 else ""
    if lit == ("string", want) and (re.search(r"\\x|\\U", body) or '"' in body):
        return KNOWN_STRING_KEY
    return "other"


RANGES = {"B": (-128, 127), "S": (-32768, 32767), "C": (0, 65535), "I": (-2 ** 31, 2 ** 31 - 1),
          "J": (-2 ** 63, 2 ** 63 - 1)}


def literal_matches(proto, expected, text):
    """does the printed initialiser denote `expected` (a canonical value text of the oracle) for a field of
    type `proto`?"""
    if expected.startswith(("r", "[", "@", "u")):
        return None      # class/field/method/enum/array/annotation literals: not judged
    lit = java_literal(text)
    if lit is None:
        return False
    if expected == "null":
        return lit == ("null",)
    if expected in ("true", "false"):
        return proto == "Z" and lit == ("bool", expected == "true")
    if expected.startswith("i"):
        v = int(expected.split(":")[1])
        if proto not in RANGES:
            return False
        lo, hi = RANGES[proto]
        if lit[0] == "int":
            return lit[1] == v and lo <= lit[1] <= hi
        if lit[0] == "long":
            return proto == "J" and lit[1] == v
        return False
    if expected.startswith("f:"):
        return proto == "F" and lit == ("float", expected[2:])
    if expected.startswith("d:"):
        return proto == "D" and lit == ("double", expected[2:])
    return None      # not judged


# ------------------------------------------------------------------ generators
def boundary_payloads(n, rng):
    ps = {bytes([0xff] * n), bytes(n), bytes([0] * (n - 1) + [0x80]), bytes([0xff] * (n - 1) + [0x7f]),
          bytes([0x80] + [0] * (n - 1)), bytes([0x7f] * n), bytes([0x80] * n), bytes([1] + [0] * (n - 1)),
          bytes([0xff] * (n - 1) + [0x80]), bytes([0] * (n - 1) + [0x7f]), bytes([0xfe] + [0xff] * (n - 1))}
    for _ in range(3):
        ps.add(bytes(rng.randrange(256) for _ in range(n)))
    return sorted(ps)


def gen_evalues(ck, dexasm):
    rng = ck.rng
    out = []          # (bytes, tag)
    for vt in range(32):
        for arg in range(8):
            hdr = bytes([(arg << 5) | vt])
            for p in boundary_payloads(arg + 1, rng):
                out.append((hdr + p, "hdr"))
                out.append((hdr + p + b"\xaa\x55", "hdr+tail"))
                out.append((hdr + p[:-1], "hdr-trunc"))
            out.append((hdr, "hdr-only"))
    # the independent writer: every scalar type x every width x boundary values
    for vt, mx in SIGNED.items():
        for w in range(1, mx + 1):
            lo, hi = -(1 << (8 * w - 1)), (1 << (8 * w - 1)) - 1
            for v in {-1, 0, 1, lo, hi, lo + 1, hi - 1, lo // 2, hi // 2, rng.randrange(lo, hi + 1)}:
                for ww in range(w, mx + 1):
                    try:
                        out.append((dexasm.encoded_value(vt, v, ww), "writer-signed"))
                    except ValueError:
                        pass
    for vt, mx in UNSIGNED.items():
        for w in range(1, mx + 1):
            hi = (1 << (8 * w)) - 1
            for v in {0, 1, hi, hi >> 1, (hi >> 1) + 1, rng.randrange(0, hi + 1)}:
                for ww in range(w, mx + 1):
                    try:
                        out.append((dexasm.encoded_value(vt, v, ww), "writer-unsigned"))
                    except ValueError:
                        pass
    for vt, mx in FLOATS.items():
        specials = [0, 1 << (8 * mx - 1), 0x3f800000 if mx == 4 else 0x3ff0000000000000,
                    0x7f800000 if mx == 4 else 0x7ff0000000000000, 0xff800000 if mx == 4 else 0xfff0000000000000,
                    0x7fc00000 if mx == 4 else 0x7ff8000000000000, 1, (1 << (8 * mx)) - 1,
                    0x7f7fffff if mx == 4 else 0x7fefffffffffffff, 0x00800000 if mx == 4 else 0x0010000000000000]
        specials += [rng.getrandbits(8 * mx) for _ in range(20)]
        specials += [rng.getrandbits(8 * k) << (8 * (mx - k)) for k in range(1, mx) for _ in range(3)]
        for bits in specials:
            for ww in range(1, mx + 1):
                try:
                    out.append((dexasm.encoded_value(vt, bits, ww), "writer-float"))
                except ValueError:
                    pass
    for b in (True, False):
        out.append((dexasm.encoded_value(0x1f, b), "writer-bool"))
    out.append((dexasm.encoded_value(0x1e), "writer-null"))

    # nested values
    def rand_scalar():
        k = rng.randrange(8)
        if k == 0:
            vt = rng.choice(list(SIGNED))
            mx = SIGNED[vt]
            w = rng.randrange(1, mx + 1)
            v = rng.choice((-1, -(1 << (8 * w - 1)), (1 << (8 * w - 1)) - 1, rng.randrange(-(1 << (8 * w - 1)), 1 << (8 * w - 1))))
            return (vt, v, rng.randrange(w, mx + 1))
        if k == 1:
            vt = rng.choice(list(UNSIGNED))
            mx = UNSIGNED[vt]
            w = rng.randrange(1, mx + 1)
            return (vt, rng.randrange(0, 1 << (8 * w)), rng.randrange(w, mx + 1))
        if k == 2:
            vt = rng.choice(list(FLOATS))
            return (vt, rng.getrandbits(8 * FLOATS[vt]), None)
        if k == 3:
            return (0x1e, None)
        if k == 4:
            return (0x1f, rng.random() < 0.5)
        vt = rng.choice(list(SIGNED))
        return (vt, rng.choice((-1, -128, 127, 0)), None)

    def rand_value(depth):
        r = rng.random()
        if depth <= 0 or r < 0.55:
            return rand_scalar()
        if r < 0.8:
            return (0x1c, [rand_value(depth - 1) for _ in range(rng.randrange(0, 4))])
        names = sorted(rng.sample(range(0, 300), rng.randrange(0, 4)))
        return (0x1d, (rng.choice((0, 5, 127, 128, 70000)), [(n, rand_value(depth - 1)) for n in names]))

    n_nested = 40000 if getattr(ck, 'big', not ck.quick) else 1500
    for _ in range(n_nested):
        v = rand_value(rng.randrange(1, 5))
        data = dexasm.encoded_value(v[0], v[1], v[2] if len(v) > 2 else None, leb_pad=rng.choice((0, 0, 1, 2)))
        out.append((data, "writer-nested"))
        if rng.random() < 0.3 and len(data) > 1:
            out.append((data[:rng.randrange(1, len(data))], "nested-trunc"))
        if rng.random() < 0.2:
            out.append((data + bytes(rng.randrange(256) for _ in range(3)), "nested+tail"))
    # arrays with counts that exceed the buffer, deep-ish nesting
    out += [(bytes([0x1c, 0x05, 0x00, 0x01]), "malformed"), (bytes([0x1c, 0xff, 0xff, 0xff, 0xff, 0x0f]), "malformed"),
            (bytes([0x1c, 0x01] * 40 + [0x1e]), "deep"), (bytes([0x1d, 0x00, 0x01, 0x00] * 30 + [0x3f]), "deep"),
            (b"", "malformed"), (bytes([0x1c]), "malformed"), (bytes([0x1d, 0x80]), "malformed")]
    n_rand = 200000 if getattr(ck, 'big', not ck.quick) else 4000
    for _ in range(n_rand):
        out.append((bytes(rng.randrange(256) for _ in range(rng.randrange(0, 10))), "random"))
    return out


# ------------------------------------------------------------------ DEX level
PROTO_FOR = {0x00: "B", 0x02: "S", 0x03: "C", 0x04: "I", 0x06: "J", 0x10: "F", 0x11: "D", 0x1f: "Z",
             0x17: "Ljava/lang/String;", 0x18: "Ljava/lang/Class;", 0x19: "Ljava/lang/reflect/Field;",
             0x1a: "Ljava/lang/reflect/Method;", 0x1b: "Lq/E;", 0x1e: "Ljava/lang/Object;"}


def rand_field_init(rng):
    """(proto, init tuple) for one static field, sign boundaries favoured"""
    k = rng.randrange(14)
    if k < 6:
        vt = rng.choice(list(SIGNED))
        mx = SIGNED[vt]
        w = rng.randrange(1, mx + 1)
        lo, hi = -(1 << (8 * w - 1)), (1 << (8 * w - 1)) - 1
        v = rng.choice((-1, lo, hi, lo + 1, hi - 1, 0, rng.randrange(lo, hi + 1)))
        return PROTO_FOR[vt], (vt, v, rng.randrange(w, mx + 1))
    if k == 6:
        w = rng.randrange(1, 3)
        return "C", (0x03, rng.choice((0, (1 << (8 * w)) - 1, 1 << (8 * w - 1), rng.randrange(0, 1 << (8 * w)))), rng.randrange(w, 3))
    if k == 7:
        vt = rng.choice((0x10, 0x11))
        mx = FLOATS[vt]
        kk = rng.randrange(1, mx + 1)
        bits = rng.getrandbits(8 * kk) << (8 * (mx - kk))
        bits = rng.choice((bits, 0x3fc00000 if mx == 4 else 0xbfb999999999999a, 0x7fc00000 if mx == 4 else 0x7ff8000000000000,
                           0xff800000 if mx == 4 else 0x7ff0000000000000, 1 << (8 * mx - 1)))
        return PROTO_FOR[vt], (vt, bits)
    if k == 8:
        return "Z", (0x1f, rng.random() < 0.5)
    if k == 9:
        return rng.choice(("Ljava/lang/Object;", "Ljava/lang/String;")), (0x1e, None)
    if k == 10:
        s = rng.choice(("", "hello", "a b", "x" * rng.randrange(1, 20), "tab\there", "unié", "quote'", 'say "hi"', "back\\slash\\u0041",
                        "\u4e2d\u6587", "\U0001f600", "line\nfeed"))
        return "Ljava/lang/String;", (0x17, s)
    if k == 11:
        return "Ljava/lang/Class;", (0x18, rng.choice(("Lq/A;", "I", "[Ljava/lang/String;")))
    if k == 12:
        return rng.choice((("Lq/E;", (0x1b, ("Lq/E;", "A", "Lq/E;"))),
                           ("Ljava/lang/reflect/Field;", (0x19, ("Lq/A;", "fld", "I")))))
    return "Ljava/lang/reflect/Method;", (0x1a, ("Lq/A;", "meth", "V", ("I", "J")))


def expected_text(b, init):
    """the writer's intent for an init tuple, as canonical text with stub names for pool references"""
    vt = init[0]
    v = init[1] if len(init) > 1 else None
    if vt in SIGNED:
        return "i%d:%d" % (vt, v)
    if vt == 0x03:
        return "i3:%d" % v
    if vt in FLOATS:
        full = int(v).to_bytes(FLOATS[vt], "little")
        x = struct.unpack("<f" if vt == 0x10 else "<d", full)[0]
        return ("f:" if vt == 0x10 else "d:") + ("nan" if x != x else str(int(v)))
    if vt == 0x17:
        i = b.string_idx(v)
        return "r23:S%d" % i
    if vt == 0x18:
        return "r24:T%d" % b.type_idx(v)
    if vt in (0x19, 0x1b):
        i = b.field_idx(*v)
        return "r%d:Fc%d|Ft%d|Fn%d" % (vt, i, i, i)
    if vt == 0x1a:
        i = b.method_idx(*v)
        return "r26:Mc%d|Mn%d|Mp%d" % (i, i, i)
    if vt == 0x1e:
        return "null"
    if vt == 0x1f:
        return "true" if v else "false"
    if vt == 0x1c:
        return "[" + ",".join(expected_text(b, x) for x in v) + "]"
    if vt == 0x1d:
        t, elems = v
        if isinstance(elems, dict):
            elems = list(elems.items())
        el = sorted(((b.string_idx(n) if not isinstance(n, int) else n), x) for n, x in elems)
        return "@%d{%s}" % (b.type_idx(t) if not isinstance(t, int) else t,
                            ",".join("%d=%s" % (n, expected_text(b, x)) for n, x in el))
    raise ValueError(vt)


def make_ref(b):
    """map what the real ClassManager resolved (strings) back to the stub names through the writer's pools"""
    def ref(vt, v):
        try:
            if vt == 0x17:
                return "S%d" % b.strings.index(v)
            if vt == 0x18:
                return "T%d" % b.types.index(v)
            if vt in (0x19, 0x1b):
                i = b.fields.index((v[0], v[2], v[1]))
                return "Fc%d|Ft%d|Fn%d" % (i, i, i)
            if vt == 0x1a:
                cands = [i for i, m in enumerate(b.methods) if m[0] == v[0] and m[1] == v[1]]
                if len(cands) == 1:
                    i = cands[0]
                    return "Mc%d|Mn%d|Mp%d" % (i, i, i)
        except (ValueError, IndexError, TypeError):
            pass
        return "unresolved:%r" % (v,)
    return ref


SRC_LINE = re.compile(r"^    (?:[\w]+ )*?(\S+) (\w+)(?: = (.*))?;$")
PRIM_NAME = {"B": "byte", "S": "short", "C": "char", "I": "int", "J": "long", "F": "float", "D": "double", "Z": "boolean"}


def build_dex(rng, dexasm, nclasses, overlong=False, dup=None):
    b = dexasm.DexBuilder()
    spec = []
    for ci in range(nclasses):
        nf = rng.randrange(0, 9)
        fields, plan = [], []
        for fi in range(nf):
            proto, init = rand_field_init(rng)
            if rng.random() < 0.25:
                init = None
            fields.append(dexasm.Field("f%d" % fi, proto, 0x9 | (0x10 if rng.random() < 0.5 else 0), init))
            plan.append((proto, init))
        inst = [dexasm.Field("g0", "I", 0x1)] if rng.random() < 0.5 else []
        if dup is None:
            dup_here = rng.random() < 0.5
        else:
            dup_here = dup
        if dup_here:
            # fields sharing one simple name but differing in type (a field_id is class+name+type; emitted by
            # obfuscators): static/static and static/instance, with and without values, valued one first or last
            # (the position follows the type index, which the random choice of types varies)
            name = rng.choice(("a", "dup", "f0"))
            group, want = {}, rng.randrange(2, 4)
            while len(group) < want:
                proto, init = rand_field_init(rng)
                group[proto] = init
            shape = rng.randrange(4)          # 0 all valued, 1 only one valued, 2 random, 3 one valued + instance twin
            keys = sorted(group)
            keep = rng.choice(keys)
            fields = [f for f in fields if f.name != name]
            for proto in keys:
                init = group[proto]
                if (shape in (1, 3) and proto != keep) or (shape == 2 and rng.random() < 0.5):
                    init = None
                fields.append(dexasm.Field(name, proto, 0x9 | (0x10 if rng.random() < 0.5 else 0), init))
            if shape == 3 or rng.random() < 0.4:
                ip = rng.choice([q for q in ("I", "J", "B", "Z", "Ljava/lang/String;", "D", "[I") if q not in group])
                inst.append(dexasm.Field(name, ip, rng.choice((0x1, 0x2, 0x12))))
            rng.shuffle(fields)
        ann = None
        if rng.random() < 0.5:
            ann = {"class": [dexasm.Annotation(1, "Lq/Ann;", [("v%d" % k, rand_field_init(rng)[1]) for k in range(rng.randrange(0, 4))]
                                               + ([("arr", (0x1c, [rand_field_init(rng)[1] for _ in range(rng.randrange(0, 4))]))]
                                                  if rng.random() < 0.5 else []))]}
        sv = None
        if overlong and fields and ci == 0:
            sv = [(0x04, k) for k in range(len(fields) + rng.randrange(1, 3))]
        b.add_class("Lq/C%d;" % ci, static_fields=fields, instance_fields=inst, static_values=sv, annotations=ann)
        spec.append((fields, ann, sv))
    data = b.build(leb_pad=rng.choice((0, 0, 1)))
    return b, data, spec


def check_dex(ck, dex, drv_reqs, b, data, spec, dexasm, stats, do_source=True, shrink=True):
    """run the real parser on one DEX; returns [(request line, real reply)] for the statics stream and
    calls ck.fail for every static field / annotation element / printed initialiser that is wrong."""
    from androguard.decompiler.decompile import DvClass
    try:
        d = dex.DEX(data)
    except Exception as e:  # noqa
        ck.fail({"op": "dex", "hex": data.hex()}, "DEX built by the independent writer is rejected: %r" % e, None, "parsed", type(e).__name__)
        return
    ref = make_ref(b)
    classes = {c.get_name(): c for c in d.get_classes()}
    for cdef, (fields, ann, sv) in zip(b.classes, spec):
        c = classes.get(cdef.name)
        if c is None:
            ck.fail({"op": "dex", "hex": data.hex()}, "class missing", None, cdef.name, sorted(classes))
            continue
        intent = b.static_values_for(cdef)
        order = sorted(cdef.static_fields, key=lambda f: b.field_idx(cdef.name, f.name, f.type))
        iorder = sorted(cdef.instance_fields, key=lambda f: b.field_idx(cdef.name, f.name, f.type))
        real_static = [f for f in c.get_fields() if f.get_access_flags() & 0x8]
        real_by_key = {(f.get_name(), f.get_descriptor()): f for f in real_static}
        # correspondence: the encoded_array bytes as written, bound to len(static fields)
        if intent is not None:
            arr = dexasm.encoded_array(intent, resolver=b)
            got = []
            for f in real_static:
                iv = f.get_init_value()
                got.append("-" if iv is None else canon_value(dex, iv, ref))
            drv_reqs.append(("statics %d %s" % (len(order), hexs(arr)), "ok " + ";".join(got)))
        legal = intent is None or len(intent) <= len(order)
        if not legal:
            stats["overlong"] += 1
            continue
        names = [f.name for f in order + iorder]
        if len(set(names)) < len(names):
            stats["classes_with_same_named_fields"] += 1
        ccase = {"op": "class",
                 "static": [[f.name, f.type, f.access, _jsonable(f.init)] for f in cdef.static_fields],
                 "instance": [[f.name, f.type, f.access] for f in cdef.instance_fields]}
        expected = []          # (field, expected canonical text or None, init tuple), in class_data (= printing) order
        for i, f in enumerate(order):
            rf = real_by_key.get((f.name, f.type))
            if intent is None or i >= len(intent):
                exp, tup = None, None
            else:
                exp, tup = expected_text(b, intent[i]), intent[i]
            expected.append((f, exp, tup))
            stats["static_fields"] += 1
            stats["vt_%s" % (NAMES.get(tup[0], "?") if exp is not None else "none")] += 1
            case = {"op": "static", "proto": f.type, "init": _jsonable(tup) if exp is not None else None,
                    "position": i, "nvalues": 0 if intent is None else len(intent), "nfields": len(order)}
            if len(set(names)) < len(names):
                case = dict(ccase, position=i)
            if rf is None:
                ck.fail(case, "static field missing", None, [f.name, f.type], sorted(real_by_key))
                continue
            iv = rf.get_init_value()
            got = None if iv is None else canon_value(dex, iv, ref)
            if got != exp:
                ck.fail(case, "static field init value differs from the encoded value's meaning", None, exp, got)
        for f in iorder:
            expected.append((f, None, None))
        if do_source:
            printed = {}
            try:
                dc = DvClass(c, None)
                printed["get_source"] = [(m.group(1), m.group(2), m.group(3)) for m in
                                         (SRC_LINE.match(line) for line in dc.get_source().split("\n")) if m]
                ext = []
                for kind, items in dc.get_source_ext():
                    if kind == "FIELD":
                        d_ = {it[0]: it for it in items}
                        v = d_["FIELD_VALUE"][1] if "FIELD_VALUE" in d_ else None
                        if v is not None:
                            v = v[3:] if v.startswith(" = ") else "?" + v
                        ext.append((d_["FIELD_TYPE"][1], d_["NAME_FIELD"][1], v))
                printed["get_source_ext"] = ext
            except Exception as e:  # noqa
                ck.fail(dict(ccase, position=0), "DvClass.get_source/get_source_ext raises %r" % e, None, "source", type(e).__name__)
            for printer, lines in printed.items():
                if [l[1] for l in lines] != [f.name for f, _, _ in expected]:
                    ck.fail(dict(ccase, position=0, printer=printer), "field lines differ from the class's fields (order: static, instance)",
                            None, [f.name for f, _, _ in expected], [l[1] for l in lines])
                    continue
                # the i-th field line belongs to the i-th field (name AND type): never match by name
                for i, ((ftxt, _, text), (f, exp, tup)) in enumerate(zip(lines, expected)):
                    case = dict(ccase, position=i, printer=printer)
                    if shrink and names.count(f.name) > 1:
                        # smaller class: only the fields that share this name (reported when it still fails)
                        small = {"op": "class", "printer": printer,
                                 "static": [x for x in ccase["static"] if x[0] == f.name],
                                 "instance": [x for x in ccase["instance"] if x[0] == f.name]}
                        if small["static"] and _class_fails(dex, dexasm, small):
                            case = small
                    if f.type in PRIM_NAME and ftxt != PRIM_NAME[f.type]:
                        ck.fail(case, "field line %d has another type than the field at that position" % i, None, PRIM_NAME[f.type], ftxt)
                        continue
                    if exp is None:
                        stats["printed_no_value"] += 1
                        if text is not None:
                            ck.fail(case, "initialiser printed for a field without value", None, None, "%s %s = %s" % (ftxt, f.name, text))
                    elif text is None:
                        ck.fail(case, "no initialiser printed", None, exp, None)
                    elif f.type == "Ljava/lang/String;" and exp.startswith("r23:"):
                        stats["printed_strings"] += 1
                        j = judge_string(text, dexasm.norm_str(tup[1]))
                        if j == KNOWN_STRING_KEY:
                            stats["printed_strings_known_finding"] += 1
                            ck.fail(case, "printed String initialiser is not a Java literal of the string (Python escaping)",
                                    KNOWN_STRING_KEY, tup[1], text)
                        elif j is not None:
                            ck.fail(case, "printed String initialiser is another string", None, tup[1], text)
                    else:
                        ok = literal_matches(f.type, exp, text)
                        if ok is not None:
                            stats["printed_literals"] += 1
                            if not ok:
                                ck.fail(case, "printed initialiser does not denote the field's value", None,
                                        "%s %s = <%s>" % (ftxt, f.name, exp), "%s %s = %s" % (ftxt, f.name, text))
        # annotation elements
        if ann:
            want = ann["class"][0]
            try:
                real_anns = c._get_annotation_type_ids()
            except Exception as e:  # noqa
                ck.fail({"op": "dex", "hex": data.hex()}, "annotations unreadable: %r" % e, None, None, None)
                continue
            exp = expected_text(b, (0x1d, (want.type, list(want.elements))))
            got = None
            if len(real_anns) == 1:
                ea = real_anns[0]
                got = "@%d{%s}" % (ea.get_type_idx(), ",".join(
                    "%d=%s" % (e.get_name_idx(), canon_value(dex, e.get_value(), ref)) for e in ea.get_elements()))
            stats["annotations"] += 1
            if got != exp:
                ck.fail({"op": "annotation", "elements": _jsonable(list(want.elements))},
                        "annotation element values differ from their encoded meaning", None, exp, got)


def _class_fails(dex, dexasm, case):
    col = _Collect(None)
    b = dexasm.DexBuilder()
    st = [dexasm.Field(n, t, a, _init_from_json(i)) for n, t, a, i in case["static"]]
    b.add_class("Lq/R;", static_fields=st, instance_fields=[dexasm.Field(n, t, a) for n, t, a in case["instance"]])
    check_dex(col, dex, [], b, b.build(), [(st, None, None)], dexasm, _Stats(), shrink=False)
    return bool(_Collect.last)


def _jsonable(x):
    if isinstance(x, (list, tuple)):
        return [_jsonable(y) for y in x]
    if isinstance(x, dict):
        return {k: _jsonable(v) for k, v in x.items()}
    return x


def _tuplify(x):
    if isinstance(x, list):
        return tuple(_tuplify(y) for y in x)
    return x


def _init_from_json(j):
    """inverse of _jsonable for an init tuple"""
    if j is None:
        return None
    vt = j[0]
    v = j[1] if len(j) > 1 else None
    if vt == 0x1c:
        v = [_init_from_json(x) for x in v]
    elif vt == 0x1d:
        v = (v[0], [(n, _init_from_json(x)) for n, x in v[1]])
    elif vt in (0x19, 0x1a, 0x1b):
        v = _tuplify(v)
    return tuple([vt, v] + list(j[2:]))


# ------------------------------------------------------------------ mocks for set_static_fields / get_source
class _MockField:
    def __init__(self, name="x", proto="I", value=None, has=False):
        self.name, self.proto, self.init = name, proto, (_MockInit(value) if has else None)

    def set_init_value(self, v):
        self.init = v

    def get_init_value(self):
        return self.init

    def get_name(self):
        return self.name

    def get_access_flags(self):
        return 0x8

    def get_descriptor(self):
        return self.proto


class _MockInit:
    def __init__(self, v):
        self.value = v


class _MockArray:
    def __init__(self, vs):
        self.vs = vs

    def get_values(self):
        return self.vs


def real_bind(dex, nv, nf):
    self = type("CDI", (), {})()
    self.static_fields = [_MockField() for _ in range(nf)]
    try:
        dex.ClassDataItem.set_static_fields(self, None if nv is None else _MockArray(list(range(nv))))
    except Exception as e:  # noqa
        return "other:" + type(e).__name__
    return "ok " + ";".join("-" if f.init is None else str(f.init) for f in self.static_fields)


def real_print(proto, value):
    """the initialiser text DvClass.get_source prints for a static field of type proto with this value"""
    from androguard.decompiler.decompile import DvClass
    dc = DvClass.__new__(DvClass)
    dc.inner, dc.package, dc.superclass, dc.prototype, dc.interfaces, dc.methods = False, "", None, "class X", [], []
    dc.fields = [_MockField("f0", proto, value, True)]
    try:
        src = dc.get_source()
    except Exception as e:  # noqa
        return "other:" + type(e).__name__
    for line in src.split("\n"):
        m = SRC_LINE.match(line)
        if m:
            return "ok " + m.group(3) if m.group(3) is not None else "no-initialiser"
    return "no-field-line"


# ------------------------------------------------------------------ corpus
def corpus_cases():
    d = os.path.join(VERIF, "corpus", "C04")
    out = []
    if os.path.isdir(d):
        for n in sorted(os.listdir(d)):
            if n.endswith(".json"):
                out.append(json.load(open(os.path.join(d, n))))
    return out


def run_case(ck, dex, cm, dexasm, case, report=True):
    """re-run one failing-input case against the real code; returns (expected, observed)"""
    op = case.get("op")
    if op == "evalue":
        data = bytes.fromhex(case["hex"]) if case["hex"] != "-" else b""
        try:
            t, end = o_value(data)
            exp = "ok %d %s" % (end, t)
        except Malformed:
            return None, real_evalue(dex, cm, data)
        got = real_evalue(dex, cm, data)
        if got != exp and report:
            ck.fail(case, "encoded_value decodes to another value than the format defines", None, exp, got)
        return exp, got
    if op == "static":
        init = _init_from_json(case["init"])
        b = dexasm.DexBuilder()
        b.add_class("Lq/R;", static_fields=[dexasm.Field("f0", case["proto"], 0x9, init)])
        data = b.build()
        stats = _Stats()
        n0 = len(ck.failures)
        check_dex(ck if report else _Collect(ck), dex, [], b, data, [(b.classes[0].static_fields, None, None)], dexasm, stats)
        fs = ck.failures[n0:] if report else _Collect.last
        return (fs[0]["expected"], fs[0]["observed"]) if fs else ("as encoded", "as encoded")
    if op == "class":
        b = dexasm.DexBuilder()
        st = [dexasm.Field(n, t, a, _init_from_json(i)) for n, t, a, i in case["static"]]
        ins = [dexasm.Field(n, t, a) for n, t, a in case["instance"]]
        b.add_class("Lq/R;", static_fields=st, instance_fields=ins)
        data = b.build()
        n0 = len(ck.failures)
        check_dex(ck if report else _Collect(ck), dex, [], b, data, [(st, None, None)], dexasm, _Stats(), shrink=False)
        fs = ck.failures[n0:] if report else _Collect.last
        return (fs[0]["expected"], fs[0]["observed"]) if fs else ("as encoded", "as encoded")
    if op == "prints":
        st = "".join(chr(c) for c in case["codepoints"])
        r = real_print("Ljava/lang/String;", st)
        j = judge_string(r[3:], st) if r.startswith("ok ") else "other"
        if j is not None and report:
            ck.fail(case, "printed String initialiser is not a Java literal of the string", j if j != "other" else None, st, r)
        return st, r
    if op == "print":
        exp = case.get("expected")
        val = case["value"]
        if case.get("bits") is not None:
            val = struct.unpack("<f" if case["size"] == 4 else "<d", case["bits"].to_bytes(case["size"], "little"))[0]
        got = real_print(case["proto"], val)
        ok = got.startswith("ok ") and literal_matches(case["proto"], exp, got[3:])
        if not ok and report:
            ck.fail(case, "printed initialiser does not denote the value", None, exp, got)
        return exp, got
    return None, None


class _Stats(dict):
    def __missing__(self, k):
        return 0


class _Collect:
    """collects failures without reporting them (replay)"""
    last = []

    def __init__(self, ck):
        _Collect.last = []

    def fail(self, case, what, key=None, expected=None, observed=None):
        _Collect.last.append({"case": case, "what": what, "expected": expected, "observed": observed})


class _Silent:
    def __init__(self, ck):
        self.failures = ck.failures

    def fail(self, *a, **k):
        pass


# ------------------------------------------------------------------ the check
def run(ck: Check):
    import harness.dexasm as dexasm
    ck.pins_changed(PINS)          # a modelled function changed: not a verdict, thorough sizes in the quick tier
    ck.big = (not ck.quick) or getattr(ck, "escalated", False)
    dex, cm = _real()
    ck.run_gen("valuetypes")
    ck.run_gen("jstring")          # writer.string(): the String initialiser is printed through it
    ck.prove(exes=["drv_C04"])
    drv = Driver("drv_C04")
    ck.rule = ("[statics: classes with same-named fields of different types included, printed initialisers matched to fields by position (name, type) for get_source and get_source_ext] evalue: all 32 types x 8 value_args x 11+3 boundary/random payloads (exact, with tail, truncated), values "
               "written by the independent writer for every scalar type x width x {-1, MIN, MAX, 0x80.., 0x7f.., random}, "
               "random nested arrays/annotations (depth<=4, padded uleb128), random bytes; DEX files with random static "
               "fields/annotations (sign boundaries favoured); distinct = distinct byte string / (proto, init, position); "
               "non-trivial = more than the header byte / a field that has an init value")
    try:
        from gen.valuetypes import pins
        ck.notes.append("pins " + json.dumps(pins(__import__("harness.fw", fromlist=["REPO"]).REPO), sort_keys=True))
    except Exception as e:  # noqa
        ck.notes.append("pins unavailable: %r" % e)

    # ---- corpus first
    for case in corpus_cases():
        run_case(ck, dex, cm, dexasm, case)

    # ---- evalue: correspondence + format oracle
    cases = gen_evalues(ck, dexasm)
    reqs = ["evalue " + hexs(d) for d, _ in cases]
    real = [real_evalue(dex, cm, d) for d, _ in cases]
    model = drv.ask(reqs)
    ck.compare("evalue", reqs, real, model)
    dist = _Stats()
    judged = 0
    for (d, tag), r in zip(cases, real):
        dist["ev_" + tag] += 1
        try:
            t, end = o_value(d)
        except Malformed:
            dist["ev_outside_format"] += 1
            continue
        except RecursionError:
            continue
        judged += 1
        exp = "ok %d %s" % (end, t)
        dist["ev_type_" + NAMES.get(d[0] & 0x1F, "?")] += 1
        if r != exp:
            ck.fail({"op": "evalue", "hex": hexs(d)}, "encoded_value decodes to another value than the format defines",
                    None, exp, r)
    dist["ev_judged_by_format_oracle"] = judged
    ck.cover(evaluations=len(cases), distinct=(("ev", d) for d, _ in cases if len(d) > 1),
             samples=[{"evalue": hexs(cases[i][0]), "real": real[i]} for i in (13, 2200, len(cases) // 2)],
             dist=dict(dist))

    # ---- bind: set_static_fields on mocks
    reqs, real = [], []
    for nf in range(0, 7):
        reqs.append("bindnone %d" % nf); real.append(real_bind(dex, None, nf))
        for nv in range(0, 9):
            reqs.append("bind %d %d" % (nv, nf)); real.append(real_bind(dex, nv, nf))
            if nv <= nf:
                exp = "ok " + ";".join([str(i) for i in range(nv)] + ["-"] * (nf - nv))
                if real[-1] != exp:
                    ck.fail({"op": "bind", "nvalues": nv, "nfields": nf}, "static values bound to the wrong fields", None, exp, real[-1])
    ck.compare("bind", reqs, real, drv.ask(reqs))
    ck.cover(evaluations=len(reqs), distinct=(("bind", r) for r in reqs))

    # ---- print: initialiser text of DvClass.get_source on mock fields
    rng = ck.rng
    pcases = []
    for proto in ("B", "S", "C", "I", "J"):
        lo, hi = RANGES[proto]
        vals = {lo, hi, lo + 1, hi - 1, 0, 1, 9, 10, 15, 16, 255, 256, 100, 1000}
        vals |= {-1, -9, -10, -16, -255, -128, 127, 128} if lo < 0 else set()
        vals |= {rng.randrange(lo, hi + 1) for _ in range(5000 if ck.big else 60)}
        vals |= {2 ** k for k in range(64) if lo <= 2 ** k <= hi} | {-(2 ** k) for k in range(64) if lo <= -(2 ** k) <= hi}
        vals |= {2 ** k - 1 for k in range(64) if lo <= 2 ** k - 1 <= hi}
        for v in sorted(x for x in vals if lo <= x <= hi):
            pcases.append((proto, "i", v))
    for proto in ("Z",):
        pcases += [(proto, "b", True), (proto, "b", False)]
    for proto in ("Ljava/lang/Object;", "Lq/A;", "[I"):
        pcases.append((proto, "n", None))
    reqs, real = [], []
    for proto, k, v in pcases:
        reqs.append("print %s %s%s" % (proto, k, "" if k == "n" else " %d" % int(v)))
        real.append(real_print(proto, v))
        exp = "null" if k == "n" else ("true" if v else "false") if k == "b" else "i0:%d" % v
        ok = real[-1].startswith("ok ") and literal_matches(proto, exp, real[-1][3:])
        if not ok:
            ck.fail({"op": "print", "proto": proto, "value": v, "expected": exp},
                    "printed initialiser does not denote the value", None, exp, real[-1])
    # String initialisers: model = writer.string() (AgVerif.JavaString.escape)
    sreqs, sreal = [], []
    strs = ["", "a", "hello world", 'say "hi"', "it's", "back\\slash", "\\u0041", "tab\t nl\n cr\r", "\x00\x01\x1f\x7f\x80\xe9\xff",
            "\u0100\u4e2d\uffff", "\ud800", "\udfff\ud800", "\U00010000\U0001f600\U0010ffff", "\\", '"', "\\\\u"]
    pools = [(0x20, 0x7f), (0, 0x20), (0x7f, 0x100), (0x100, 0x10000), (0xd800, 0xe000), (0x10000, 0x110000)]
    for _ in range(300 if not ck.big else 20000):
        strs.append("".join(chr(rng.randrange(*rng.choice(pools))) for _ in range(rng.randrange(1, 8))))
    for st in strs:
        cps = [ord(ch) for ch in st]
        sreqs.append("prints " + (",".join(map(str, cps)) if cps else "-"))
        r = real_print("Ljava/lang/String;", st)
        sreal.append("ok " + hexs(r[3:].encode("ascii", "backslashreplace")) if r.startswith("ok ") else r)
        if r.startswith("ok "):
            j = judge_string(r[3:], st)
            if j == KNOWN_STRING_KEY:
                ck.fail({"op": "prints", "codepoints": cps}, "printed String initialiser is not a Java literal of the string (Python escaping)",
                        KNOWN_STRING_KEY, st, r[3:])
            elif j is not None:
                ck.fail({"op": "prints", "codepoints": cps}, "printed String initialiser is another string", None, st, r[3:])
        else:
            ck.fail({"op": "prints", "codepoints": cps}, "no String initialiser printed", None, st, r)
    ck.compare("prints", sreqs, sreal, drv.ask(sreqs))
    ck.cover(evaluations=len(sreqs), distinct=(("prints", r) for r in sreqs), samples=[{"prints": sreqs[3], "real": sreal[3]}])
    # non-finite float / double values (modelled); finite ones are read back by the oracle only
    fl = []
    for proto, k, size, pats in (("F", "f", 4, [0x7f800000, 0xff800000, 0x7fc00000, 0xffc00000, 0x7f800001, 0x7fffffff]),
                                 ("D", "d", 8, [0x7ff0000000000000, 0xfff0000000000000, 0x7ff8000000000000,
                                                0xfff8000000000000, 0x7ff0000000000001, 0xffffffffffffffff]),
                                 ("D", "f", 4, [0x7f800000, 0x7fc00000]), ("F", "d", 8, [0xfff0000000000000, 0x7ff8000000000001])):
        for bits in pats:
            fl.append((proto, k, size, bits, True))
        for _ in range(20 if not ck.big else 2000):
            fl.append((proto, k, size, rng.getrandbits(8 * size), False))
    for proto, k, size, bits, special in fl:
        v = struct.unpack("<f" if size == 4 else "<d", bits.to_bytes(size, "little"))[0]
        r = real_print(proto, v)
        finite = v == v and v not in (math.inf, -math.inf)
        if not finite:
            reqs.append("print %s %s %d" % (proto, k, bits)); real.append(r)
        if (proto, k) in (("F", "f"), ("D", "d")):
            exp = ("f:" if k == "f" else "d:") + ("nan" if v != v else str(bits))
            if not (r.startswith("ok ") and literal_matches(proto, exp, r[3:])):
                ck.fail({"op": "print", "proto": proto, "value": None, "bits": bits, "size": size, "expected": exp},
                        "printed float initialiser does not denote the value", None, exp, r)
    ck.compare("print", reqs, real, drv.ask(reqs))
    ck.cover(evaluations=len(reqs), distinct=(("print", r) for r in reqs),
             samples=[{"print": reqs[i], "real": real[i]} for i in (0, len(reqs) // 2)])

    # ---- statics: whole DEX files
    stats = _Stats()
    ndex = 1500 if ck.big else 60
    pairs = []
    seen = set()
    for k in range(ndex):
        b, data, spec = build_dex(rng, dexasm, rng.randrange(1, 4), overlong=(k % 10 == 9))
        n0 = len(pairs)
        check_dex(ck, dex, pairs, b, data, spec, dexasm, stats)
        for cdef in b.classes:
            for f in cdef.static_fields:
                if f.init is not None:
                    seen.add(("static", f.type, repr(f.init)))
        stats["dex_files"] += 1
        stats["dex_bytes"] += len(data)
    reqs = [p[0] for p in pairs]
    ck.compare("statics", reqs, [p[1] for p in pairs], drv.ask(reqs))
    ck.cover(evaluations=stats["static_fields"] + stats["annotations"], distinct=seen,
             samples=[{"statics": pairs[i][0], "real": pairs[i][1]} for i in (0, len(pairs) // 2) if pairs],
             dist=dict(stats))
    ck.assumptions.append("cm.get_raw_string/get_type/get_field/get_method are parameters of the model (stub names in the "
                          "evalue stream; for DEX files the resolved items are mapped back to indices through the writer's pools)")
    ck.assumptions.append("Python recursion limit is not modelled (nesting depth of generated values <= 40)")
    ck.assumptions.append("struct.unpack('<f'/'<d') is modelled as the identity on bit patterns; NaNs are compared as 'nan'")
    ck.partial.append("'the decompiler prints the same value' is PROVED for byte, short, char, int, long, boolean, null, "
                      "non-finite float/double (print_denotes_*, static_init_print) and for EVERY String value "
                      "(print_denotes_string, through writer.string()). NOT proved: FINITE float/double initialisers (text "
                      "comes from Python repr, not modelled in Lean; read back by the Java-literal oracle on the real code "
                      "only). type/field/method/enum/array/annotation-valued initialisers are printed with Python str() "
                      "(a descriptor, a list repr, an object repr): they denote no Java value, nothing is claimed.")


def replay(ck: Check, rp):
    import harness.dexasm as dexasm
    dex, cm = _real()
    c = rp.get("case") or rp.get("first_divergence", {})
    print("replay", json.dumps(c)[:2000])
    if "request" in c:
        print("real:", c.get("real"), "model:", c.get("model"))
        w = c["request"].split()
        if w[0] == "evalue":
            c = {"op": "evalue", "hex": w[1]}
        else:
            return 0
    exp, got = run_case(ck, dex, cm, dexasm, c, report=False)
    print("expected:", exp)
    print("observed:", got)
    return 0
