"""C34 — APK file access returns the archive's entries (DESIGN.md section 6, C34).

Registered against the tree with fixes/C34-dex-name-regex.diff applied (defect D17).

P: gen/apkregex.py pins the two regex literals + the matching method; lean/AgVerif/Props/C34.lean.
T: real `APK(raw, raw=True, skip_analysis=True)` on archives written by harness/zipwriter.py vs the
   Lean model AgVerif.ApkFiles (driver drv_C34): streams `dexname` (one name per request, the real
   side reads get_dex_names()/is_multidex() of archives holding the generated names), `dexname-stub`
   (the real methods over a stub name list, no zip reader: reaches the empty name) and `apkfiles`
   (whole archives: get_files, get_dex_names, is_multidex, get_all_dex, get_file of present and
   absent names).
S: independent oracle = Python's `zipfile` on the same bytes + what the generator put in + the
   specification predicate written directly on strings (no `re`, nothing shared with the model).

A case (corpus/C34/*.json, replay files) is {"entries": [[name, datahex, compress], ...], "queries": [name, ...]}.
"""
from __future__ import annotations

import glob
import io
import json
import os
import unicodedata
import zipfile

from harness.fw import Check, Driver, ToolFailure, VERIF
from harness.zipwriter import write_zip

DIGITS = "0123456789"


# ------------------------------------------------------------------ independent specification
def spec(n: str) -> bool:
    """`classes`, zero or more ASCII digits, `.dex`, nothing else (root level only)."""
    return (n.startswith("classes") and n.endswith(".dex") and len(n) >= 11
            and all(c in DIGITS for c in n[7:-4]))


# ------------------------------------------------------------------ protocol
def enc_name(n: str) -> str:
    return ".".join(str(ord(c)) for c in n) if n else "-"


def enc_data(b: bytes) -> str:
    return b.hex() if b else "-"


def show_list(xs) -> str:
    xs = list(xs)
    return ",".join(xs) if xs else "-"


def _real():
    from androguard.core.apk import APK, FileNotPresent
    return APK, FileNotPresent


def res_of(fn, FileNotPresent):
    try:
        v = fn()
    except FileNotPresent:
        return "missing", None
    except Exception as e:  # noqa
        return "other:" + type(e).__name__, None
    if not isinstance(v, (bytes, bytearray)):
        return "other-type:" + type(v).__name__, None
    return "ok:" + enc_data(bytes(v)), bytes(v)


def observe(case):
    """run the real code on one case -> dict of everything observed (plain Python values)"""
    APK, FileNotPresent = _real()
    entries = [(n, bytes.fromhex(h), bool(c)) for n, h, c in case["entries"]]
    raw = write_zip(entries)
    obs = {"raw": raw, "entries": entries}
    try:
        a = APK(raw, raw=True, skip_analysis=True)
    except Exception as e:  # noqa
        obs["ctor"] = "other:" + type(e).__name__
        return obs
    try:
        obs["files"] = list(a.get_files())
        obs["dex"] = list(a.get_dex_names())
        obs["multi"] = a.is_multidex()
    except Exception as e:  # noqa
        obs["ctor"] = "other:" + type(e).__name__
        return obs
    alld, blobs = [], []
    try:
        for b in a.get_all_dex():
            if isinstance(b, (bytes, bytearray)):
                alld.append("ok:" + enc_data(bytes(b))); blobs.append(bytes(b))
            else:
                alld.append("other-type:" + type(b).__name__); blobs.append(None)
    except FileNotPresent:
        alld.append("missing"); blobs.append(None)
    except Exception as e:  # noqa
        alld.append("other:" + type(e).__name__); blobs.append(None)
    obs["all"], obs["all_blobs"] = alld, blobs
    obs["get"] = {}
    for q in [n for n, _, _ in entries] + list(case.get("queries", [])):
        obs["get"][q] = res_of(lambda: a.get_file(q), FileNotPresent)
    return obs


def request_of(case) -> str:
    es = " ".join(f"{enc_name(n)}:{enc_data(bytes.fromhex(h))}" for n, h, _ in case["entries"])
    qs = [n for n, _, _ in case["entries"]] + list(case.get("queries", []))
    return ("apk " + es + " ? " + " ".join(enc_name(q) for q in qs)).replace("  ", " ")


def real_line(case, obs) -> str:
    if "ctor" in obs:
        return obs["ctor"]
    qs = [n for n, _, _ in case["entries"]] + list(case.get("queries", []))
    return (f"files={show_list(enc_name(n) for n in obs['files'])} "
            f"dex={show_list(enc_name(n) for n in obs['dex'])} "
            f"multi={'1' if obs['multi'] is True else '0' if obs['multi'] is False else repr(obs['multi'])} "
            f"all={show_list(obs['all'])} "
            f"get={show_list(obs['get'][q][0] for q in qs)}")


def oracle(case, obs):
    """independent oracle: list of (what, expected, observed) the real code got wrong"""
    bad = []
    if "ctor" in obs:
        return [("APK raised on a well-formed archive", "an APK object", obs["ctor"])]
    entries = obs["entries"]
    names = [n for n, _, _ in entries]
    content = {n: d for n, d, _ in entries}
    zf = zipfile.ZipFile(io.BytesIO(obs["raw"]))
    znames = zf.namelist()
    if znames != names:       # the writer and zipfile must agree, else the case itself is unusable: no verdict
        raise ToolFailure(f"zipfile lists other names than harness/zipwriter.py wrote: {names!a} vs {znames!a}")
    if obs["files"] != znames:
        bad.append(("get_files differs from the archive's entry names", znames, obs["files"]))
    for n in names:
        zdata = zf.read(n)
        if zdata != content[n]:
            raise ToolFailure(f"zipfile reads other bytes than harness/zipwriter.py wrote for {n!a}")
        line, got = obs["get"][n]
        if got != zdata:
            bad.append((f"get_file({n!r}) does not return the entry's uncompressed content",
                        "ok:" + enc_data(zdata), line))
    for q in case.get("queries", []):
        if q in content:
            continue
        line, _ = obs["get"][q]
        if line != "missing":
            bad.append((f"get_file({q!r}) of a missing entry does not raise FileNotPresent", "missing", line))
    want = [n for n in znames if spec(n)]
    if obs["dex"] != want:
        bad.append(("get_dex_names is not exactly the root-level classes[0-9]*.dex entries in archive order",
                    want, obs["dex"]))
    if obs["all_blobs"] != [content[n] for n in want]:
        bad.append(("get_all_dex does not yield the contents of the DEX entries in archive order",
                    ["ok:" + enc_data(content[n]) for n in want], obs["all"]))
    if obs["multi"] is not (len(want) > 1):
        bad.append(("is_multidex is not (number of DEX entries > 1)", len(want) > 1, obs["multi"]))
    return bad


def small(case):
    """the case as it goes into a replay file"""
    return {"entries": [[n, h, bool(c)] for n, h, c in case["entries"]], "queries": list(case.get("queries", []))}


def run_case(ck: Check, case, reqs, reals):
    obs = observe(case)
    reqs.append(request_of(case))
    reals.append(real_line(case, obs))
    bad = oracle(case, obs)
    for what, exp, got in bad[:1]:
        ck.fail(small(case), what, None, exp, got)
    return obs, bad


# ------------------------------------------------------------------ generators
LOOKALIKES = ["classesXdex", "classes/dex", "classes.dex\n", "classes٣.dex", "classes３.dex",
              "classes².dex", "Classes.dex", "classes.dex ", " classes.dex", "\nclasses.dex",
              "classes.DEX", "classes-1.dex", "classes1.dex\n", "classes1xdex", "a/classes.dex",
              "classes.dex/x", "xclasses.dex", "classes.dexx", "classes..dex", "classes1.2.dex",
              "classe.dex", "classes.de", "classes", ".dex", "classes1", "classes+1.dex", "classes 1.dex",
              "classes2/dex", "classes\t.dex", "classes.dex\r", "classes.dex\r\n", "classes2.dex\n",
              "/classes.dex", "./classes.dex", "assets/classes2.dex", "classes/1.dex", "classes.dex/",
              "classes_dex", "classes:dex", "classes\\.dex", "classes1e3.dex", "classes0x1.dex",
              "classes١٢.dex", "classes१.dex", "classes.dex.bak", "classes.odex", "class.dex", "classes.dex2"]


def name_stream(ck: Check):
    rng = ck.rng
    out = []
    add = out.append
    add("classes.dex")
    for k in range(0, 130):
        add(f"classes{k}.dex")
    for k in (255, 256, 999, 1000, 1234, 9999, 10000, 65535, 123456789, 10 ** 20):
        add(f"classes{k}.dex")
    for z in ("0", "00", "000", "01", "007", "0010", "00000000"):
        add(f"classes{z}.dex")
    for _ in range(300 if ck.quick else 3000):
        add("classes" + "".join(rng.choice(DIGITS) for _ in range(rng.randrange(0, 6))) + ".dex")
    out.extend(LOOKALIKES)
    # one character in place of the dot / in the digit position / appended / prepended
    chars = [chr(i) for i in range(1, 0x250)]
    chars += [chr(i) for i in range(0x250, 0x30000) if unicodedata.category(chr(i)) in ("Nd", "No", "Nl")]
    chars += [" ", " ", "​", "﻿", "　", "．", "․", "\U0001d7d8", "\U0001f600"]
    for c in chars:
        add("classes" + c + "dex")
        add("classes" + c + ".dex")
    for c in chars[:0x180]:
        add("classes1" + c + "dex")
        add("classes" + c + "1.dex")
        add("classes1" + c + ".dex")
        add("classes.dex" + c)
        add(c + "classes.dex")
        add("classes2.dex" + c)
    base = ["classes.dex", "classes2.dex", "classes10.dex", "classes007.dex"]
    for b in base:
        for i in range(len(b)):
            add(b[:i] + b[i + 1:])                    # deletion
            add(b[:i] + b[i] + b[i:])                 # duplication
            add(b[:i] + b[i].upper() + b[i + 1:])     # case
            if i + 1 < len(b):
                add(b[:i] + b[i + 1] + b[i] + b[i + 2:])   # transposition
        for d in ("a/", "/", "./", "../", "res/raw/", "classes/", "classes.dex/", "ü/", "\n"):
            add(d + b)
        for s in ("/", "/x", "x", ".dex", ".", "\n", " ", "ü"):
            add(b + s)
    alpha = "clase.dx0123456789/X\n C٣"
    for _ in range(1500 if ck.quick else 40000):
        if rng.random() < 0.5:
            add("".join(rng.choice(alpha) for _ in range(rng.randrange(0, 16))))
        else:
            b = list(rng.choice(base + ["classes1234.dex"]))
            for _ in range(rng.randrange(1, 3)):
                op = rng.randrange(3)
                i = rng.randrange(len(b) + 1)
                if op == 0 and b:
                    b[min(i, len(b) - 1)] = rng.choice(alpha)
                elif op == 1:
                    b.insert(i, rng.choice(alpha))
                elif b:
                    del b[min(i, len(b) - 1)]
            add("".join(b))
    seen, uniq = set(), []
    for n in out:
        if n not in seen and "\x00" not in n:
            seen.add(n); uniq.append(n)
    return uniq


REGULAR = ["AndroidManifest.xml", "resources.arsc", "res/layout/main.xml", "META-INF/MANIFEST.MF",
           "META-INF/CERT.RSA", "lib/arm64-v8a/libfoo.so", "assets/ünï/文件.txt", "assets/classes.dex",
           "res/", "assets/", "kotlin/kotlin.kotlin_builtins", "résumé.txt", "Ω", "a b/c d.txt",
           "assets/Привет.bin", "assets/\U0001f600.png", "classes.jar", "lib/classes2.dex", "dex",
           "res/raw/classes10.dex", "classes", "okhttp3/internal/publicsuffix/NOTICE"]
DEXES = ["classes.dex", "classes2.dex", "classes3.dex", "classes4.dex", "classes5.dex", "classes10.dex",
         "classes11.dex", "classes1.dex", "classes0.dex", "classes02.dex", "classes007.dex", "classes100.dex",
         "classes9.dex", "classes20.dex", "classes99999.dex"]


def gen_data(rng):
    r = rng.random()
    if r < 0.18:
        n = 0
    elif r < 0.45:
        n = rng.randrange(1, 17)
    elif r < 0.8:
        n = rng.randrange(17, 300)
    else:
        n = rng.randrange(300, 2001)
    k = rng.randrange(4)
    if k == 0:
        return rng.randbytes(n)                                   # incompressible
    if k == 1:
        return (bytes([rng.randrange(256)]) * n)                  # one byte repeated
    if k == 2:
        return (b"dex\n035\x00" + rng.randbytes(8) * (n // 8 + 1))[:n]
    return ("lorem ipsum ü " * (n // 10 + 1)).encode()[:n]


def rand_name(rng):
    alpha = "abcXYZ019_-. /üß文\n"
    n = "".join(rng.choice(alpha) for _ in range(rng.randrange(1, 14)))
    return n


def gen_archive(rng):
    nent = rng.choice((0, 1, 2, 3, 4, 5, 6, 7, 8, 9, 10, 11, 12))
    ndex = min(nent, rng.choice((0, 0, 1, 1, 2, 2, 3, 4, 5)))
    names = []
    pool = list(DEXES)
    rng.shuffle(pool)
    if ndex and rng.random() < 0.25:
        pool = ["classes10.dex", "classes2.dex"] + [p for p in pool if p not in ("classes10.dex", "classes2.dex")]
    names += pool[:ndex]
    if rng.random() < 0.3 and len(names) < nent and ndex:
        names.append("classes" + "".join(rng.choice(DIGITS) for _ in range(rng.randrange(1, 5))) + ".dex")
    while len(names) < nent:
        r = rng.random()
        if r < 0.3:
            c = rng.choice(LOOKALIKES)
        elif r < 0.7:
            c = rng.choice(REGULAR)
        else:
            c = rand_name(rng)
        if c and c not in names and "\x00" not in c:
            names.append(c)
    # archive order: usually random (DEX names in non-numeric order, between other files)
    names = list(dict.fromkeys(names))
    if rng.random() < 0.85:
        rng.shuffle(names)
    entries = []
    for n in names:
        d = b"" if n.endswith("/") else gen_data(rng)
        entries.append([n, d.hex(), rng.random() < 0.5])
    # absent names: random and near-miss
    qs = []
    cand = [rand_name(rng), "classes.dex", "classes2.dex", ""]
    if names:
        m = rng.choice(names)
        cand += [m + "x", m[:-1], m.upper(), m.lower(), m + "/", "/" + m, m + "\n", m.split("/")[0], m.split("/")[0] + "/"]
    rng.shuffle(cand)
    for q in cand:
        if q not in names and q not in qs and "\x00" not in q:
            qs.append(q)
        if len(qs) == 2:
            break
    return {"entries": entries, "queries": qs}


# ------------------------------------------------------------------ the check
def corpus_cases():
    out = []
    for p in sorted(glob.glob(os.path.join(VERIF, "corpus", "C34", "*.json"))):
        c = json.load(open(p, encoding="utf-8"))
        out.append((os.path.basename(p), {"entries": c["entries"], "queries": c.get("queries", [])}))
    return out


def stub_apk(names):
    APK, _ = _real()

    class _Zip:
        def __init__(self, ns):
            self.ns = list(ns)

        def namelist(self):
            return list(self.ns)

    o = APK.__new__(APK)
    o.zip = _Zip(names)
    return o


def run(ck: Check):
    APK, FileNotPresent = _real()
    ck.run_gen("apkregex")
    ck.prove(exes=["drv_C34"])
    drv = Driver("drv_C34")
    ck.rule = ("dexname: the accepted forms (classes.dex, classes<k>.dex for k<130 and larger, leading zeros, random 0-5 digits), "
               "a list of look-alikes, every character U+0001..U+024F and every Unicode Nd/No/Nl character in place of the dot and "
               "in the digit position, 384 characters appended/prepended/around a digit, deletions/duplications/case/transpositions "
               "of four valid names, directory prefixes and suffixes, seeded random strings over a confusable alphabet and random "
               "edits of valid names; each name is an entry of a generated archive read by the real APK (dex membership) and, "
               "with classes.dex, of a two-entry archive (multidex flag). apkfiles: seeded archives of 0-12 distinct entries "
               "(stored/deflated, 0-2000 bytes: random, repeated, dex-like, text), 0-5 DEX names in random archive order, look-alikes, "
               "nested and non-ASCII names, 2 absent queries (random and near-miss). distinct = distinct name (dexname) / "
               "distinct (names, sizes, methods) tuple (apkfiles); non-trivial = archives with at least one entry")
    # ---- corpus first (witnesses of D17)
    reqs, reals = [], []
    ncorp = 0
    for fname, case in corpus_cases():
        run_case(ck, case, reqs, reals)
        ncorp += 1
    if reqs:
        ck.compare("corpus", reqs, reals, drv.ask(reqs))
    ck.cover(evaluations=ncorp, dist={"corpus_cases": ncorp})

    # ---- (a) names
    names = name_stream(ck)
    want = {n: spec(n) for n in names}
    # a.1 real membership: archives holding the names as entries (chunks of 800; the empty name cannot be an entry)
    real_dex = {}
    arch_names = [n for n in names if n]
    CH = 800
    for i in range(0, len(arch_names), CH):
        chunk = arch_names[i:i + CH]
        raw = write_zip([(n, b"", False) for n in chunk])
        a = APK(raw, raw=True, skip_analysis=True)
        files = list(a.get_files())
        z = zipfile.ZipFile(io.BytesIO(raw)).namelist()
        if z != chunk:
            raise ToolFailure("zipfile lists other names than harness/zipwriter.py wrote (name stream)")
        if files != chunk:
            # find the first name that is not listed as written and report it alone
            j = next((k for k in range(len(chunk)) if k >= len(files) or files[k] != chunk[k]), 0)
            case = {"entries": [[chunk[j], "", False]], "queries": []}
            obs = observe(case)
            b = oracle(case, obs)
            if b:
                ck.fail(small(case), b[0][0], None, b[0][1], b[0][2])
            else:
                ck.fail({"entries": [[n, "", False] for n in chunk[max(0, j - 1):j + 2]], "queries": []},
                        "get_files differs from the archive's entry names (inside a large archive)", None,
                        z[max(0, j - 1):j + 2], files[max(0, j - 1):j + 2])
        got = list(a.get_dex_names())
        gs = set(got)
        for n in chunk:
            real_dex[n] = n in gs
        if got != [n for n in chunk if want[n]]:
            for n in chunk:
                if real_dex[n] != want[n]:
                    ck.fail({"entries": [[n, "", False]], "queries": []},
                            "get_dex_names lists a name that is not classes[0-9]*.dex" if real_dex[n]
                            else "get_dex_names omits a root-level classes[0-9]*.dex entry",
                            None, [n] if want[n] else [], [n] if real_dex[n] else [])
    # a.2 multidex flag per name: archive [name, classes.dex] (or classes2.dex when the name is classes.dex)
    real_multi = {}
    for n in arch_names:
        other = "classes.dex" if n != "classes.dex" else "classes2.dex"
        a = APK(write_zip([(n, b"", False), (other, b"\x01", True)]), raw=True, skip_analysis=True)
        m = a.is_multidex()
        real_multi[n] = m
        if m is not want[n]:
            ck.fail({"entries": [[n, "", False], [other, "01", True]], "queries": []},
                    "is_multidex is not (number of DEX entries > 1)", None, want[n], m)
    reqs = [f"dex {enc_name(n)}" for n in arch_names] + [f"multi {enc_name(n)}" for n in arch_names]
    reals = ["1" if real_dex[n] else "0" for n in arch_names] + ["1" if real_multi[n] else "0" for n in arch_names]
    ck.compare("dexname", reqs, reals, drv.ask(reqs))
    # a.3 the real methods over a stub name list (no zip reader): single names incl. the empty one, and name lists
    reqs, reals = [], []
    stub_names = [""] + names
    for n in stub_names:
        o = stub_apk([n, "classes.dex"] if n != "classes.dex" else [n, "classes2.dex"])
        d = list(o.get_dex_names())
        reqs.append("names " + " ".join(enc_name(x) for x in o.zip.ns))
        reals.append(f"dex={show_list(enc_name(x) for x in d)} multi={'1' if o.is_multidex() else '0'}")
        if n == "" and (d != ["classes.dex"] or o.is_multidex()):
            ck.fail({"entries": [["", "", False], ["classes.dex", "", False]], "queries": [], "stub": True},
                    "the empty name counts as a DEX name", None, ["classes.dex"], d)
    rng = ck.rng
    for _ in range(400 if ck.quick else 5000):
        ns = [rng.choice(names) if rng.random() < 0.6 else rng.choice(DEXES) for _ in range(rng.randrange(0, 7))]
        ns = [x for x in dict.fromkeys(ns)]
        o = stub_apk(ns)
        reqs.append(("names " + " ".join(enc_name(x) for x in ns)).strip())
        reals.append(f"dex={show_list(enc_name(x) for x in o.get_dex_names())} multi={'1' if o.is_multidex() else '0'}")
    ck.compare("dexname-stub", reqs, reals, drv.ask(reqs))
    nacc = sum(1 for n in names if want[n])
    ck.cover(evaluations=2 * len(arch_names) + len(reqs), distinct=(("n", n) for n in names),
             samples=[{"name": n, "spec": want[n], "get_dex_names": real_dex[n], "multidex_with_classes.dex": real_multi[n]}
                      for n in (arch_names[0], "classes٣.dex", "classes.dex\n", arch_names[-1])],
             dist={"names": len(names), "names_accepted_by_spec": nacc, "names_rejected_by_spec": len(names) - nacc,
                   "names_non_ascii": sum(1 for n in names if any(ord(c) > 127 for c in n)),
                   "names_with_slash": sum(1 for n in names if "/" in n),
                   "names_with_newline": sum(1 for n in names if "\n" in n)})

    # ---- (b) archives
    narch = 1500 if ck.quick else 30000
    reqs, reals = [], []
    dist = {"archives": 0, "entries_stored": 0, "entries_deflated": 0, "entries_empty": 0, "entries_ge_300_bytes": 0,
            "archives_multidex": 0, "archives_dex_out_of_numeric_order": 0, "archives_with_lookalike": 0,
            "archives_with_non_ascii_name": 0, "archives_with_nested_name": 0, "absent_queries": 0}
    hist_e, hist_d = {}, {}
    keys = []
    samples = []
    for i in range(narch):
        case = gen_archive(rng)
        obs, bad = run_case(ck, case, reqs, reals)
        es = case["entries"]
        nm = [e[0] for e in es]
        dn = [n for n in nm if spec(n)]
        dist["archives"] += 1
        dist["entries_stored"] += sum(1 for e in es if not e[2])
        dist["entries_deflated"] += sum(1 for e in es if e[2])
        dist["entries_empty"] += sum(1 for e in es if not e[1])
        dist["entries_ge_300_bytes"] += sum(1 for e in es if len(e[1]) >= 600)
        dist["archives_multidex"] += len(dn) > 1
        nums = [int(n[7:-4] or "1") for n in dn]
        dist["archives_dex_out_of_numeric_order"] += nums != sorted(nums)
        dist["archives_with_lookalike"] += any(n in LOOKALIKES for n in nm)
        dist["archives_with_non_ascii_name"] += any(ord(c) > 127 for n in nm for c in n)
        dist["archives_with_nested_name"] += any("/" in n for n in nm)
        dist["absent_queries"] += len(case["queries"])
        hist_e[len(es)] = hist_e.get(len(es), 0) + 1
        hist_d[len(dn)] = hist_d.get(len(dn), 0) + 1
        if es:
            keys.append(("a", tuple(nm), tuple(len(e[1]) for e in es), tuple(e[2] for e in es)))
        if i in (3, narch // 2, narch - 1):
            samples.append({"names": nm, "sizes": [len(e[1]) // 2 for e in es], "deflated": [e[2] for e in es],
                            "queries": case["queries"], "real": reals[-1][:300]})
    ck.compare("apkfiles", reqs, reals, drv.ask(reqs))
    dist["entries_per_archive"] = {str(k): v for k, v in sorted(hist_e.items())}
    dist["dex_names_per_archive"] = {str(k): v for k, v in sorted(hist_d.items())}
    ck.cover(evaluations=narch, distinct=keys, samples=samples, dist=dist)

    ck.assumptions += [
        "reading the zip container (apkInspector.headers.ZipEntry, zlib inflate) is modelled as an abstract entry list, "
        "not verified; it is tied to Python's zipfile and to the bytes the independent writer harness/zipwriter.py put in "
        "by the correspondence/oracle on generated archives only",
        "entry names are distinct, valid UTF-8 (flag bit 11 set when non-ASCII), non-empty and contain no NUL; "
        "no zip64, data descriptors, extra fields, comments or encrypted entries",
        "Python's zipfile is the oracle for what the archive contains; the specification predicate is written on str directly",
        "CPython's re engine is modelled by the hand compilation of the two patterns (pinned by regex_pinned, "
        "checked per name by the dexname streams)",
    ]
    ck.partial.append("archive reading (apkInspector) is tied by correspondence with zipfile only, not proved")
    ck.notes.append("registered against the tree with fixes/C34-dex-name-regex.diff applied (D17: unescaped dot, "
                    "`$` before a final newline, Unicode \\d)")


def replay(ck: Check, rp):
    case = rp.get("case")
    if case is None:
        fd = rp.get("first_divergence", {})
        print("replay (correspondence divergence)", json.dumps(fd, ensure_ascii=True))
        return 0
    print("replay case:", json.dumps(case, ensure_ascii=True))
    if case.get("stub"):
        o = stub_apk([e[0] for e in case["entries"]])
        d = list(o.get_dex_names())
        print("real (stub name list): get_dex_names =", [ascii(x) for x in d], "is_multidex =", o.is_multidex())
        print("spec:                 dex names     =", [ascii(n) for n in o.zip.ns if spec(n)])
        return 1 if d != [n for n in o.zip.ns if spec(n)] else 0
    obs = observe(case)
    print("real :", real_line(case, obs))
    names = [e[0] for e in case["entries"]]
    want = [n for n in names if spec(n)]
    print("spec : files =", [ascii(n) for n in names], "dex =", [ascii(n) for n in want], "multi =", len(want) > 1)
    bad = oracle(case, obs)
    for what, exp, got in bad:
        print("FAIL :", what, "| expected", ascii(exp), "| observed", ascii(got))
    if not bad:
        print("ok   : the real code satisfies the property on this case")
    try:
        print("model:", Driver("drv_C34").ask([request_of(case)])[0])
    except Exception as e:  # noqa
        print("model: (driver unavailable)", e)
    return 1 if bad else 0
