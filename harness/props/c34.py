"""C34 — APK file access returns the archive's entries (DESIGN.md section 6, C34).

Registered against the tree with fixes/C34-dex-name-regex.diff applied (defect D17).

P: gen/apkregex.py pins the two regex literals + the matching method; lean/AgVerif/Props/C34.lean.
T: real `APK(raw, raw=True, skip_analysis=True)` on archives written by harness/zipwriter.py vs the
   Lean model AgVerif.ApkFiles (driver drv_C34): streams `dexname` (one name per request, the real
   side reads get_dex_names()/is_multidex() of archives holding the generated names), `dexname-stub`
   (the real methods over a stub name list, no zip reader: reaches the empty name) and `apkfiles`
   (whole archives: get_files, get_dex_names, is_multidex, get_all_dex, get_file of present and
   absent names).
S: independent oracle = Python's `zipfile` on the same bytes + what the generator put in + the
   specification predicate written directly on strings (no `re`, nothing shared with the model).

A case (corpus/C34/*.json, replay files) is {"entries": [[name, datahex, compress], ...], "queries": [name, ...]}.
"""
from __future__ import annotations

import contextlib
import glob
import inspect
import io
import re
import shutil
import tempfile
import json
import os
import unicodedata
import zipfile

from harness.fw import Check, Driver, ToolFailure, VERIF
from harness.zipwriter import write_zip

DIGITS = "0123456789"

# hand-modelled functions: a changed AST escalates the search (ck.pins_changed), it is not a verdict
PINS = [
    ("androguard/core/apk/__init__.py", "APK.__init__"),
    ("androguard/core/apk/__init__.py", "APK.get_files"),
    ("androguard/core/apk/__init__.py", "APK.get_file"),
    ("androguard/core/apk/__init__.py", "APK.get_dex_names"),
    ("androguard/core/apk/__init__.py", "APK.get_all_dex"),
    ("androguard/core/apk/__init__.py", "APK.is_multidex"),
    # other public APIs of the APK object that touch the archive (history stream vocabulary)
    ("androguard/core/apk/__init__.py", "APK.new_zip"),
    ("androguard/core/apk/__init__.py", "APK.get_files_types"),
    ("androguard/core/apk/__init__.py", "APK.files"),
    ("androguard/core/apk/__init__.py", "APK.get_files_crc32"),
    ("androguard/core/apk/__init__.py", "APK.get_files_information"),
    ("androguard/core/apk/__init__.py", "APK._get_crc32"),
    ("androguard/core/apk/__init__.py", "APK._get_file_magic_name"),
    ("androguard/core/apk/__init__.py", "APK._patch_magic"),
    ("androguard/core/apk/__init__.py", "APK.get_raw"),
    ("androguard/core/apk/__init__.py", "APK.get_dex"),
    ("androguard/core/apk/__init__.py", "APK.get_signature_names"),
    ("androguard/core/apk/__init__.py", "APK.get_certificate_der"),
    ("androguard/core/apk/__init__.py", "APK.__getstate__"),
    ("androguard/core/apk/__init__.py", "APK.__setstate__"),
]


# ------------------------------------------------------------------ CRC-32 suffix forging
def _crc_table():
    t = []
    for i in range(256):
        c = i
        for _ in range(8):
            c = (c >> 1) ^ 0xEDB88320 if c & 1 else c >> 1
        t.append(c)
    return t


_CRC_T = _crc_table()
_CRC_REV = {v >> 24: i for i, v in enumerate(_CRC_T)}


def crc_forge(prefix: bytes, target: int) -> bytes:
    """the 4 bytes s with zlib.crc32(prefix + s) == target (standard table reversal)"""
    import zlib
    v = target ^ 0xFFFFFFFF
    for _ in range(4):
        i = _CRC_REV[v >> 24]
        v = (((v ^ _CRC_T[i]) << 8) & 0xFFFFFFFF) | i
    s = (v ^ zlib.crc32(prefix) ^ 0xFFFFFFFF).to_bytes(4, "little")
    if zlib.crc32(prefix + s) != target:
        raise ToolFailure("crc_forge: forged suffix does not reach the target CRC-32")
    return s


# ------------------------------------------------------------------ independent specification
def spec(n: str) -> bool:
    """`classes`, zero or more ASCII digits, `.dex`, nothing else (root level only)."""
    return (n.startswith("classes") and n.endswith(".dex") and len(n) >= 11
            and all(c in DIGITS for c in n[7:-4]))


# ------------------------------------------------------------------ protocol
def enc_name(n: str) -> str:
    return ".".join(str(ord(c)) for c in n) if n else "-"


def enc_data(b: bytes) -> str:
    return b.hex() if b else "-"


def show_list(xs) -> str:
    xs = list(xs)
    return ",".join(xs) if xs else "-"


def _real():
    from androguard.core.apk import APK, FileNotPresent
    return APK, FileNotPresent


def res_of(fn, FileNotPresent):
    try:
        v = fn()
    except FileNotPresent:
        return "missing", None
    except Exception as e:  # noqa
        return "other:" + type(e).__name__, None
    if not isinstance(v, (bytes, bytearray)):
        return "other-type:" + type(v).__name__, None
    return "ok:" + enc_data(bytes(v)), bytes(v)


def observe(case):
    """run the real code on one case -> dict of everything observed (plain Python values)"""
    APK, FileNotPresent = _real()
    entries = [(n, bytes.fromhex(h), bool(c)) for n, h, c in case["entries"]]
    raw = write_zip(entries)
    obs = {"raw": raw, "entries": entries}
    try:
        a = APK(raw, raw=True, skip_analysis=True)
    except Exception as e:  # noqa
        obs["ctor"] = "other:" + type(e).__name__
        return obs
    try:
        obs["files"] = list(a.get_files())
        obs["dex"] = list(a.get_dex_names())
        obs["multi"] = a.is_multidex()
    except Exception as e:  # noqa
        obs["ctor"] = "other:" + type(e).__name__
        return obs
    alld, blobs = [], []
    try:
        for b in a.get_all_dex():
            if isinstance(b, (bytes, bytearray)):
                alld.append("ok:" + enc_data(bytes(b))); blobs.append(bytes(b))
            else:
                alld.append("other-type:" + type(b).__name__); blobs.append(None)
    except FileNotPresent:
        alld.append("missing"); blobs.append(None)
    except Exception as e:  # noqa
        alld.append("other:" + type(e).__name__); blobs.append(None)
    obs["all"], obs["all_blobs"] = alld, blobs
    obs["get"] = {}
    for q in [n for n, _, _ in entries] + list(case.get("queries", [])):
        obs["get"][q] = res_of(lambda: a.get_file(q), FileNotPresent)
    return obs


def request_of(case) -> str:
    es = " ".join(f"{enc_name(n)}:{enc_data(bytes.fromhex(h))}" for n, h, _ in case["entries"])
    qs = [n for n, _, _ in case["entries"]] + list(case.get("queries", []))
    return ("apk " + es + " ? " + " ".join(enc_name(q) for q in qs)).replace("  ", " ")


def real_line(case, obs) -> str:
    if "ctor" in obs:
        return obs["ctor"]
    qs = [n for n, _, _ in case["entries"]] + list(case.get("queries", []))
    return (f"files={show_list(enc_name(n) for n in obs['files'])} "
            f"dex={show_list(enc_name(n) for n in obs['dex'])} "
            f"multi={'1' if obs['multi'] is True else '0' if obs['multi'] is False else repr(obs['multi'])} "
            f"all={show_list(obs['all'])} "
            f"get={show_list(obs['get'][q][0] for q in qs)}")


def oracle(case, obs):
    """independent oracle: list of (what, expected, observed) the real code got wrong"""
    bad = []
    if "ctor" in obs:
        return [("APK raised on a well-formed archive", "an APK object", obs["ctor"])]
    entries = obs["entries"]
    names = [n for n, _, _ in entries]
    content = {n: d for n, d, _ in entries}
    zf = zipfile.ZipFile(io.BytesIO(obs["raw"]))
    znames = zf.namelist()
    if znames != names:       # the writer and zipfile must agree, else the case itself is unusable: no verdict
        raise ToolFailure(f"zipfile lists other names than harness/zipwriter.py wrote: {names!a} vs {znames!a}")
    if obs["files"] != znames:
        bad.append(("get_files differs from the archive's entry names", znames, obs["files"]))
    for n in names:
        zdata = zf.read(n)
        if zdata != content[n]:
            raise ToolFailure(f"zipfile reads other bytes than harness/zipwriter.py wrote for {n!a}")
        line, got = obs["get"][n]
        if got != zdata:
            bad.append((f"get_file({n!r}) does not return the entry's uncompressed content",
                        "ok:" + enc_data(zdata), line))
    for q in case.get("queries", []):
        if q in content:
            continue
        line, _ = obs["get"][q]
        if line != "missing":
            bad.append((f"get_file({q!r}) of a missing entry does not raise FileNotPresent", "missing", line))
    want = [n for n in znames if spec(n)]
    if obs["dex"] != want:
        bad.append(("get_dex_names is not exactly the root-level classes[0-9]*.dex entries in archive order",
                    want, obs["dex"]))
    if obs["all_blobs"] != [content[n] for n in want]:
        bad.append(("get_all_dex does not yield the contents of the DEX entries in archive order",
                    ["ok:" + enc_data(content[n]) for n in want], obs["all"]))
    if obs["multi"] is not (len(want) > 1):
        bad.append(("is_multidex is not (number of DEX entries > 1)", len(want) > 1, obs["multi"]))
    return bad


def small(case):
    """the case as it goes into a replay file"""
    out = {"entries": [[n, h, bool(c)] for n, h, c in case["entries"]], "queries": list(case.get("queries", []))}
    for k in ("ops", "note", "dup"):
        if k in case:
            out[k] = case[k]
    return out


def run_case(ck: Check, case, reqs, reals):
    obs = observe(case)
    reqs.append(request_of(case))
    reals.append(real_line(case, obs))
    bad = oracle(case, obs)
    for what, exp, got in bad[:1]:
        ck.fail(small(case), what, None, exp, got)
    return obs, bad


# ------------------------------------------------------------------ generators
LOOKALIKES = ["classesXdex", "classes/dex", "classes.dex\n", "classes٣.dex", "classes３.dex",
              "classes².dex", "Classes.dex", "classes.dex ", " classes.dex", "\nclasses.dex",
              "classes.DEX", "classes-1.dex", "classes1.dex\n", "classes1xdex", "a/classes.dex",
              "classes.dex/x", "xclasses.dex", "classes.dexx", "classes..dex", "classes1.2.dex",
              "classe.dex", "classes.de", "classes", ".dex", "classes1", "classes+1.dex", "classes 1.dex",
              "classes2/dex", "classes\t.dex", "classes.dex\r", "classes.dex\r\n", "classes2.dex\n",
              "/classes.dex", "./classes.dex", "assets/classes2.dex", "classes/1.dex", "classes.dex/",
              "classes_dex", "classes:dex", "classes\\.dex", "classes1e3.dex", "classes0x1.dex",
              "classes١٢.dex", "classes१.dex", "classes.dex.bak", "classes.odex", "class.dex", "classes.dex2"]


def name_stream(ck: Check):
    rng = ck.rng
    out = []
    add = out.append
    add("classes.dex")
    for k in range(0, 130):
        add(f"classes{k}.dex")
    for k in (255, 256, 999, 1000, 1234, 9999, 10000, 65535, 123456789, 10 ** 20):
        add(f"classes{k}.dex")
    for z in ("0", "00", "000", "01", "007", "0010", "00000000"):
        add(f"classes{z}.dex")
    for _ in range(300 if ck.quick else 3000):
        add("classes" + "".join(rng.choice(DIGITS) for _ in range(rng.randrange(0, 6))) + ".dex")
    out.extend(LOOKALIKES)
    # one character in place of the dot / in the digit position / appended / prepended
    chars = [chr(i) for i in range(1, 0x250)]
    chars += [chr(i) for i in range(0x250, 0x30000) if unicodedata.category(chr(i)) in ("Nd", "No", "Nl")]
    chars += [" ", " ", "​", "﻿", "　", "．", "․", "\U0001d7d8", "\U0001f600"]
    for c in chars:
        add("classes" + c + "dex")
        add("classes" + c + ".dex")
    for c in chars[:0x180]:
        add("classes1" + c + "dex")
        add("classes" + c + "1.dex")
        add("classes1" + c + ".dex")
        add("classes.dex" + c)
        add(c + "classes.dex")
        add("classes2.dex" + c)
    base = ["classes.dex", "classes2.dex", "classes10.dex", "classes007.dex"]
    for b in base:
        for i in range(len(b)):
            add(b[:i] + b[i + 1:])                    # deletion
            add(b[:i] + b[i] + b[i:])                 # duplication
            add(b[:i] + b[i].upper() + b[i + 1:])     # case
            if i + 1 < len(b):
                add(b[:i] + b[i + 1] + b[i] + b[i + 2:])   # transposition
        for d in ("a/", "/", "./", "../", "res/raw/", "classes/", "classes.dex/", "ü/", "\n"):
            add(d + b)
        for s in ("/", "/x", "x", ".dex", ".", "\n", " ", "ü"):
            add(b + s)
    alpha = "clase.dx0123456789/X\n C٣"
    for _ in range(1500 if ck.quick else 40000):
        if rng.random() < 0.5:
            add("".join(rng.choice(alpha) for _ in range(rng.randrange(0, 16))))
        else:
            b = list(rng.choice(base + ["classes1234.dex"]))
            for _ in range(rng.randrange(1, 3)):
                op = rng.randrange(3)
                i = rng.randrange(len(b) + 1)
                if op == 0 and b:
                    b[min(i, len(b) - 1)] = rng.choice(alpha)
                elif op == 1:
                    b.insert(i, rng.choice(alpha))
                elif b:
                    del b[min(i, len(b) - 1)]
            add("".join(b))
    seen, uniq = set(), []
    for n in out:
        if n not in seen and "\x00" not in n:
            seen.add(n); uniq.append(n)
    return uniq


REGULAR = ["AndroidManifest.xml", "resources.arsc", "res/layout/main.xml", "META-INF/MANIFEST.MF",
           "META-INF/CERT.RSA", "lib/arm64-v8a/libfoo.so", "assets/ünï/文件.txt", "assets/classes.dex",
           "res/", "assets/", "kotlin/kotlin.kotlin_builtins", "résumé.txt", "Ω", "a b/c d.txt",
           "assets/Привет.bin", "assets/\U0001f600.png", "classes.jar", "lib/classes2.dex", "dex",
           "res/raw/classes10.dex", "classes", "okhttp3/internal/publicsuffix/NOTICE"]
DEXES = ["classes.dex", "classes2.dex", "classes3.dex", "classes4.dex", "classes5.dex", "classes10.dex",
         "classes11.dex", "classes1.dex", "classes0.dex", "classes02.dex", "classes007.dex", "classes100.dex",
         "classes9.dex", "classes20.dex", "classes99999.dex"]


def gen_data(rng):
    r = rng.random()
    if r < 0.18:
        n = 0
    elif r < 0.45:
        n = rng.randrange(1, 17)
    elif r < 0.8:
        n = rng.randrange(17, 300)
    else:
        n = rng.randrange(300, 2001)
    k = rng.randrange(4)
    if k == 0:
        return rng.randbytes(n)                                   # incompressible
    if k == 1:
        return (bytes([rng.randrange(256)]) * n)                  # one byte repeated
    if k == 2:
        return (b"dex\n035\x00" + rng.randbytes(8) * (n // 8 + 1))[:n]
    return ("lorem ipsum ü " * (n // 10 + 1)).encode()[:n]


def rand_name(rng):
    alpha = "abcXYZ019_-. /üß文\n"
    n = "".join(rng.choice(alpha) for _ in range(rng.randrange(1, 14)))
    return n


def gen_archive(rng):
    nent = rng.choice((0, 1, 2, 3, 4, 5, 6, 7, 8, 9, 10, 11, 12))
    ndex = min(nent, rng.choice((0, 0, 1, 1, 2, 2, 3, 4, 5)))
    names = []
    pool = list(DEXES)
    rng.shuffle(pool)
    if ndex and rng.random() < 0.25:
        pool = ["classes10.dex", "classes2.dex"] + [p for p in pool if p not in ("classes10.dex", "classes2.dex")]
    names += pool[:ndex]
    if rng.random() < 0.3 and len(names) < nent and ndex:
        names.append("classes" + "".join(rng.choice(DIGITS) for _ in range(rng.randrange(1, 5))) + ".dex")
    while len(names) < nent:
        r = rng.random()
        if r < 0.3:
            c = rng.choice(LOOKALIKES)
        elif r < 0.7:
            c = rng.choice(REGULAR)
        else:
            c = rand_name(rng)
        if c and c not in names and "\x00" not in c:
            names.append(c)
    # archive order: usually random (DEX names in non-numeric order, between other files)
    names = list(dict.fromkeys(names))
    if rng.random() < 0.85:
        rng.shuffle(names)
    entries = []
    for n in names:
        d = b"" if n.endswith("/") else gen_data(rng)
        entries.append([n, d.hex(), rng.random() < 0.5])
    # absent names: random and near-miss
    qs = []
    cand = [rand_name(rng), "classes.dex", "classes2.dex", ""]
    if names:
        m = rng.choice(names)
        cand += [m + "x", m[:-1], m.upper(), m.lower(), m + "/", "/" + m, m + "\n", m.split("/")[0], m.split("/")[0] + "/"]
    rng.shuffle(cand)
    for q in cand:
        if q not in names and q not in qs and "\x00" not in q:
            qs.append(q)
        if len(qs) == 2:
            break
    return {"entries": entries, "queries": qs}



def gen_collision_archive(rng):
    """an archive holding groups of entries that are equal in (CRC-32, size) but not in content (forged),
    plus the controls: identical duplicates, empty files, same size / different CRC, same CRC / different size"""
    import zlib
    entries, note = [], []
    used = set()

    def names_for(k, dex):
        if dex:
            pool = [d for d in DEXES if d not in used]
            rng.shuffle(pool)
            out = pool[:k]
        else:
            out = []
            while len(out) < k:
                c = rng.choice(REGULAR + [f"res/drawable-{rng.choice(['m','h','xh','xxh'])}dpi/icon{rng.randrange(9)}.bin",
                                          f"assets/blob{rng.randrange(99)}.bin"])
                if c not in used and c not in out and not c.endswith("/"):
                    out.append(c)
        used.update(out)
        return out

    def add(group, kind):
        for n, d in group:
            entries.append([n, d.hex(), rng.random() < 0.5])
        note.append(f"{kind}: " + ", ".join(ascii(n) for n, _ in group))

    for _ in range(rng.choice((1, 1, 1, 2))):
        k = rng.choice((2, 2, 3))
        size = rng.choice((5, 6, 8, 16, 33, 64, 200, 700))     # CRC-32 is a bijection on 4 bytes: no collision below 5
        base = rng.randbytes(size)
        group = [base]
        while len(group) < k:
            pre = rng.randbytes(size - 4)
            c = pre + crc_forge(pre, zlib.crc32(base))
            if c not in group:
                group.append(c)
        add(list(zip(names_for(k, rng.random() < 0.5), group)),
            f"forged (last 4 bytes computed) equal CRC-32 {zlib.crc32(base):08x} and equal size {size}, different content")
    for ctl in rng.sample(range(5), rng.randrange(1, 5)):
        dex = rng.random() < 0.3
        if ctl == 0:
            d = gen_data(rng)
            add([(n, d) for n in names_for(2, dex)], "control identical duplicates")
        elif ctl == 1:
            add([(n, b"") for n in names_for(rng.choice((2, 3)), dex)], "control empty files")
        elif ctl == 2:
            size = rng.choice((1, 4, 16, 100))
            a, b = rng.randbytes(size), rng.randbytes(size)
            if zlib.crc32(a) != zlib.crc32(b):
                add(list(zip(names_for(2, dex), (a, b))), "control same size, different CRC-32")
        elif ctl == 3:
            a = rng.randbytes(rng.choice((4, 9, 40)))
            pre = rng.randbytes(len(a) + rng.randrange(1, 9) - 4)
            add(list(zip(names_for(2, dex), (a, pre + crc_forge(pre, zlib.crc32(a))))),
                "control forged same CRC-32, different size")
        else:
            for n in names_for(rng.randrange(1, 4), False):
                entries.append([n, gen_data(rng).hex(), rng.random() < 0.5])
    rng.shuffle(entries)
    names = [e[0] for e in entries]
    qs = [q for q in (names[0] + "x", "classes.dex", rand_name(rng)) if q not in names and "\x00" not in q][:2]
    return {"entries": entries, "queries": qs, "note": note}



JUDGED = ("get_files", "get_file", "get_dex_names", "get_all_dex", "is_multidex")
_REFLECTED = None


def reflected_methods():
    """every other public method/property of the real APK class that can be called with its defaults or
    with an entry name for a parameter called filename/name: [(attribute, n_name_args, is_property)]"""
    global _REFLECTED
    if _REFLECTED is None:
        APK, _ = _real()
        out = []
        for name, fn in inspect.getmembers(APK, inspect.isfunction):
            if name.startswith("_") or name in JUDGED or name == "new_zip":
                continue
            req = [q.name for q in list(inspect.signature(fn).parameters.values())[1:]
                   if q.default is q.empty and q.kind not in (q.VAR_POSITIONAL, q.VAR_KEYWORD)]
            if all(r in ("filename", "name") for r in req):
                out.append((name, len(req), False))
        out += [(n, 0, True) for n, v in inspect.getmembers(APK) if isinstance(v, property) and not n.startswith("_")]
        _REFLECTED = sorted(out)
    return _REFLECTED


ARCHIVE_APIS = ("get_files_types", "get_files_crc32", "get_files_information", "get_raw", "get_dex", "files",
                "get_signature_names", "get_certificate_der", "get_android_manifest_axml", "get_android_resources")


def deleted_pattern(op, names):
    """the regular expression handed to new_zip(deleted_files=…): escaped EXISTING names (or one absent name)
    anchored with \\Z, so that match/fullmatch/search-with-^ all select exactly these names"""
    d = op["deleted"]
    if d is None:
        return None
    alts = [re.escape(n) for n in d] or [re.escape("no/such/entry\x01")]
    return ("^" if op.get("caret") else "") + "(?:" + "|".join(alts) + r")\Z"


def gen_side_ops(rng, case, k):
    """k ops from the wider vocabulary: new_zip with deletions/replacements, reflected public methods"""
    names = [e[0] for e in case["entries"]]
    refl = reflected_methods()
    out = []
    for _ in range(k):
        if rng.random() < 0.45:
            r = rng.random()
            if r < 0.2 or not names:
                d = None
            elif r < 0.3:
                d = []
            else:
                pick = [n for n in names if spec(n)] if rng.random() < 0.4 else names
                d = rng.sample(pick or names, min(len(pick or names), rng.choice((1, 1, 2, 3))))
            keep = [n for n in names if n not in (d or [])]
            new = {n: gen_data(rng)[:40].hex() for n in rng.sample(keep, min(len(keep), rng.choice((0, 0, 1, 2))))}
            out.append(["newzip", {"deleted": d, "new": new, "caret": rng.random() < 0.3}])
        else:
            pool = [m for m in refl if m[0] in ARCHIVE_APIS] if rng.random() < 0.6 else refl
            m = rng.choice(pool)
            args = [rng.choice(names) if names and rng.random() < 0.8 else "no/such/entry" for _ in range(m[1])]
            out.append(["call", m[0], args])
    return out

def gen_ops(rng, case, n, side=0):
    """a seeded interleaving of the five observers on ONE APK object; names repeat, some are missing"""
    names = [e[0] for e in case["entries"]]
    missing = list(case.get("queries", [])) or ["no/such/entry"]
    ops = []
    for _ in range(n):
        r = rng.random()
        if r < 0.6:
            if names and rng.random() < 0.85:
                q = rng.choice(names) if not ops or rng.random() < 0.7 else rng.choice([o[1] for o in ops if o[0] == "get"] or names)
            else:
                q = rng.choice(missing)
            ops.append(["get", q])
        else:
            ops.append([rng.choice(("files", "dexnames", "alldex", "alldex", "multidex"))])
    for so in gen_side_ops(rng, case, side):
        ops.insert(rng.randrange(len(ops) + 1), so)
    if names:
        # every entry is read at least twice, once in each direction
        ops += [["get", n] for n in names] + [["get", n] for n in reversed(names)]
    if side:
        ops += [[rng.choice(("files", "dexnames", "alldex", "multidex"))] for _ in range(2)] + [["files"], ["alldex"], ["multidex"]]
    return ops


LAST_CALLS = {}


def run_history(case):
    """the ops of case["ops"] on one real APK object. Returns (real_line, bad):
    real_line in the format of the `apk` request when every observation agrees with the first of its
    kind (history-independent), else `history-dependent …`; bad = oracle failures (zipfile content
    for that NAME, the name list, the spec predicate — at every point of the history)."""
    APK, FileNotPresent = _real()
    entries = [(n, bytes.fromhex(h), bool(c)) for n, h, c in case["entries"]]
    raw = write_zip(entries)
    zf = zipfile.ZipFile(io.BytesIO(raw))
    names = [n for n, _, _ in entries]
    if zf.namelist() != names:
        raise ToolFailure("zipfile lists other names than harness/zipwriter.py wrote (history stream)")
    zcontent = {n: zf.read(n) for n in names}
    for n, d, _ in entries:
        if zcontent[n] != d:
            raise ToolFailure(f"zipfile reads other bytes than harness/zipwriter.py wrote for {n!a}")
    want = [n for n in names if spec(n)]
    try:
        a = APK(raw, raw=True, skip_analysis=True)
    except Exception as e:  # noqa
        return "other:" + type(e).__name__, [("APK raised on a well-formed archive", "an APK object", type(e).__name__)]
    first, bad, dep = {}, [], None
    calls = LAST_CALLS
    calls.clear()

    def see(key, val, i):
        nonlocal dep
        if key in first and first[key] != val and dep is None:
            dep = f"history-dependent op#{i} {key}: first {first[key]!a} now {val!a}"
        first.setdefault(key, val)

    for i, op in enumerate(case["ops"]):
        try:
            if op[0] == "get":
                line, got = res_of(lambda: a.get_file(op[1]), FileNotPresent)
                see(("get", op[1]), line, i)
                if op[1] in zcontent:
                    if got != zcontent[op[1]]:
                        bad.append((f"op#{i} get_file({op[1]!r}) does not return THAT entry's content "
                                    f"(history: {sum(1 for o in case['ops'][:i] if o[0] in ('get', 'alldex'))} earlier reads)",
                                    "ok:" + enc_data(zcontent[op[1]]), line))
                elif line != "missing":
                    bad.append((f"op#{i} get_file({op[1]!r}) of a missing entry does not raise FileNotPresent", "missing", line))
            elif op[0] == "files":
                v = list(a.get_files()); see("files", v, i)
                if v != names:
                    bad.append((f"op#{i} get_files differs from the archive's entry names", names, v))
            elif op[0] == "dexnames":
                v = list(a.get_dex_names()); see("dex", v, i)
                if v != want:
                    bad.append((f"op#{i} get_dex_names is not the root-level classes[0-9]*.dex entries in archive order", want, v))
            elif op[0] == "alldex":
                v = [bytes(b) if isinstance(b, (bytes, bytearray)) else b for b in a.get_all_dex()]
                see("all", ["ok:" + enc_data(b) if isinstance(b, bytes) else "other-type" for b in v], i)
                if v != [zcontent[n] for n in want]:
                    bad.append((f"op#{i} get_all_dex does not yield the contents of the DEX entries in archive order",
                                ["ok:" + enc_data(zcontent[n]) for n in want],
                                ["ok:" + enc_data(b) if isinstance(b, bytes) else repr(b) for b in v]))
            elif op[0] == "newzip":
                o = op[1]
                tmpd = tempfile.mkdtemp(prefix="c34-newzip-")
                try:
                    outp = os.path.join(tmpd, "out.zip")
                    kw = {}
                    if o["new"]:
                        kw["new_files"] = {n: bytes.fromhex(h) for n, h in o["new"].items()}
                    a.new_zip(outp, deleted_pattern(o, names), **kw)
                    zo = zipfile.ZipFile(outp)
                    exp_names = [n for n in names if n not in (o["deleted"] or [])]
                    exp = {n: bytes.fromhex(o["new"][n]) if n in o["new"] else zcontent[n] for n in exp_names}
                    got_names = zo.namelist()
                    if got_names != exp_names:
                        bad.append((f"op#{i} new_zip(deleted={o['deleted']!r}): the written archive does not hold the "
                                    "original entries minus the deleted ones, in order", exp_names, got_names))
                    else:
                        for n in exp_names:
                            if zo.read(n) != exp[n]:
                                bad.append((f"op#{i} new_zip: entry {n!r} of the written archive has the wrong content",
                                            "ok:" + enc_data(exp[n]), "ok:" + enc_data(zo.read(n))))
                                break
                    zo.close()
                finally:
                    shutil.rmtree(tmpd, ignore_errors=True)
            elif op[0] == "call":
                try:
                    with contextlib.redirect_stdout(io.StringIO()):
                        v = getattr(a, op[1]) if not callable(getattr(type(a), op[1], None)) else getattr(a, op[1])(*op[2])
                        if inspect.isgenerator(v) or isinstance(v, (filter, map)):
                            v = list(v)
                    calls["ok"] = calls.get("ok", 0) + 1
                    if op[1] == "get_raw" and bytes(v) != raw:
                        bad.append((f"op#{i} get_raw does not return the archive's bytes", len(raw), len(v)))
                    if op[1] == "get_dex" and bytes(v) != zcontent.get("classes.dex", b""):
                        bad.append((f"op#{i} get_dex is not the content of classes.dex",
                                    "ok:" + enc_data(zcontent.get("classes.dex", b"")), "ok:" + enc_data(bytes(v))))
                    if op[1] == "get_files_crc32" and dict(v) != {n: zf.getinfo(n).CRC for n in names}:
                        bad.append((f"op#{i} get_files_crc32 is not the CRC-32 of every entry",
                                    {n: zf.getinfo(n).CRC for n in names}, dict(v)))
                    if op[1] in ("get_files_types", "files") and list(v) != names:
                        bad.append((f"op#{i} {op[1]} does not list every entry", names, list(v)))
                    if op[1] == "get_files_information" and [t[0] for t in v] != names:
                        bad.append((f"op#{i} get_files_information does not list every entry", names, [t[0] for t in v]))
                except Exception as e:  # noqa  (most reflected methods need an analysed manifest: raising is fine)
                    calls[type(e).__name__] = calls.get(type(e).__name__, 0) + 1
            else:
                v = a.is_multidex(); see("multi", v, i)
                if v is not (len(want) > 1):
                    bad.append((f"op#{i} is_multidex is not (number of DEX entries > 1)", len(want) > 1, v))
            if op[0] in ("newzip", "call"):
                label = f"after op#{i} {op[0]} {op[1] if op[0] == 'call' else 'deleted=' + repr(op[1]['deleted'])}: "
                v = list(a.get_files()); see("files", v, i)
                if v != names:
                    bad.append((label + "get_files no longer equals the archive's entry names", names, v))
                v = list(a.get_dex_names()); see("dex", v, i)
                if v != want:
                    bad.append((label + "get_dex_names is no longer the DEX entries of the archive", want, v))
                v = a.is_multidex(); see("multi", v, i)
                if v is not (len(want) > 1):
                    bad.append((label + "is_multidex is no longer (number of DEX entries > 1)", len(want) > 1, v))
                for n in names:
                    line, got = res_of(lambda: a.get_file(n), FileNotPresent)
                    see(("get", n), line, i)
                    if got != zcontent[n]:
                        bad.append((label + f"get_file({n!r}) no longer returns the entry's content",
                                    "ok:" + enc_data(zcontent[n]), line))
                        break
        except FileNotPresent:
            see((op[0], "raise"), "missing", i)
            bad.append((f"op#{i} {op[0]} raises FileNotPresent", "a value", "missing"))
        except Exception as e:  # noqa
            see((op[0], "raise"), type(e).__name__, i)
            bad.append((f"op#{i} {op[0]} raises", "a value", "other:" + type(e).__name__))
    if dep:
        return dep, bad
    qs = history_queries(case)
    # observations never made in this history are filled from one extra call each (after the history)
    files = first.get("files", list(a.get_files()))
    dex = first.get("dex", list(a.get_dex_names()))
    multi = first.get("multi", a.is_multidex())
    alld = first.get("all")
    if alld is None:
        alld = ["ok:" + enc_data(bytes(b)) for b in a.get_all_dex()]
    line = (f"files={show_list(enc_name(n) for n in files)} dex={show_list(enc_name(n) for n in dex)} "
            f"multi={'1' if multi is True else '0' if multi is False else repr(multi)} "
            f"all={show_list(alld)} get={show_list(first[('get', q)] for q in qs)}")
    return line, bad


def history_queries(case):
    return list(dict.fromkeys(o[1] for o in case["ops"] if o[0] == "get"))


def history_request(case) -> str:
    es = " ".join(f"{enc_name(n)}:{enc_data(bytes.fromhex(h))}" for n, h, _ in case["entries"])
    return ("apk " + es + " ? " + " ".join(enc_name(q) for q in history_queries(case))).replace("  ", " ")


def oracle_dup(case, obs):
    """independent oracle for a central directory that REPEATS names: every name is listed once at its first
    position, a name denotes the content of its LAST header (what zipfile.read returns and what the
    generator wrote last under that name); DEX listing / multidex count each name once"""
    bad = []
    if "ctor" in obs:
        return [("APK raised on a well-formed archive with repeated names", "an APK object", obs["ctor"])]
    entries = obs["entries"]
    names = [n for n, _, _ in entries]
    zf = zipfile.ZipFile(io.BytesIO(obs["raw"]))
    if zf.namelist() != names:
        raise ToolFailure("zipfile lists other names than harness/zipwriter.py wrote (duplicates stream)")
    uniq = list(dict.fromkeys(names))
    last = {}
    for n, d, _ in entries:
        last[n] = d
    if obs["files"] != uniq:
        bad.append(("get_files is not every entry name once, in first-occurrence order", uniq, obs["files"]))
    for n in uniq:
        zdata = zf.read(n)
        if zdata != last[n]:
            raise ToolFailure(f"zipfile does not read the LAST member written under the repeated name {n!a}")
        line, got = obs["get"][n]
        if got != zdata:
            bad.append((f"get_file({n!r}) is not the content of the last entry of that name (name occurs "
                        f"{names.count(n)} times)", "ok:" + enc_data(zdata), line))
    for q in case.get("queries", []):
        if q not in last and obs["get"][q][0] != "missing":
            bad.append((f"get_file({q!r}) of a missing entry does not raise FileNotPresent", "missing", obs["get"][q][0]))
    want = [n for n in uniq if spec(n)]
    if obs["dex"] != want:
        bad.append(("get_dex_names is not the DEX names of the archive, each once, in first-occurrence order", want, obs["dex"]))
    if obs["all_blobs"] != [last[n] for n in want]:
        bad.append(("get_all_dex does not yield the (last) content of each DEX name once",
                    ["ok:" + enc_data(last[n]) for n in want], obs["all"]))
    if obs["multi"] is not (len(want) > 1):
        bad.append(("is_multidex is not (number of distinct DEX names > 1)", len(want) > 1, obs["multi"]))
    return bad


def gen_dup_archive(rng):
    """an ordinary archive with 1-4 extra headers that repeat an existing name with other content"""
    case = gen_archive(rng)
    es = [e for e in case["entries"]]
    if not es:
        es = [["classes.dex", gen_data(rng).hex(), rng.random() < 0.5]]
    for _ in range(rng.choice((1, 1, 2, 3, 4))):
        dexes = [e for e in es if spec(e[0])]
        src = rng.choice(dexes) if dexes and rng.random() < 0.45 else rng.choice(es)
        d = b"" if src[0].endswith("/") else (bytes.fromhex(src[1]) if rng.random() < 0.15 else gen_data(rng))
        es.insert(rng.randrange(len(es) + 1), [src[0], d.hex(), rng.random() < 0.5])
    return {"entries": es, "queries": case["queries"], "dup": True}


def compact_archive(case, orc=None):
    """a failing single-pass case with every entry removed that is not needed for the failure; the note
    keeps only the groups that still have an entry in the archive"""
    def fails(c):
        try:
            return bool((orc or oracle)(c, observe(c)))
        except Exception:  # noqa
            return False
    c = small(case)
    c["queries"] = []
    if not fails(c):
        c = small(case)
    i = 0
    while i < len(c["entries"]):
        t = dict(c, entries=c["entries"][:i] + c["entries"][i + 1:])
        if fails(t):
            c = t
        else:
            i += 1
    if "note" in c:
        left = [ascii(e[0]) for e in c["entries"]]
        c["note"] = [t for t in c["note"] if any(n in t for n in left)]
    return c


def compact(case):
    """a failing history case as it goes into the replay: drop entries and ops that are not needed to
    show the first failure (greedy, re-running the real code)"""
    def fails(c):
        try:
            return bool(run_history(c)[1])
        except Exception:  # noqa
            return False
    c = small(case)
    for key in ("ops", "entries"):
        i = 0
        while i < len(c[key]):
            t = dict(c, **{key: c[key][:i] + c[key][i + 1:]})
            if key == "entries":
                gone = c["entries"][i][0]
                t["ops"] = [o for o in t["ops"] if not (o[0] == "get" and o[1] == gone)
                            and not (o[0] == "call" and gone in o[2])]
                t["ops"] = [o if o[0] != "newzip" else
                            ["newzip", dict(o[1], deleted=None if o[1]["deleted"] is None else [d for d in o[1]["deleted"] if d != gone],
                                            new={k: v for k, v in o[1]["new"].items() if k != gone})] for o in t["ops"]]
            if fails(t):
                c = t
            else:
                i += 1
    if "note" in c:
        left = [ascii(e[0]) for e in c["entries"]]
        c["note"] = [t for t in c["note"] if any(n in t for n in left)]
    return c

# ------------------------------------------------------------------ the check
def corpus_cases():
    out = []
    for p in sorted(glob.glob(os.path.join(VERIF, "corpus", "C34", "*.json"))):
        c = json.load(open(p, encoding="utf-8"))
        out.append((os.path.basename(p), {"entries": c["entries"], "queries": c.get("queries", [])}))
    return out


def stub_apk(names):
    APK, _ = _real()

    class _Zip:
        def __init__(self, ns):
            self.ns = list(ns)

        def namelist(self):
            return list(self.ns)

    o = APK.__new__(APK)
    o.zip = _Zip(names)
    return o


def run(ck: Check):
    APK, FileNotPresent = _real()
    ck.pins_changed(PINS)
    big = not ck.quick
    esc = ck.quick and ck.escalated             # a modelled function changed: 4x sizes in the quick tier (not a verdict)
    ck.run_gen("apkregex")
    ck.prove(exes=["drv_C34"])
    drv = Driver("drv_C34")
    ck.rule = ("dexname: the accepted forms (classes.dex, classes<k>.dex for k<130 and larger, leading zeros, random 0-5 digits), "
               "a list of look-alikes, every character U+0001..U+024F and every Unicode Nd/No/Nl character in place of the dot and "
               "in the digit position, 384 characters appended/prepended/around a digit, deletions/duplications/case/transpositions "
               "of four valid names, directory prefixes and suffixes, seeded random strings over a confusable alphabet and random "
               "edits of valid names; each name is an entry of a generated archive read by the real APK (dex membership) and, "
               "with classes.dex, of a two-entry archive (multidex flag). apkfiles: seeded archives of 0-12 distinct entries "
               "(stored/deflated, 0-2000 bytes: random, repeated, dex-like, text), 0-5 DEX names in random archive order, look-alikes, "
               "nested and non-ASCII names, 2 absent queries (random and near-miss). distinct = distinct name (dexname) / "
               "distinct (names, sizes, methods) tuple (apkfiles); non-trivial = archives with at least one entry. "
               "collisions: archives with 1-2 groups of 2-3 entries forged to equal CRC-32 and size (different content) plus "
               "controls, read in archive order and reversed. history: 4-24 seeded observer calls (+ every entry read forwards "
               "and backwards) on one APK object over collision archives and ordinary archives")
    # ---- corpus first (witnesses of D17)
    reqs, reals = [], []
    ncorp = 0
    for fname, case in corpus_cases():
        run_case(ck, case, reqs, reals)
        ncorp += 1
    if reqs:
        ck.compare("corpus", reqs, reals, drv.ask(reqs))
    ck.cover(evaluations=ncorp, dist={"corpus_cases": ncorp})

    # ---- (a) names
    names = name_stream(ck)
    want = {n: spec(n) for n in names}
    # a.1 real membership: archives holding the names as entries (chunks of 800; the empty name cannot be an entry)
    real_dex = {}
    arch_names = [n for n in names if n]
    CH = 800
    for i in range(0, len(arch_names), CH):
        chunk = arch_names[i:i + CH]
        raw = write_zip([(n, b"", False) for n in chunk])
        a = APK(raw, raw=True, skip_analysis=True)
        files = list(a.get_files())
        z = zipfile.ZipFile(io.BytesIO(raw)).namelist()
        if z != chunk:
            raise ToolFailure("zipfile lists other names than harness/zipwriter.py wrote (name stream)")
        if files != chunk:
            # find the first name that is not listed as written and report it alone
            j = next((k for k in range(len(chunk)) if k >= len(files) or files[k] != chunk[k]), 0)
            case = {"entries": [[chunk[j], "", False]], "queries": []}
            obs = observe(case)
            b = oracle(case, obs)
            if b:
                ck.fail(small(case), b[0][0], None, b[0][1], b[0][2])
            else:
                ck.fail({"entries": [[n, "", False] for n in chunk[max(0, j - 1):j + 2]], "queries": []},
                        "get_files differs from the archive's entry names (inside a large archive)", None,
                        z[max(0, j - 1):j + 2], files[max(0, j - 1):j + 2])
        got = list(a.get_dex_names())
        gs = set(got)
        for n in chunk:
            real_dex[n] = n in gs
        if got != [n for n in chunk if want[n]]:
            for n in chunk:
                if real_dex[n] != want[n]:
                    ck.fail({"entries": [[n, "", False]], "queries": []},
                            "get_dex_names lists a name that is not classes[0-9]*.dex" if real_dex[n]
                            else "get_dex_names omits a root-level classes[0-9]*.dex entry",
                            None, [n] if want[n] else [], [n] if real_dex[n] else [])
    # a.2 multidex flag per name: archive [name, classes.dex] (or classes2.dex when the name is classes.dex)
    real_multi = {}
    for n in arch_names:
        other = "classes.dex" if n != "classes.dex" else "classes2.dex"
        a = APK(write_zip([(n, b"", False), (other, b"\x01", True)]), raw=True, skip_analysis=True)
        m = a.is_multidex()
        real_multi[n] = m
        if m is not want[n]:
            ck.fail({"entries": [[n, "", False], [other, "01", True]], "queries": []},
                    "is_multidex is not (number of DEX entries > 1)", None, want[n], m)
    reqs = [f"dex {enc_name(n)}" for n in arch_names] + [f"multi {enc_name(n)}" for n in arch_names]
    reals = ["1" if real_dex[n] else "0" for n in arch_names] + ["1" if real_multi[n] else "0" for n in arch_names]
    ck.compare("dexname", reqs, reals, drv.ask(reqs))
    # a.3 the real methods over a stub name list (no zip reader): single names incl. the empty one, and name lists
    reqs, reals = [], []
    stub_names = [""] + names
    for n in stub_names:
        o = stub_apk([n, "classes.dex"] if n != "classes.dex" else [n, "classes2.dex"])
        d = list(o.get_dex_names())
        reqs.append("names " + " ".join(enc_name(x) for x in o.zip.ns))
        reals.append(f"dex={show_list(enc_name(x) for x in d)} multi={'1' if o.is_multidex() else '0'}")
        if n == "" and (d != ["classes.dex"] or o.is_multidex()):
            ck.fail({"entries": [["", "", False], ["classes.dex", "", False]], "queries": [], "stub": True},
                    "the empty name counts as a DEX name", None, ["classes.dex"], d)
    rng = ck.rng
    for _ in range(400 if ck.quick else 5000):
        ns = [rng.choice(names) if rng.random() < 0.6 else rng.choice(DEXES) for _ in range(rng.randrange(0, 7))]
        ns = [x for x in dict.fromkeys(ns)]
        o = stub_apk(ns)
        reqs.append(("names " + " ".join(enc_name(x) for x in ns)).strip())
        reals.append(f"dex={show_list(enc_name(x) for x in o.get_dex_names())} multi={'1' if o.is_multidex() else '0'}")
    ck.compare("dexname-stub", reqs, reals, drv.ask(reqs))
    nacc = sum(1 for n in names if want[n])
    ck.cover(evaluations=2 * len(arch_names) + len(reqs), distinct=(("n", n) for n in names),
             samples=[{"name": n, "spec": want[n], "get_dex_names": real_dex[n], "multidex_with_classes.dex": real_multi[n]}
                      for n in (arch_names[0], "classes٣.dex", "classes.dex\n", arch_names[-1])],
             dist={"names": len(names), "names_accepted_by_spec": nacc, "names_rejected_by_spec": len(names) - nacc,
                   "names_non_ascii": sum(1 for n in names if any(ord(c) > 127 for c in n)),
                   "names_with_slash": sum(1 for n in names if "/" in n),
                   "names_with_newline": sum(1 for n in names if "\n" in n)})

    # ---- (b) archives
    narch = 30000 if big else 6000 if esc else 1500
    reqs, reals = [], []
    dist = {"archives": 0, "entries_stored": 0, "entries_deflated": 0, "entries_empty": 0, "entries_ge_300_bytes": 0,
            "archives_multidex": 0, "archives_dex_out_of_numeric_order": 0, "archives_with_lookalike": 0,
            "archives_with_non_ascii_name": 0, "archives_with_nested_name": 0, "absent_queries": 0}
    hist_e, hist_d = {}, {}
    keys = []
    samples = []
    for i in range(narch):
        case = gen_archive(rng)
        obs, bad = run_case(ck, case, reqs, reals)
        es = case["entries"]
        nm = [e[0] for e in es]
        dn = [n for n in nm if spec(n)]
        dist["archives"] += 1
        dist["entries_stored"] += sum(1 for e in es if not e[2])
        dist["entries_deflated"] += sum(1 for e in es if e[2])
        dist["entries_empty"] += sum(1 for e in es if not e[1])
        dist["entries_ge_300_bytes"] += sum(1 for e in es if len(e[1]) >= 600)
        dist["archives_multidex"] += len(dn) > 1
        nums = [int(n[7:-4] or "1") for n in dn]
        dist["archives_dex_out_of_numeric_order"] += nums != sorted(nums)
        dist["archives_with_lookalike"] += any(n in LOOKALIKES for n in nm)
        dist["archives_with_non_ascii_name"] += any(ord(c) > 127 for n in nm for c in n)
        dist["archives_with_nested_name"] += any("/" in n for n in nm)
        dist["absent_queries"] += len(case["queries"])
        hist_e[len(es)] = hist_e.get(len(es), 0) + 1
        hist_d[len(dn)] = hist_d.get(len(dn), 0) + 1
        if es:
            keys.append(("a", tuple(nm), tuple(len(e[1]) for e in es), tuple(e[2] for e in es)))
        if i in (3, narch // 2, narch - 1):
            samples.append({"names": nm, "sizes": [len(e[1]) // 2 for e in es], "deflated": [e[2] for e in es],
                            "queries": case["queries"], "real": reals[-1][:300]})
    ck.compare("apkfiles", reqs, reals, drv.ask(reqs))
    dist["entries_per_archive"] = {str(k): v for k, v in sorted(hist_e.items())}
    dist["dex_names_per_archive"] = {str(k): v for k, v in sorted(hist_d.items())}
    ck.cover(evaluations=narch, distinct=keys, samples=samples, dist=dist)

    # ---- (c) forged CRC-32 collisions and (d) histories on one APK object
    import zlib
    ncoll = 6000 if big else 1600 if esc else 400
    reqs, reals, creqs, creals = [], [], [], []
    hd = {"collision_archives": 0, "forged_groups": 0, "forged_entries": 0, "forged_groups_dex": 0, "control_groups": 0,
          "histories": 0, "history_ops": 0, "history_get_ops": 0, "history_get_missing": 0, "history_repeated_reads": 0}
    hkeys, hsamples = [], []
    nfail_h = 0
    for i in range(ncoll):
        case = gen_collision_archive(rng)
        # single pass in archive order (get_all_dex first, then every entry), and the same archive reversed
        for c in (case, dict(case, entries=list(reversed(case["entries"])))):
            obs = observe(c)
            creqs.append(request_of(c)); creals.append(real_line(c, obs))
            bad = oracle(c, obs)
            if bad:
                cc = compact_archive(c) if nfail_h < 3 else small(c)
                nfail_h += 1
                b2 = oracle(cc, observe(cc)) or bad
                ck.fail(cc, b2[0][0], None, b2[0][1], b2[0][2])
        byk = {}
        for n, h, _ in case["entries"]:
            d = bytes.fromhex(h)
            byk.setdefault((zlib.crc32(d), len(d)), set()).add(d)
        fg = [k for k, v in byk.items() if len(v) > 1]
        hd["collision_archives"] += 1
        hd["forged_groups"] += len(fg)
        hd["forged_entries"] += sum(1 for n, h, _ in case["entries"] if (zlib.crc32(bytes.fromhex(h)), len(h) // 2) in fg)
        hd["forged_groups_dex"] += sum(1 for t in case["note"] if t.startswith("forged (last") and "classes" in t)
        hd["control_groups"] += sum(1 for t in case["note"] if t.startswith("control"))
        hkeys.append(("c", tuple(e[0] for e in case["entries"]), tuple(sorted(fg))))
        # histories: the collision archive, and every third time an ordinary archive
        for base in ([case] if i % 3 else [case, gen_archive(rng)]):
            hc = dict(base, ops=None)
            hc["ops"] = gen_ops(rng, hc, rng.randrange(4, 25))
            line, bad = run_history(hc)
            reqs.append(history_request(hc)); reals.append(line)
            if bad:
                if nfail_h < 3:             # shrink only the first few (each shrink re-runs the real code)
                    cc = compact(hc)
                    b2 = run_history(cc)[1] or bad
                else:
                    cc, b2 = small(hc), bad
                nfail_h += 1
                ck.fail(cc, b2[0][0], None, b2[0][1], b2[0][2])
            gets = [o[1] for o in hc["ops"] if o[0] == "get"]
            hd["histories"] += 1
            hd["history_ops"] += len(hc["ops"])
            hd["history_get_ops"] += len(gets)
            hd["history_get_missing"] += sum(1 for q in gets if q not in [e[0] for e in hc["entries"]])
            hd["history_repeated_reads"] += len(gets) - len(set(gets))
            if len(hsamples) < 2 and i in (1, ncoll // 2):
                hsamples.append({"entries": [e[0] for e in hc["entries"]], "forged": case["note"][:2],
                                 "ops": [o[0] if len(o) == 1 else f"get {o[1]!a}" for o in hc["ops"]][:14], "real": line[:200]})
    # (f) central directories that REPEAT names (Spec/ApkFiles: listed once at the first position, content of the last)
    ndup = 6000 if big else 1600 if esc else 400
    dreqs, dreals = [], []
    dd = {"dup_archives": 0, "dup_headers": 0, "dup_dex_names": 0, "dup_name_three_or_more": 0}
    for i in range(ndup):
        case = gen_dup_archive(rng)
        obs = observe(case)
        dreqs.append(request_of(case)); dreals.append(real_line(case, obs))
        bad = oracle_dup(case, obs)
        if bad:
            cc = compact_archive(case, oracle_dup) if nfail_h < 3 else small(case)
            nfail_h += 1
            b2 = oracle_dup(cc, observe(cc)) or bad
            ck.fail(cc, b2[0][0], None, b2[0][1], b2[0][2])
        nm = [e[0] for e in case["entries"]]
        dd["dup_archives"] += 1
        dd["dup_headers"] += len(nm) - len(set(nm))
        dd["dup_dex_names"] += sum(1 for n in set(nm) if spec(n) and nm.count(n) > 1)
        dd["dup_name_three_or_more"] += any(nm.count(n) > 2 for n in set(nm))
        hkeys.append(("d", tuple(nm), tuple(len(e[1]) for e in case["entries"])))
    ck.compare("duplicates", dreqs, dreals, drv.ask(dreqs))
    hd.update(dd)
    ck.cover(evaluations=ndup)

    # (e) histories over the wider vocabulary: new_zip (deletions / replacements, output judged) and every
    #     reflected public method; after each such step all judged queries are re-checked against the ORIGINAL bytes
    nside = 6000 if big else 1200 if esc else 300
    sd = {"side_histories": 0, "new_zip_calls": 0, "new_zip_deleting_existing": 0, "new_zip_deleting_dex": 0,
          "new_zip_replacing": 0, "reflected_calls": 0, "reflected_call_outcomes": {}, "reflected_vocabulary": len(reflected_methods())}
    for i in range(nside):
        base = gen_collision_archive(rng) if i % 4 == 0 else gen_archive(rng)
        hc = dict(base, ops=None)
        hc["ops"] = gen_ops(rng, hc, rng.randrange(3, 12), side=rng.randrange(1, 5))
        line, bad = run_history(hc)
        for k, v in LAST_CALLS.items():
            sd["reflected_call_outcomes"][k] = sd["reflected_call_outcomes"].get(k, 0) + v
        reqs.append(history_request(hc)); reals.append(line)
        if bad:
            if nfail_h < 3:
                cc = compact(hc)
                b2 = run_history(cc)[1] or bad
            else:
                cc, b2 = small(hc), bad
            nfail_h += 1
            ck.fail(cc, b2[0][0], None, b2[0][1], b2[0][2])
        sd["side_histories"] += 1
        for o in hc["ops"]:
            if o[0] == "newzip":
                sd["new_zip_calls"] += 1
                sd["new_zip_deleting_existing"] += bool(o[1]["deleted"])
                sd["new_zip_deleting_dex"] += any(spec(d) for d in (o[1]["deleted"] or []))
                sd["new_zip_replacing"] += bool(o[1]["new"])
            elif o[0] == "call":
                sd["reflected_calls"] += 1
        hkeys.append(("s", tuple(e[0] for e in hc["entries"]), tuple(o[0] + (o[1] if o[0] == "call" else "") for o in hc["ops"])))
        if i == 5:
            hsamples.append({"entries": [e[0] for e in hc["entries"]],
                             "ops": [o[0] if len(o) == 1 else f"{o[0]} {o[1]!a}"[:80] for o in hc["ops"]][:16], "real": line[:160]})
    hd.update(sd)
    ck.compare("collisions", creqs, creals, drv.ask(creqs))
    ck.compare("history", reqs, reals, drv.ask(reqs))
    ck.cover(evaluations=2 * ncoll + len(reqs), distinct=hkeys, samples=hsamples[:3], dist=hd)
    ck.notes.append("history stream: the model is a pure function of the entry list (history-independent); the real APK "
                    "object is driven through seeded interleavings of get_files/get_file/get_dex_names/get_all_dex/is_multidex "
                    "with repeated and missing names, every observation is judged against zipfile's content for that NAME at "
                    "that point, and the canonical line compared with the model is `history-dependent …` as soon as two "
                    "observations of the same kind differ. collisions stream: entries forged to share (CRC-32, size) with "
                    "different contents (4 computed trailing bytes), with identical duplicates, empty files, same-size and "
                    "same-CRC pairs as controls, read in both archive orders. "
                    "side histories: the vocabulary also has new_zip(filename in a tempdir, deleted_files = \\Z-anchored alternation of "
                    "escaped EXISTING names / a pattern matching nothing / None, new_files replacing kept entries) whose written archive "
                    "is judged with zipfile (original minus deleted, replacements applied, order kept), and every public method or "
                    "property of APK found by reflection that is callable with defaults or with an entry name (exceptions tolerated: "
                    "most need an analysed manifest); after each such step get_files/get_dex_names/is_multidex/get_file of every entry "
                    "are re-judged against zipfile's view of the ORIGINAL bytes.")

    ck.assumptions += [
        "reading the zip container (apkInspector.headers.ZipEntry, zlib inflate) is modelled as an abstract entry list, "
        "not verified; it is tied to Python's zipfile and to the bytes the independent writer harness/zipwriter.py put in "
        "by the correspondence/oracle on generated archives only",
        "entry names are valid UTF-8; repeated names are covered by the duplicates stream (listed once at the first "
        "position, content of the last header: Spec/ApkFiles.lean, archive_* theorems), all other streams use distinct names; "
        "names are valid UTF-8 (flag bit 11 set when non-ASCII), non-empty and contain no NUL; "
        "no zip64, data descriptors, extra fields, comments or encrypted entries",
        "Python's zipfile is the oracle for what the archive contains; the specification predicate is written on str directly",
        "CPython's re engine is modelled by the hand compilation of the two patterns (pinned by regex_pinned, "
        "checked per name by the dexname streams)",
    ]
    ck.partial.append("decoding the zip container (apkInspector: EOCD, central directory and local headers, stored/deflate, UTF-8 names) into the header sequence is NOT modelled or proved: tied to zipfile by correspondence only; the Lean statements start from the central directory (names may repeat: Spec/ApkFiles.lean)")
    ck.notes.append("registered against the tree with fixes/C34-dex-name-regex.diff applied (D17: unescaped dot, "
                    "`$` before a final newline, Unicode \\d)")


def replay(ck: Check, rp):
    case = rp.get("case")
    if case is None:
        fd = rp.get("first_divergence", {})
        print("replay (correspondence divergence)", json.dumps(fd, ensure_ascii=True))
        return 0
    print("replay case:", json.dumps(case, ensure_ascii=True))
    if case.get("ops"):
        for t in case.get("note", []):
            print("how forged:", t)
        print("entries:", [(ascii(n), len(h) // 2, "deflated" if c else "stored") for n, h, c in case["entries"]])
        print("ops    :", [o[0] if len(o) == 1 else f"{o[0]} {o[1]!a}" + (f" {o[2]!a}" if len(o) > 2 and o[2] else "") for o in case["ops"]])
        line, bad = run_history(case)
        print("real   :", line[:600])
        for what, exp, got in bad[:6]:
            print("FAIL   :", what, "| expected", ascii(exp)[:200], "| observed", ascii(got)[:200])
        if not bad:
            print("ok     : every observation of this history equals zipfile's content for that name")
        try:
            print("model  :", Driver("drv_C34").ask([history_request(case)])[0][:600], "(history-independent)")
        except Exception as e:  # noqa
            print("model  : (driver unavailable)", e)
        return 1 if bad else 0
    if case.get("stub"):
        o = stub_apk([e[0] for e in case["entries"]])
        d = list(o.get_dex_names())
        print("real (stub name list): get_dex_names =", [ascii(x) for x in d], "is_multidex =", o.is_multidex())
        print("spec:                 dex names     =", [ascii(n) for n in o.zip.ns if spec(n)])
        return 1 if d != [n for n in o.zip.ns if spec(n)] else 0
    for t in case.get("note", []):
        print("how forged:", t)
    obs = observe(case)
    print("real :", real_line(case, obs)[:1500])
    names = [e[0] for e in case["entries"]]
    want = [n for n in names if spec(n)]
    print("spec : files =", [ascii(n) for n in names], "dex =", [ascii(n) for n in want], "multi =", len(want) > 1)
    bad = (oracle_dup if case.get("dup") else oracle)(case, obs)
    for what, exp, got in bad:
        print("FAIL :", what, "| expected", ascii(exp), "| observed", ascii(got))
    if not bad:
        print("ok   : the real code satisfies the property on this case")
    try:
        print("model:", Driver("drv_C34").ask([request_of(case)])[0])
    except Exception as e:  # noqa
        print("model: (driver unavailable)", e)
    return 1 if bad else 0
