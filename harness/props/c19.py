"""C19 — reverse post-order numbering (DESIGN.md section 6, C19).
T: real Graph.compute_rpo / post_order on real Graph + Node objects vs the Lean model AgVerif.Rpo (num, po, rpo, yield order).
S: oracle = the three conditions of the property on the real outputs (entry = 1, permutation of 1..n, every edge
   numbered backwards is a back edge).  "Back edge" is judged without assuming the successor order the code uses:
   a backwards edge u -> v must have a forward-numbered path from v to u (true of every DFS, false of e.g. BFS orders).
   `dfs_intervals` (an independent iterative DFS in all_sucs order) is only used by --replay to show the DFS tree."""
import json
import os

from harness import graphgen
from harness.fw import VERIF, Check, Driver
from harness import graphhist
from harness.graphsweep import HISTORY_NOTE, NPROC, history_tasks, large_tasks, short_diff, sweep

CMD = "rpo"
EXE = "drv_C19"
MODULE = "harness.props.c19"
# hand-modelled functions: a changed AST is not a verdict, it escalates the search (ck.pins_changed)
PINS = [("androguard/decompiler/graph.py", "Graph.post_order"), ("androguard/decompiler/graph.py", "Graph.compute_rpo"),
        ("androguard/decompiler/graph.py", "Graph.all_sucs")]


# ---------------------------------------------------------------- real code
def real_rpo(G):
    """run the real compute_rpo on fresh real objects; returns (reply, num list, po list, rpo index list)"""
    try:
        g, nodes = graphgen.build_real(G)
        idx = {x: i for i, x in enumerate(nodes)}
        g.compute_rpo()
        num = [x.num for x in nodes]
        po = [getattr(x, "po", None) for x in nodes]
        rpo = [idx[x] for x in g.rpo]
        order = [idx[x] for x in g.post_order()]
    except RecursionError:
        return "recursion", None, None, None
    except Exception as e:  # noqa
        return "other:" + type(e).__name__, None, None, None
    reply = "ok %s|%s|%s|%s" % (",".join(map(str, num)), ",".join("-" if p is None else str(p) for p in po),
                                ",".join(map(str, rpo)), ",".join(map(str, order)))
    return reply, num, po, rpo


def canon_model(reply: str) -> str:
    # the model's fifth field is ghost state (DFS-tree parent), not observable on the real code
    return "|".join(reply.split("|")[:4])


# ---------------------------------------------------------------- independent oracle
def dfs_intervals(G):
    """iterative DFS from the entry in all_sucs order; returns (pre, post) timestamps of the reachable nodes"""
    n, entry = G[0], G[1]
    pre, post, t = {}, {}, 0
    pre[entry] = t
    t += 1
    stack = [(entry, iter(graphgen.all_sucs(G, entry)))]
    while stack:
        u, it = stack[-1]
        for v in it:
            if v not in pre:
                pre[v] = t
                t += 1
                stack.append((v, iter(graphgen.all_sucs(G, v))))
                break
        else:
            post[u] = t
            t += 1
            stack.pop()
    return pre, post


def _brief(xs, k=12):
    xs = list(xs)
    return xs if len(xs) <= k else xs[:k] + ["… %d more" % (len(xs) - k)]


def oracle(G, reply, num, rpo, desc=None, case=None):
    """judges rooted graphs only (the property's domain).  desc = (family, n, seed) name of a large graph: the
    failing case then carries the name instead of thousands of edges"""
    n, entry = G[0], G[1]
    case = case or ({"large": desc} if desc else {"graph": graphgen.encode(G)})
    if not graphgen.is_rooted(G):
        return []
    if num is None:
        return [dict(case=case, what="compute_rpo raises on a rooted graph", key=None, expected="ok", observed=reply)]
    out = []
    if num[entry] != 1:
        out.append(dict(case=case, what="the entry is not numbered 1", key=None, expected=1, observed=num[entry]))
    if sorted(num) != list(range(1, n + 1)):
        from collections import Counter
        cnt = Counter(num)
        out.append(dict(case=case, what="the numbers are not a permutation of 1..n", key=None, expected="1..%d" % n,
                        observed=num if n <= 40 else {"num[entry]": num[entry],
                                                      "missing": _brief(sorted(set(range(1, n + 1)) - set(num))),
                                                      "outside_1..n": _brief(sorted(x for x in cnt if not 1 <= x <= n)),
                                                      "duplicated": _brief(sorted(x for x, c in cnt.items() if c > 1))}))
    if out:
        return out[:3]
    # Back edges, judged without assuming which DFS the code ran (any successor order is a legitimate DFS):
    # if u -> v is numbered backwards then v must be u or a DFS-tree ancestor of u, and tree paths are
    # numbered strictly increasingly - so v must reach u along forward-numbered edges (hence u -> v closes a cycle).
    fwd_cache = {}

    def fwd_reach(a):
        if a not in fwd_cache:
            seen, todo = {a}, [a]
            while todo:
                x = todo.pop()
                for y in graphgen.all_sucs(G, x):
                    if num[x] < num[y] and y not in seen:
                        seen.add(y)
                        todo.append(y)
            fwd_cache[a] = seen
        return fwd_cache[a]

    for u in range(n):
        for v in graphgen.all_sucs(G, u):
            if not num[u] < num[v] and u not in fwd_reach(v):
                out.append(dict(case=dict(case, edge=[u, v]),
                                what="an edge is numbered backwards although its target is not an ancestor of its source "
                                     "(no forward-numbered path from the target back to the source)",
                                key=None, expected="num[%d] < num[%d]" % (u, v), observed=[num[u], num[v]]))
    if sorted(rpo) != list(range(n)) or any(num[a] > num[b] for a, b in zip(rpo, rpo[1:])):
        out.append(dict(case=case, what="Graph.rpo is not the nodes sorted by num", key=None, expected="sorted", observed=_brief(rpo, 40)))
    return out[:3]


def evaluate(G, desc=None):
    reply, num, po, rpo = real_rpo(G)
    fails = oracle(G, reply, num, rpo, desc)
    f = graphgen.features(G)
    tags = [k for k in ("rooted", "self_loop", "catch", "dup_suc") if f[k]]
    tags.append("n<=5" if f["n"] <= 5 else "n<=40" if f["n"] <= 40 else "n<=100" if f["n"] <= 100 else "n>100")
    if f["rooted"] and f["n"] >= 3:
        tags.append("nontrivial")
        if num is not None and any(not num[u] < num[v] for u in range(G[0]) for v in graphgen.all_sucs(G, u)):
            tags.append("has_back_edge")
    return reply, fails, tags


# ---------------------------------------------------------------- histories on one Graph object
def canon_model_hist(reply: str) -> str:
    f = reply.split("|")
    return "|".join([f[0], f[2], f[3]]) if len(f) >= 4 else reply       # num | rpo | yield order (po is a left-over attribute)


def hist_query(g, kind, case):
    """compute_rpo on the current state of the graph, then read num / Graph.rpo / the post_order yield order"""
    if kind != "compute_rpo":
        return None
    G, idx, dangling = graphhist.read_off(g)
    try:
        g.compute_rpo()
        num = [x.num for x in g.nodes]
        gone = [getattr(x, "name", "?") for x in g.rpo if x not in idx]
        rpo = [idx[x] for x in g.rpo if x in idx]
        order = [idx.get(x, -1) for x in g.post_order()]
        reply = "ok %s|%s|%s" % (",".join(map(str, num)), ",".join(map(str, rpo)), ",".join(map(str, order)))
        if gone:
            reply += " +removed-nodes-in-rpo:" + ",".join(gone)
        if dangling:
            reply += " +dangling-edges:" + ",".join(dangling)
    except RecursionError:
        reply, num, rpo, gone = "recursion", None, None, []
    fails = []
    rooted = graphgen.is_rooted(G)
    if rooted:
        if gone:
            fails.append(dict(case=case, what="Graph.rpo lists nodes that are no longer in the graph", key=None,
                              expected="a permutation of the current nodes", observed=gone[:10]))
        else:
            fails = oracle(G, reply, num, rpo, case=case)
    return {"request": CMD + " " + graphgen.encode(G), "real": reply, "fails": fails,
            "tags": ["history_rooted_query"] if rooted else ["history_unrooted_query"]}


# ---------------------------------------------------------------- corpus
def corpus_graphs():
    d = os.path.join(VERIF, "corpus", "C19")
    out = []
    if os.path.isdir(d):
        for fn in sorted(os.listdir(d)):
            if fn.endswith(".json"):
                for item in json.load(open(os.path.join(d, fn))):
                    out.append((item.get("name", fn), graphgen.decode(item["graph"])))
    return out


def exhaustive_tasks(max_n, chunks_last):
    tasks = []
    for n in range(1, max_n + 1):
        total = 1 << (n * n)
        k = chunks_last if n == max_n else 1
        if n == max_n - 1 and total >= 1 << 16:
            k = 8
        step = (total + k - 1) // k
        for lo in range(0, total, step):
            tasks.append({"kind": "exh", "n": n, "lo": lo, "hi": min(total, lo + step), "module": MODULE})
    return tasks


def run(ck: Check):
    import time
    ck.pins_changed(PINS)
    esc = getattr(ck, "escalated", False)
    t0 = time.time()
    ck.prove(exes=[EXE])
    t_prove = time.time() - t0
    Driver(EXE)
    ck.rule = ("graphs = real Graph objects with real Node objects (stub subclass), edges added with add_edge/add_catch_edge; "
               "exhaustive: every digraph (self loops included) on 1..4 labelled nodes with entry 0 (thorough: 1..5, 2^25 graphs); "
               "random: six families (G(n,p), rooted+extra edges, structured reducible, irreducible, ladder, Tarjan-like chains) "
               "up to 300 nodes with catch edges, duplicate successors, unreachable nodes. "
               "distinct = distinct graph; non-trivial = rooted with at least 3 nodes (only rooted graphs are judged by the oracle)")
    tasks = [{"kind": "list", "graphs": corpus_graphs(), "module": MODULE}]
    tasks += exhaustive_tasks(4 if ck.quick else 5, 16 if ck.quick else 256)
    if ck.quick and esc:
        # a modelled function changed: every 64th five-node digraph on top of the quick scope
        tasks += [{"kind": "exh", "n": 5, "lo": lo, "hi": lo + (1 << 14), "module": MODULE} for lo in range(0, 1 << 25, 1 << 20)]
    ltasks, limit = large_tasks(MODULE, esc or not ck.quick)
    nhist = 480 if ck.quick and not esc else 2000 if ck.quick else 4000
    tasks = ltasks + history_tasks(MODULE, "C19/%d" % ck.seed, nhist) + tasks
    ck.notes.append(HISTORY_NOTE + "; %d histories; in a history num, Graph.rpo and the yield order are compared (po is an attribute "
                    "left on the node objects)" % nhist)
    nrand = 1600 if ck.quick and not esc else 8000 if ck.quick else 40000
    per = nrand // 16
    tasks += [{"kind": "random", "seed": "C19/%d/%d" % (ck.seed, i), "count": per, "max_n": 300, "module": MODULE}
              for i in range(16)]
    t0 = time.time()
    tags, total = sweep(ck, "rpo", tasks, NPROC)
    ck.notes.append("wall: proof leg (lake build under the shared lock + axiom audit) %.1fs, correspondence+search sweep on %d processes %.1fs"
                    % (t_prove, NPROC, time.time() - t0))
    ck.cover(dist=dict({k: v for k, v in sorted(tags.items())}, recursion_limit_set_by_androguard=limit,
                       large_graphs=sorted(total["large_info"])))
    ck.rule += ("; large-size stream (always): %d named graphs (family, n, seed) of six families with edges into the entry, sizes around "
                "half the recursion limit androguard sets (%d), 3000 and limit+100; DFS depths exercised are listed in "
                "input_distribution.large_graphs (graphs whose DFS depth exceeds limit-400 are skipped: the recursive code raises "
                "RecursionError there)" % (len(ltasks), limit))
    ck.assumptions.append("Python's set membership / attribute assignment are modelled as list membership / function update; "
                          "generator nesting is modelled by structural recursion on fuel (RecursionError beyond ~900-deep graphs is outside the model)")
    ck.notes.append("unrooted graphs are compared model-vs-code (num of unreachable nodes stays 0) but not judged: the property speaks of rooted graphs")


def replay_history(c):
    if "history" in c:
        seed, index = c["history"]["seed"], int(c["history"]["index"])
    else:
        kv = dict(t.split("=") for t in c["request"].split(" ")[2:5])
        seed, index = kv["seed"], int(kv["index"])
    fam, G0, ops = graphhist.generate(seed, index)
    print("start graph:", fam, graphgen.encode(G0)[:300])
    import sys
    rc = 0
    for rec in graphhist.run(sys.modules[__name__], seed, index):
        model = canon_model_hist(Driver(EXE).ask([rec["request"]])[0])
        print("query %d after [%s]" % (rec["query"], "; ".join(graphhist.show_ops(ops[:rec["query"] + 1]))))
        print("   current graph:", rec["request"][:200])
        print("   real :", rec["real"][:200]); print("   model:", model[:200])
        for f in rec["fails"]:
            print("   oracle:", f["what"], "expected", f["expected"], "observed", f["observed"])
            rc = 1
    return rc


def replay(ck: Check, rp):
    c = rp.get("case") or rp.get("first_divergence", {})
    print("replay", json.dumps(c))
    if "history" in c or " history seed=" in c.get("request", ""):
        return replay_history(c)
    desc = c.get("large")
    rq = c.get("request", "")
    if not desc and " large family=" in rq:
        kv = dict(t.split("=") for t in rq.split(" ")[2:])
        desc = {"family": kv["family"], "n": int(kv["n"]), "seed": kv["seed"]}
    gs = None if desc else (c.get("graph") or " ".join(rq.split(" ")[1:]))
    if desc or gs:
        sd = desc and (int(desc["seed"]) if str(desc["seed"]).isdigit() else desc["seed"])
        G = graphgen.large_graph(desc["family"], int(desc["n"]), sd) if desc else graphgen.decode(gs)
        reply, num, po, rpo = real_rpo(G)
        model = canon_model(Driver(EXE).ask([CMD + " " + graphgen.encode(G)])[0])
        a, b = short_diff(reply, model)
        print("real :", a if reply != model else a[:200])
        print("model:", b if reply != model else "(identical)")
        if num is not None and graphgen.is_rooted(G) and G[0] <= 60:
            pre, post = dfs_intervals(G)
            back = [[u, v] for u in range(G[0]) for v in graphgen.all_sucs(G, u) if pre[v] <= pre[u] and post[u] <= post[v]]
            print("back edges of the DFS in all_sucs order:", back)
        for f in oracle(G, reply, num, rpo, desc):
            print("oracle:", f["what"], "expected", f["expected"], "observed", f["observed"])
            return 1
    return 0
