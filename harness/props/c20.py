"""C20 — def-use chains equal the reaching-definitions solution (DESIGN.md section 6, C20).

T: real `reach_def_analysis` / `build_def_use` on real `Graph` + `StatementBlock` objects holding stub
   instructions (`get_lhs` / `get_used_vars`), and on the graphs `construct()` builds for the methods of
   the shipped test DEX files, versus the Lean model `AgVerif.ReachDef` (driver `drv_C20`): R and A sets,
   UD, DU (sorted), the number of iterations of the work-list loop, and iterations <= proven bound.
S: independent oracle = explicit backward path search per use (plain Python, no code shared with the model):
   UD[x,u] must be exactly the set of definitions that reach u; DU must be the inverse of UD.
"""
import glob
import itertools
import os
import random

from harness.fw import REPO, Check, Driver, quiet_androguard

LOOP_LIMIT = 400000

# hand-modelled functions (normalised-AST hashes recorded in gen/pins.json by tools/mkpins.py)
PINS = [("androguard/decompiler/dataflow.py", "BasicReachDef.run"),
        ("androguard/decompiler/dataflow.py", "BasicReachDef.__init__"),
        ("androguard/decompiler/dataflow.py", "build_def_use"),
        ("androguard/decompiler/dataflow.py", "reach_def_analysis")]


class LoopLimit(Exception):
    pass


class Ins:
    """stub instruction: exactly what dataflow.py asks of an instruction during the analysis"""

    def __init__(self, lhs, uses):
        self.lhs, self.uses = lhs, list(uses)

    def get_lhs(self):
        return self.lhs

    def get_used_vars(self):
        return list(self.uses)


# ----------------------------------------------------------------------------- case -> real Graph
def build_graph(case):
    from androguard.decompiler.basic_blocks import StatementBlock
    from androguard.decompiler.graph import Graph
    g = Graph()
    nodes = [StatementBlock("n%d" % i, [Ins(l, u) for l, u in st]) for i, st in enumerate(case["nodes"])]
    for nd in nodes:
        g.add_node(nd)
    for a, b in case["edges"]:
        g.add_edge(nodes[a], nodes[b])
    for a, b in case["cedges"]:
        g.add_catch_edge(nodes[a], nodes[b])
    g.entry = nodes[case["entry"]]
    g.exit = nodes[case["exit"]] if case["exit"] is not None else None
    g.compute_rpo()          # as graph.construct() does
    g.number_ins()
    return g


def reg_key(r):
    return (isinstance(r, str), r)


class View:
    """plain-data view of a real Graph taken before the analysis: rpo order, statements, edges"""

    def __init__(self, g, params):
        self.rpo = list(g.rpo)
        idx = {nd: i for i, nd in enumerate(self.rpo)}
        regs = set(params)
        self.loc_ins = []
        for nd in self.rpo:
            li = [(i, ins.get_lhs(), list(ins.get_used_vars())) for i, ins in nd.get_loc_with_ins()]
            self.loc_ins.append(li)
            for _, l, u in li:
                if l is not None:
                    regs.add(l)
                regs.update(u)
        self.regmap = {r: k for k, r in enumerate(sorted(regs, key=reg_key))}
        self.edges = [[idx[s] for s in g.edges.get(nd, [])] for nd in self.rpo]
        self.cedges = [[idx[s] for s in g.catch_edges.get(nd, [])] for nd in self.rpo]
        self.entry = idx[g.entry]
        self.exit = idx[g.exit] if g.exit is not None else None
        self.params = list(params)
        # numbering must be what number_ins() produced: consecutive through rpo
        k = 0
        self.consecutive = True
        for li in self.loc_ins:
            for i, _, _ in li:
                if i != k:
                    self.consecutive = False
                k += 1

    def request(self):
        rm = self.regmap

        def lst(xs):
            return ",".join(str(x) for x in xs) if xs else "-"

        words = ["defuse", lst([rm[p] for p in self.params]), str(self.entry),
                 "-" if self.exit is None else str(self.exit)]
        for li, e, c in zip(self.loc_ins, self.edges, self.cedges):
            st = "/".join(("_" if l is None else str(rm[l])) + ":" + ",".join(str(rm[x]) for x in u) for _, l, u in li)
            words.append(f"{st or '-'}|{lst(e)}|{lst(c)}")
        return " ".join(words)


def show_dict(d, rm):
    items = sorted(((rm[k[0]], k[1]), sorted(v)) for k, v in d.items())
    return ";".join(f"{x}@{i}:{','.join(map(str, v))}" for (x, i), v in items)


def real_run(g, params, view):
    """run the real analysis; returns (canonical line, iterations, UD, DU)"""
    from androguard.decompiler import dataflow
    cnt = [0]
    orig = g.all_preds

    def counting(node):          # called exactly once per iteration of BasicReachDef.run's while loop
        cnt[0] += 1
        if cnt[0] > LOOP_LIMIT:
            raise LoopLimit()
        return orig(node)

    g.all_preds = counting
    try:
        ud, du = dataflow.build_def_use(g, params)
        it1 = cnt[0]
        cnt[0] = 0
        an = dataflow.reach_def_analysis(g, params)
        it2 = cnt[0]
    except LoopLimit:
        return "looplimit", None, None, None
    except Exception as e:  # noqa
        return "other:" + type(e).__name__, None, None, None
    finally:
        del g.all_preds
    if it1 != it2:
        return f"nondeterministic-iterations {it1} {it2}", None, None, None
    rs = ";".join(",".join(str(x) for x in sorted(an.R[nd])) for nd in view.rpo)
    as_ = ";".join(",".join(str(x) for x in sorted(an.A[nd])) for nd in view.rpo)
    line = f"ok done=1 iters={it1} R={rs} A={as_} UD={show_dict(ud, view.regmap)} DU={show_dict(du, view.regmap)}"
    return line, it1, ud, du


def split_model(reply):
    """model reply -> (line without the bound token, iterations, bound)"""
    if not reply.startswith("ok "):
        return reply, None, None
    toks = reply.split(" ")
    b = [t for t in toks if t.startswith("bound=")]
    it = [t for t in toks if t.startswith("iters=")]
    return " ".join(t for t in toks if not t.startswith("bound=")), int(it[0][6:]), int(b[0][6:])


# ----------------------------------------------------------------------------- independent oracle
def oracle_ud(view):
    """explicit path search.  For the use of x by statement u of node v: walk backwards inside v; when no
    definition of x precedes u in v, search the node graph backwards from v (normal + catch edges, dummy
    entry in front of the entry node), stopping a branch at the first node that defines x (its last
    definition of x reaches) — the set of stopped-at definitions is the answer."""
    n = len(view.rpo)
    preds = [[] for _ in range(n)]
    for a in range(n):
        for b in view.edges[a] + view.cedges[a]:
            if a not in preds[b]:
                preds[b].append(a)
    last_def = []
    for li in view.loc_ins:
        d = {}
        for i, l, _ in li:
            if l is not None:
                d[l] = i
        last_def.append(d)
    memo = {}

    def reach_in(v, x):
        """definitions of x that reach the start of node v (memoised per (node, register))"""
        key = (v, x)
        if key in memo:
            return memo[key]
        found = set()
        seen = set()
        stack = list(preds[v]) + (["dummy"] if v == view.entry else [])
        while stack:
            p = stack.pop()
            if p in seen:
                continue
            seen.add(p)
            if p == "dummy":
                for kk, prm in enumerate(view.params, 1):
                    if prm == x:
                        found.add(-kk)
            elif x in last_def[p]:
                found.add(last_def[p][x])
            else:
                stack.extend(preds[p])
                if p == view.entry:
                    stack.append("dummy")
        memo[key] = found
        return found

    exp = {}
    for v, li in enumerate(view.loc_ins):
        for k, (u, _, uses) in enumerate(li):
            for x in uses:
                found = None
                for j in range(k - 1, -1, -1):
                    if li[j][1] == x:
                        found = {li[j][0]}
                        break
                if found is None:
                    found = reach_in(v, x)
                if found:
                    exp[(x, u)] = set(found)
    return exp


def judge(ck, case, view, line, ud, du):
    """leg S on one case; case is the JSON-able description for the replay"""
    if ud is None:
        ck.fail(case, "build_def_use does not return (exception or work list does not empty)", None, "UD, DU", line)
        return
    exp = oracle_ud(view)
    got = {k: set(v) for k, v in ud.items() if v}
    if got != exp:
        bad = sorted(set(got) ^ set(exp) | {k for k in set(got) & set(exp) if got[k] != exp[k]}, key=lambda k: (reg_key(k[0]), k[1]))
        k = bad[0]
        ck.fail(case, f"definitions linked to the use of register {k[0]!r} at statement {k[1]} differ from the definitions that reach it",
                None, {"use": [repr(k[0]), k[1]], "reaching_defs": sorted(exp.get(k, ()))},
                {"use": [repr(k[0]), k[1]], "UD": sorted(got.get(k, ()))})
        return
    inv = {}
    for (x, u), ds in ud.items():
        for d in ds:
            inv.setdefault((x, d), set()).add(u)
    gdu = {k: set(v) for k, v in du.items() if v}
    if gdu != inv:
        bad = sorted(set(gdu) ^ set(inv) | {k for k in set(gdu) & set(inv) if gdu[k] != inv[k]}, key=lambda k: (reg_key(k[0]), k[1]))
        k = bad[0]
        ck.fail(case, f"DU chain of register {k[0]!r} defined at {k[1]} is not the inverse of UD", None,
                {"def": [repr(k[0]), k[1]], "uses": sorted(inv.get(k, ()))}, {"def": [repr(k[0]), k[1]], "DU": sorted(gdu.get(k, ()))})


# ----------------------------------------------------------------------------- generators
def rand_stmts(rng, nregs, extra):
    st = []
    k = rng.choice((0, 1, 1, 2, 2, 3, 4, 6)) if rng.random() < 0.9 else rng.randrange(0, 9)
    for _ in range(k):
        lhs = rng.randrange(nregs) if rng.random() < 0.62 else None
        nu = rng.choice((0, 1, 1, 2, 2, 3))
        uses = [rng.randrange(nregs + extra) for _ in range(nu)]
        if uses and rng.random() < 0.08:
            uses.append(uses[0])           # the same register used twice by one instruction
        st.append([lhs, uses])
    return st


def rand_case(rng, n=None):
    if n is None:
        n = rng.choice((1, 2, 2, 3, 3, 4, 4, 5, 6, 7, 8, 10, 12)) if rng.random() < 0.85 else rng.randrange(13, 41)
    nregs = rng.randrange(1, 7)
    extra = rng.choice((0, 0, 1, 2))       # register numbers that are used but never defined
    nodes = [rand_stmts(rng, nregs, extra) for _ in range(n)]
    edges, cedges = [], []
    for i in range(1, n):
        if rng.random() < 0.92:
            edges.append([rng.randrange(0, i), i])
    for _ in range(int(n * rng.choice((0, 0.3, 0.7, 1.2, 2.0)))):
        a, b = rng.randrange(n), rng.randrange(n)
        if rng.random() < 0.1:
            b = a
        if [a, b] not in edges:
            edges.append([a, b])
    for _ in range(int(n * rng.choice((0, 0, 0.2, 0.5)) + rng.choice((0, 0, 1)))):
        a, b = rng.randrange(n), rng.randrange(n)
        if [a, b] not in cedges:
            cedges.append([a, b])
    rng.shuffle(edges)
    entry = 0 if rng.random() < 0.85 else rng.randrange(n)
    ex = None if rng.random() < 0.2 else rng.randrange(n)
    regs = list(range(nregs + extra + 1))
    rng.shuffle(regs)
    params = regs[:rng.choice((0, 1, 1, 2, 2, 3, nregs))]
    return {"nodes": nodes, "edges": edges, "cedges": cedges, "entry": entry, "exit": ex, "params": params}


def small_scope(rng, quick):
    """every edge set on 1..3 nodes (normal edges), with random small statement lists, parameters, a catch edge"""
    menu = [[], [[0, []]], [[None, [0]]], [[0, [0]]], [[1, [0]], [0, [1]]], [[None, [0]], [0, []], [None, [0]]],
            [[0, []], [0, [0]]], [[1, []]], [[None, [0, 1]]]]
    for n in (1, 2, 3):
        pairs = [(a, b) for a in range(n) for b in range(n)]
        for mask in range(1 << len(pairs)):
            reps = 1 if (quick and n == 3) else 3
            for _ in range(reps):
                edges = [[a, b] for k, (a, b) in enumerate(pairs) if mask >> k & 1]
                ced = [[rng.randrange(n), rng.randrange(n)]] if rng.random() < 0.25 else []
                yield {"nodes": [rng.choice(menu) for _ in range(n)], "edges": edges, "cedges": ced,
                       "entry": 0 if rng.random() < 0.8 else rng.randrange(n),
                       "exit": rng.choice([None] + list(range(n))), "params": rng.choice(([], [0], [1], [0, 1], [1, 0], [2]))}


# ---- deterministic adversarial families: many work-list iterations per node -------------------------------
# The work list needs one pass per block for information that travels against the rpo order, and one more
# round per definition that arrives later: ladders b0<->b1<->...<->bN with one register per block maximise
# the real iteration count (about N*N/2, i.e. 50..100 steps per node; random graphs and DEX methods stay
# below 12). Sizes 130..200 blocks, 70..150 registers, one definition per block, uses far from definitions.
def _adv_nodes(N, R, param):
    return [[[i % R, [(i * 7) % R]], [None, sorted({0, R - 1, (i * 7) % R, (i + R // 2) % R, param})]] for i in range(N)]


def adv_ladder(N, R, catch=False, rungs=0):
    fwd = [[i, i + 1] for i in range(N - 1)]
    back = [[i + 1, i] for i in range(N - 1)]
    edges = [e for pr in zip(fwd, back) for e in pr] if not catch else fwd
    edges += [[N - 1 - i, i] for i in range(rungs)]
    return {"nodes": _adv_nodes(N, R, R), "edges": edges, "cedges": back if catch else [], "entry": 0, "exit": N - 1, "params": [R]}


def adv_nested(N, R):
    """loops nested N/2 deep: chain plus back edges b[N-1-i] -> b[i]"""
    return {"nodes": _adv_nodes(N, R, R), "edges": [[i, i + 1] for i in range(N - 1)] + [[N - 1 - i, i] for i in range(N // 2)],
            "cedges": [], "entry": 0, "exit": N - 1, "params": [R]}


def adv_chain(N, R):
    """long chain with one big loop and a back edge to the entry from every tenth block, many registers"""
    return {"nodes": _adv_nodes(N, R, R), "edges": [[i, i + 1] for i in range(N - 1)] + [[N - 1, 0]] + [[i, 0] for i in range(10, N, 10)],
            "cedges": [], "entry": 0, "exit": None, "params": [R, R + 1]}


def adversarial(rng, big):
    j = lambda: rng.randrange(0, 6)
    fams = [("adv-ladder", adv_ladder(130 + j(), 70 + j())),
            ("adv-ladder", adv_ladder(158 + j(), 100 + j())),
            ("adv-ladder", adv_ladder(195 + j(), 145 + j())),
            ("adv-catch-ladder", adv_ladder(140 + j(), 90 + j(), catch=True)),
            ("adv-ladder-rungs", adv_ladder(150 + j(), 120 + j(), rungs=12)),
            ("adv-nested", adv_nested(170 + j(), 110 + j())),
            ("adv-chain", adv_chain(195 + j(), 150))]
    if big:
        fams += [("adv-ladder", adv_ladder(n, r)) for n, r in ((128, 65), (136, 136), (180, 180), (200, 100))]
        fams += [("adv-nested", adv_nested(200, 150)), ("adv-catch-ladder", adv_ladder(200, 150, catch=True))]
    return fams


def ask_parallel(drv, reqs, workers=8):
    """one driver process per request (the large instances take seconds each in the model)"""
    from concurrent.futures import ThreadPoolExecutor
    with ThreadPoolExecutor(max_workers=workers) as ex:
        return [r[0] for r in ex.map(lambda q: drv.ask([q]), reqs)]


def corpus_cases():
    import json
    d = os.path.join(os.path.dirname(os.path.dirname(os.path.dirname(os.path.abspath(__file__)))), "corpus", "C20")
    out = []
    for p in sorted(glob.glob(os.path.join(d, "*.json"))):
        out.append(json.load(open(p))["case"])
    return out


def shape_of(case, view):
    n = len(case["nodes"])
    return (n, len(case["edges"]), len(case["cedges"]), tuple(tuple((l, tuple(u)) for l, u in st) for st in case["nodes"]),
            tuple(map(tuple, case["edges"])), tuple(map(tuple, case["cedges"])), case["entry"], case["exit"], tuple(case["params"]))


# ----------------------------------------------------------------------------- DEX methods
def dex_methods(ck, quick):
    from androguard.core.analysis.analysis import Analysis
    from androguard.core.dex import DEX
    from androguard.decompiler.decompile import DvMethod
    from androguard.decompiler.graph import construct
    files = sorted(glob.glob(os.path.join(REPO, "tests", "data", "APK", "*.dex")))
    for p in files:
        name = os.path.basename(p)
        d = DEX(open(p, "rb").read())
        dx = Analysis(d)
        mas = [ma for ma in dx.get_methods() if not ma.is_external()]
        if quick and len(mas) > 500:
            rng = random.Random(f"C20/{ck.seed}/{name}")
            keep = set(rng.sample(range(len(mas)), 500))
            # always keep the largest graphs' candidates: methods with many basic blocks
            big = sorted(range(len(mas)), key=lambda i: -len(mas[i].get_basic_blocks().gets()))[:30]
            mas = [m for i, m in enumerate(mas) if i in keep or i in big]
        for ma in mas:
            dvm = DvMethod(ma)
            if dvm.start_block is None:
                continue
            m = ma.get_method()
            ident = f"{name}:{m.get_class_name()}->{m.get_name()}{m.get_descriptor()}"
            try:
                g = construct(dvm.start_block, dvm.var_to_name, dvm.exceptions)
            except Exception as e:  # noqa  (graph construction is not this property's subject)
                yield ident, None, None, type(e).__name__
                continue
            yield ident, g, list(dvm.lparams), None


def find_method(ident):
    from androguard.core.analysis.analysis import Analysis
    from androguard.core.dex import DEX
    from androguard.decompiler.decompile import DvMethod
    from androguard.decompiler.graph import construct
    name, sig = ident.split(":", 1)
    d = DEX(open(os.path.join(REPO, "tests", "data", "APK", name), "rb").read())
    dx = Analysis(d)
    for ma in dx.get_methods():
        if ma.is_external():
            continue
        m = ma.get_method()
        if f"{m.get_class_name()}->{m.get_name()}{m.get_descriptor()}" == sig:
            dvm = DvMethod(ma)
            return construct(dvm.start_block, dvm.var_to_name, dvm.exceptions), list(dvm.lparams)
    return None, None


# ----------------------------------------------------------------------------- run
def run(ck: Check):
    quiet_androguard()
    ck.pins_changed(PINS)
    big = (not ck.quick) or getattr(ck, "escalated", False)
    ck.prove(exes=["drv_C20"])
    drv = Driver("drv_C20")
    rng = ck.rng
    ck.rule = ("random graphs: 1..40 nodes (85% <= 12), 1..6 defined registers + up to 2 never-defined ones, 0..8 define/use "
               "statements per node, spanning edges + extra forward/back/self edges, catch edges, random entry (15%), unreachable "
               "nodes, parameters (also unused / never otherwise defined), exit set or None; small scope: every normal-edge set on "
               "1..3 nodes with statement lists from a 9-entry menu; adversarial (always): ladders b0<->b1<->..<->bN (also with catch back edges / "
               "extra rungs), loops nested N/2 deep, long chains, 130..200 blocks, 70..150 registers, one definition per block, uses far "
               "from definitions (50..100 work-list steps per node); DEX: graphs construct() builds for methods of tests/data/APK/*.dex. "
               "distinct = distinct (graph, statements, entry, exit, params) description or distinct DEX method; "
               "non-trivial = at least one use whose reaching set was computed (UD non-empty)")
    cases = [("corpus", c) for c in corpus_cases()]
    cases += [("small", c) for c in small_scope(rng, not big)]
    nrand = 60000 if not ck.quick else (20000 if big else 2500)     # escalated quick run: in between
    cases += [("random", rand_case(rng)) for _ in range(nrand)]
    cases += [("random-large", rand_case(rng, rng.randrange(25, 41))) for _ in range(3000 if not ck.quick else (1000 if big else 150))]
    adv = adversarial(rng, big)
    stats = {"max_steps_per_node": 0.0, "max_steps_per_node_family": "", "max_iterations": 0, "max_iterations_over_bound": 0.0,
             "note": "max_iterations_over_bound is taken over graphs of >= 100 nodes"}

    def note_steps(fam, it, nnodes, bound):
        if it is None:
            return
        spn = it / max(1, nnodes)
        if spn > stats["max_steps_per_node"]:
            stats["max_steps_per_node"], stats["max_steps_per_node_family"] = round(spn, 2), fam
        stats["max_iterations"] = max(stats["max_iterations"], it)
        if bound and nnodes >= 100:      # (tiny graphs without definitions meet the bound exactly: 1 iteration, bound 1)
            stats["max_iterations_over_bound"] = max(stats["max_iterations_over_bound"], round(it / bound, 5))

    reqs, reals, metas = [], [], []
    dist = {"graphs_with_catch_edges": 0, "graphs_with_unreachable_nodes": 0, "graphs_with_self_loop": 0,
            "graphs_with_params": 0, "uses_total": 0, "uses_with_2plus_defs": 0, "uses_param_reaching": 0,
            "iterations_total": 0, "nodes_total": 0}
    distinct = []
    for fam, case in cases:
        g = build_graph(case)
        view = View(g, case["params"])
        line, it, ud, du = real_run(g, case["params"], view)
        judge(ck, {"family": fam, "case": case}, view, line, ud, du)
        reqs.append(view.request()); reals.append(line); metas.append((fam, it, len(view.rpo)))
        dist["graphs_with_catch_edges"] += bool(case["cedges"])
        dist["graphs_with_unreachable_nodes"] += any(nd.num == 0 for nd in view.rpo) and len(view.rpo) > 0 and view.rpo[0].num == 0
        dist["graphs_with_self_loop"] += any(a == b for a, b in case["edges"] + case["cedges"])
        dist["graphs_with_params"] += bool(case["params"])
        dist["nodes_total"] += len(case["nodes"])
        if ud is not None:
            dist["uses_total"] += len(ud)
            dist["uses_with_2plus_defs"] += sum(1 for v in ud.values() if len(set(v)) > 1)
            dist["uses_param_reaching"] += sum(1 for v in ud.values() if any(x < 0 for x in v))
            dist["iterations_total"] += it
            if any(ud.values()):
                distinct.append(shape_of(case, view))
    model = drv.ask(reqs)
    mlines, within = [], []
    for (fam, it, nn), r in zip(metas, model):
        ml, mit, b = split_model(r)
        note_steps(fam, it, nn, b)
        mlines.append(ml)
        within.append("within-bound" if (b is None or it is None or it <= b) else f"exceeds-bound {it}>{b}")
    ck.compare("defuse-stub-graphs", reqs, reals, mlines)
    ck.compare("defuse-loop-bound", reqs, within, ["within-bound"] * len(within))
    ck.cover(evaluations=len(cases), distinct=distinct,
             samples=[{"request": reqs[i], "real": reals[i][:300]} for i in (len(cases) // 3, len(cases) - 200, len(cases) - 1)],
             dist=dict(dist, **{"family_" + f: sum(1 for x, _ in cases if x == f) for f in ("corpus", "small", "random", "random-large")}))

    # ---- adversarial families (always run): many iterations per node, close(r) to the proven bound
    reqs, reals, metas, adistinct = [], [], [], []
    for fam, case in adv:
        g = build_graph(case)
        view = View(g, case["params"])
        line, it, ud, du = real_run(g, case["params"], view)
        judge(ck, {"family": fam, "case": case}, view, line, ud, du)
        reqs.append(view.request()); reals.append(line); metas.append((fam, it, len(view.rpo)))
        if ud is not None and any(ud.values()):
            adistinct.append(shape_of(case, view))
    model = ask_parallel(drv, reqs)
    mlines, within, asamples = [], [], []
    for (fam, it, nn), r, rq in zip(metas, model, reqs):
        ml, mit, b = split_model(r)
        note_steps(fam, it, nn, b)
        mlines.append(ml)
        within.append("within-bound" if (b is None or it is None or it <= b) else f"exceeds-bound {it}>{b}")
        asamples.append({"family": fam, "nodes": nn, "real_iterations": it, "model_iterations": mit, "bound": b,
                         "steps_per_node": None if it is None else round(it / nn, 1)})
    short = [f"{m[0]} nodes={m[2]} :: {r[:400]}..." for m, r in zip(metas, reqs)]
    ck.compare("defuse-adversarial", short, reals, mlines)
    ck.compare("defuse-adversarial-loop-bound", short, within, ["within-bound"] * len(within))
    ck.cover(evaluations=len(adv), distinct=adistinct, samples=asamples[:3],
             dist={"family_adversarial": len(adv)})
    ck.dist["adversarial_instances"] = asamples

    # ---- methods of the shipped DEX files
    reqs, reals, its, idents = [], [], [], []
    ddist = {"dex_methods": 0, "dex_construct_errors": 0, "dex_nodes_total": 0, "dex_max_nodes": 0, "dex_methods_with_catch": 0,
             "dex_uses_total": 0}
    ddistinct = []
    for ident, g, params, err in dex_methods(ck, not big):
        if g is None:
            ddist["dex_construct_errors"] += 1
            continue
        view = View(g, params)
        if not view.consecutive:
            ck.notes.append(f"{ident}: instruction numbering not consecutive; skipped")
            continue
        line, it, ud, du = real_run(g, params, view)
        judge(ck, {"family": "dex", "method": ident}, view, line, ud, du)
        reqs.append(view.request()); reals.append(line); its.append(it); idents.append(ident)
        ddist["dex_methods"] += 1
        ddist["dex_nodes_total"] += len(view.rpo)
        ddist["dex_max_nodes"] = max(ddist["dex_max_nodes"], len(view.rpo))
        ddist["dex_methods_with_catch"] += any(view.cedges)
        if ud is not None:
            ddist["dex_uses_total"] += len(ud)
            if any(ud.values()):
                ddistinct.append(("dex", ident))
    model = drv.ask(reqs)
    mlines, within = [], []
    for it, r, rq0 in zip(its, model, reqs):
        ml, mit, b = split_model(r)
        note_steps("dex", it, len(rq0.split(" ")) - 4, b)
        mlines.append(ml)
        within.append("within-bound" if (b is None or it is None or it <= b) else f"exceeds-bound {it}>{b}")
    rq = [f"{i} :: {r}" for i, r in zip(idents, reqs)]
    ck.compare("defuse-dex-methods", rq, reals, mlines)
    ck.compare("defuse-dex-loop-bound", rq, within, ["within-bound"] * len(within))
    mx = ddist.pop("dex_max_nodes")
    ck.cover(evaluations=len(reqs), distinct=ddistinct,
             samples=[{"method": idents[i], "real": reals[i][:300]} for i in (0, len(reqs) // 2)] if reqs else [],
             dist=ddist)
    ck.dist["dex_max_nodes"] = mx
    ck.dist["worklist"] = stats
    ck.notes.append(f"work-list iterations: max {stats['max_iterations']}, max steps per node {stats['max_steps_per_node']} "
                    f"({stats['max_steps_per_node_family']}), max iterations/proven bound on graphs of >= 100 nodes {stats['max_iterations_over_bound']}")
    ck.notes.append("full proof: run_fixpoint, run_least, mfp_eq_mop, ud_exact, du_inverse, du_exact hold for every well-formed graph; "
                    "the real while loop's iteration count equals the model's on every case and stays within the proven bound")
    ck.assumptions.append("Python sets are modelled as lists compared as sets; dict insertion order and set iteration order are not "
                          "compared (UD/DU keys and values are sorted on both sides)")
    ck.assumptions.append("interpretation: a definition in a node that is unreachable from the entry counts as reaching the nodes below "
                          "it (paths may start at the node holding the definition) - this is what the code computes and what the oracle "
                          "demands; theorems reach_def_reachable / reach_def_rooted give the from-the-entry form")
    ck.assumptions.append("paths are paths of the node graph (normal + catch edges) from the end of a node to the start of its "
                          "successor (DESIGN section 10); an exception raised in the middle of a block is not modelled")


def replay(ck: Check, rp):
    quiet_androguard()
    c = rp.get("case") or rp.get("first_divergence", {})
    if "request" in c and "case" not in c and "method" not in c:
        print("correspondence divergence on", c.get("request"))
        print("real :", c.get("real")); print("model:", c.get("model"))
        return 0
    if "method" in c:
        g, params = find_method(c["method"])
    else:
        g, params = build_graph(c["case"]), c["case"]["params"]
    view = View(g, params)
    line, it, ud, du = real_run(g, params, view)
    print("request:", view.request())
    print("real   :", line)
    exp = oracle_ud(view)
    print("oracle UD:", ";".join(f"{view.regmap[x]}@{u}:{','.join(map(str, sorted(v)))}" for (x, u), v in sorted(exp.items(), key=lambda kv: (view.regmap[kv[0][0]], kv[0][1]))))
    ck2 = Check("C20", "quick", 0)
    judge(ck2, c, view, line, ud, du)
    for f in ck2.failures:
        print("FAIL:", f["what"], "expected", f["expected"], "observed", f["observed"])
    return 1 if ck2.failures else 0
