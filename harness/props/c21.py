"""C21 — Decompiled integer code computes what the bytecode computes (DESIGN.md section 6, C21).  PARTIAL.

P  gen/translate.py (reflection on INSTRUCTION_SET / Op / Writer) + gen/conds.py -> Lean; Props/C21: translate_sound,
   table_complete, conds_negate, inplace_sound, refutations of the unfixed code.
T  per-instruction tie, for every row of the table and sampled literals / register contents, three ways:
     text   : Java text printed by the REAL Writer for what the REAL translation function built  vs  the model's printer
     java   : that text compiled by javac and run by the JVM (declared variable types = Dalvik operand types,
              result type observed through overload resolution)                                  vs  Spec/JavaSem
     dalvik : the instruction assembled into a DEX method and run by harness/dalvik_interp.py    vs  Spec/DalvikSem
S  whole pipeline, differential execution: random well-typed static methods (harness/javagen.py) -> dexasm -> real DAD
   decompiler (DvMethod) -> javac -> java, compared with the independent interpreter on boundary + random arguments.
   Decompiler crash, javac rejection, non-termination and a different value/exception are all failing inputs.
"""
import json
import os
import random
import re
import shutil
import subprocess
import tempfile

from harness.fw import Check, Driver, VERIF, REPO, ToolFailure
from harness import javagen, c21diff, dexasm, c21_jexpr, c21_prop
from harness.dalvik_interp import Machine

CORPUS = os.path.join(VERIF, "corpus", "C21")

# the functions the Lean model transliterates by hand (changed AST -> escalated search, never a verdict)
PINS = [
    ("androguard/decompiler/writer.py", "Writer.visit_cond_expression"),
    ("androguard/decompiler/writer.py", "Writer.visit_condz_expression"),
    ("androguard/decompiler/writer.py", "Writer.visit_constant"),
    ("androguard/decompiler/writer.py", "Writer.visit_binary_expression"),
    ("androguard/decompiler/writer.py", "Writer.visit_unary_expression"),
    ("androguard/decompiler/writer.py", "Writer.visit_cast"),
    ("androguard/decompiler/writer.py", "Writer.visit_long_compare"),
    ("androguard/decompiler/writer.py", "Writer.visit_variable"),
    ("androguard/decompiler/writer.py", "Writer.visit_param"),
    ("androguard/decompiler/writer.py", "Writer.visit_this"),
    ("androguard/decompiler/writer.py", "Writer.visit_base_class"),
    ("androguard/decompiler/writer.py", "Writer.visit_check_cast"),
    ("androguard/decompiler/writer.py", "Writer.visit_get_instance"),
    ("androguard/decompiler/writer.py", "Writer.visit_get_static"),
    ("androguard/decompiler/writer.py", "Writer.visit_aload"),
    ("androguard/decompiler/writer.py", "Writer.visit_alength"),
    ("androguard/decompiler/writer.py", "Writer.visit_new_array"),
    ("androguard/decompiler/writer.py", "Writer.visit_new"),
    ("androguard/decompiler/writer.py", "Writer.visit_invoke"),
    ("androguard/decompiler/util.py", "get_type"),
    ("androguard/decompiler/writer.py", "Writer.visit_short_circuit_condition"),
    ("androguard/decompiler/basic_blocks.py", "Condition.visit"),
    ("androguard/decompiler/basic_blocks.py", "CondBlock.visit_cond"),
    ("androguard/decompiler/basic_blocks.py", "ShortCircuitBlock.visit_cond"),
    ("androguard/decompiler/writer.py", "Writer.write_inplace_if_possible"),
    ("androguard/decompiler/writer.py", "Writer.visit_assign"),
    ("androguard/decompiler/instruction.py", "Constant.visit"),
    ("androguard/decompiler/instruction.py", "BinaryExpression.visit"),
    ("androguard/decompiler/instruction.py", "BinaryCompExpression.visit"),
    ("androguard/decompiler/instruction.py", "UnaryExpression.visit"),
    ("androguard/decompiler/instruction.py", "CastExpression.visit"),
    ("androguard/decompiler/instruction.py", "ConditionalExpression.visit"),
    ("androguard/decompiler/instruction.py", "ConditionalExpression.neg"),
    ("androguard/decompiler/instruction.py", "ConditionalZExpression.visit"),
    ("androguard/decompiler/opcode_ins.py", "Op"),
    ("androguard/decompiler/opcode_ins.py", "assign_const"),
    ("androguard/decompiler/opcode_ins.py", "assign_cmp"),
    ("androguard/decompiler/opcode_ins.py", "assign_cast_exp"),
    ("androguard/decompiler/opcode_ins.py", "assign_binary_exp"),
    ("androguard/decompiler/opcode_ins.py", "assign_binary_2addr_exp"),
    ("androguard/decompiler/opcode_ins.py", "assign_lit"),
    ("androguard/decompiler/opcode_ins.py", "rsubint"),
    ("androguard/decompiler/opcode_ins.py", "rsubintlit8"),
    ("androguard/decompiler/opcode_ins.py", "addintlit8"),
]
PINS += c21_prop.PINS      # register_propagation and what it asks of the IR classes (Model/Propagate.lean)

# ---------------------------------------------------------------------------------------------- known findings
MARKER = "Both branches of the condition point to the same"
NARROW = ("byte", "short", "char")


def _regs(it):
    """(defined register, [read registers]) of one assembler item of the subset; None for labels/branches/payloads"""
    if not isinstance(it, (tuple, list)) or not isinstance(it[0], str):
        return None
    mn = it[0]
    if mn.startswith(("if-", "goto", "return", "packed-switch", "sparse-switch")) or mn.endswith("payload"):
        return (None, [x for x in it[1:] if isinstance(x, int)][:2] if mn.startswith("if-") else
                ([it[1]] if mn.startswith(("return", "packed", "sparse")) else []))
    if mn.startswith("const"):
        return (it[1], [])
    if mn.endswith(("/lit8", "/lit16")) or mn == "rsub-int":
        return (it[1], [it[2]])
    if mn.endswith("/2addr"):
        return (it[1], [it[1], it[2]])
    return (it[1], list(it[2:]))


def propagated_into_loop(items):
    """structural signature of the register-propagation defect: r is computed before a loop from q, the loop body
    reads r and redefines q (so that substituting r's definition inside the loop changes its value)"""
    labels = {it[:-1]: i for i, it in enumerate(items) if isinstance(it, str)}
    loops = []
    for i, it in enumerate(items):
        if isinstance(it, (tuple, list)) and isinstance(it[-1], str) and it[-1] in labels and labels[it[-1]] < i \
                and it[-1].startswith("W"):
            loops.append((labels[it[-1]], i))
    for top, back in loops:
        body = [_regs(it) for it in items[top:back + 1]]
        body = [b for b in body if b]
        defs_in = {d for d, _ in body if d is not None}
        uses_in = {u for _, us in body for u in us}
        for it in items[:top]:
            r = _regs(it)
            if r and r[0] is not None and r[0] in uses_in and r[0] not in defs_in and any(q in defs_in for q in r[1]):
                return True
    return False


def stale_operand(items):
    """in instruction order: r := f(.., q, ..); later q is redefined while r is not; later r is read"""
    seq = [(i, _regs(it)) for i, it in enumerate(items)]
    seq = [(i, r) for i, r in seq if r]
    for a, (i, (d, us)) in enumerate(seq):
        if d is None:
            continue
        stale = False
        for j, (d2, us2) in seq[a + 1:]:
            if stale and d in us2:
                return True
            if d2 == d:
                break
            if d2 is not None and d2 in us and d2 != d:
                stale = True
    return False


def dead_divrem(items):
    """a div/rem whose destination is not read before it is overwritten (or before the code ends), in instruction order"""
    seq = [_regs(it) for it in items]
    for i, it in enumerate(items):
        if isinstance(it, (tuple, list)) and isinstance(it[0], str) and it[0].startswith(("div-", "rem-")):
            d = it[1]
            dead = True
            for r in seq[i + 1:]:
                if not r:
                    continue
                if d in r[1]:
                    dead = False
                    break
                if r[0] == d:
                    break
            if dead:
                return True
    return False


def has_division(items):
    return any(isinstance(it, (tuple, list)) and isinstance(it[0], str) and it[0].startswith(("div-", "rem-")) for it in items)


def nesting(method):
    f = set(method.get("features", ()))
    return method.get("level", 0) >= 2 and bool(f & {"nested", "nested-loop", "early-return", "break", "switch:fallthrough"})


def classify(rec, method):
    """precise key of a failing method, or None.  Only pipeline defects that are recorded in known_findings.jsonl get a
    key; each key is a structural signature of the failing case (javac message + shape of the source / bytecode)."""
    st = rec["status"]
    src = rec.get("source") or ""
    feats = set(method.get("features", ()))
    structured = bool(feats & {"if", "if-else", "loop:while", "loop:do-while", "packed-switch", "sparse-switch"})
    if st == "rejected":
        msg = rec.get("detail") or ""
        m = re.search(r"possible lossy conversion from (\w+) to (\w+)", msg)
        narrowing = bool(feats & {"int-to-byte", "int-to-short", "int-to-char"}) or any(
            isinstance(it, (tuple, list)) and it and it[0] in ("int-to-byte", "int-to-short", "int-to-char")
            for it in method.get("items", ()))    # (the feature 'char-vs-const' emits an int-to-char without naming it)
        if m and m.group(2) in NARROW and m.group(1) in ("int",) + NARROW and narrowing:
            return "declared-type-of-another-definition"
        if re.search(r"[(,\s](int|long|byte|short|char) v\d+(_\d+)?\s*[,)\-+*/%&|^<>]", src) and \
                ("expected" in msg or "not a statement" in msg or "illegal start" in msg):
            return "declaration-inside-expression"
        if MARKER in src:
            return "same-target-condition"
        if ("cannot find symbol" in msg or "might not have been initialized" in msg or "already defined" in msg) and structured:
            return "declaration-scope"
        if "missing return statement" in msg and "loop:do-while" in feats and re.search(r"\} while\(.*\);\s*\}\s*$", src):
            return "do-while-follow-lost"
        if nesting(method) and ("missing return" in msg or "unreachable" in msg or "break outside" in msg):
            return "nested-structuring"
        return None
    if st in ("differs", "hang"):
        exp, obs = rec.get("expected") or [], rec.get("observed") or []
        bad = [i for i in range(len(exp)) if exp[i] != obs[i]]
        if st == "differs" and bad and all(exp[i] == "AE" and obs[i] not in ("AE", "MISSING") for i in bad) and has_division(method["items"]):
            return "division-not-a-side-effect"
        if MARKER in src:
            return "same-target-condition"
        if "nested-loop" in feats:
            return "nested-loop-structuring"
        if st == "differs" and propagated_into_loop(method["items"]):
            return "propagation-into-loop"
        if st == "differs" and stale_operand(method["items"]):
            return "propagation-past-redefinition"
        if nesting(method):
            return "nested-structuring"
        return None
    return None


# ---------------------------------------------------------------------------------------------- leg T
SCOPE_TYPES = {}   # mnemonic -> (dst type or None for branches, [source types])  — from the Dalvik bytecode document


def _operand_types(mn):
    """(kind, dst, srcs): types of the registers the instruction writes / reads, by the bytecode document"""
    if mn.startswith("const-wide"):
        return "const", "J", []
    if mn.startswith("const"):
        return "const", "I", []
    if mn == "cmp-long":
        return "3", "I", ["J", "J"]
    if mn.startswith("if-") and mn.endswith("z"):
        return "bz", None, ["I"]
    if mn.startswith("if-"):
        return "b", None, ["I", "I"]
    if mn == "int-to-long":
        return "2", "J", ["I"]
    if mn == "long-to-int":
        return "2", "I", ["J"]
    if mn in ("int-to-byte", "int-to-char", "int-to-short", "neg-int", "not-int"):
        return "2", "I", ["I"]
    if mn in ("neg-long", "not-long"):
        return "2", "J", ["J"]
    head, _, suffix = mn.partition("/")
    op, ty = head.rsplit("-", 1) if head != "rsub-int" else ("rsub", "int")
    t = "I" if ty == "int" else "J"
    second = "I" if op in ("shl", "shr", "ushr") else t
    if suffix in ("lit8", "lit16") or mn == "rsub-int":
        return "lit", "I", ["I"]
    if suffix == "2addr":
        return "2addr", t, [t, second]
    return "3", t, [t, second]


def _sample_values(rng, t, n):
    pool = javagen.I_BOUND if t == "I" else javagen.J_BOUND
    out = [rng.choice(pool) for _ in range(n)]
    bits = 32 if t == "I" else 64
    for i in range(n // 2):
        k = rng.randrange(1, bits + 1)
        out[i] = rng.randrange(-(1 << (k - 1)), 1 << (k - 1))
    return out


def _literal_samples(rng, mn, dom, n):
    if mn.endswith("/lit8") or mn == "rsub-int/lit8":
        lo, hi = -128, 127
    elif mn.endswith("/lit16") or mn == "rsub-int":
        lo, hi = -32768, 32767
    elif mn == "const/4":
        lo, hi = -8, 7
    elif mn in ("const/16", "const-wide/16"):
        lo, hi = -32768, 32767
    elif mn in ("const", "const-wide/32"):
        lo, hi = -2 ** 31, 2 ** 31 - 1
    elif mn == "const-wide":
        lo, hi = -2 ** 63, 2 ** 63 - 1
    elif mn == "const/high16":
        return [(rng.choice((rng.randrange(-32768, 32768), -32768, 32767, 0, 1, -1))) << 16 for _ in range(n)]
    elif mn == "const-wide/high16":
        return [(rng.choice((rng.randrange(-32768, 32768), -32768, 32767, 0, 1, -1))) << 48 for _ in range(n)]
    else:
        return [0] * n
    if dom == "neg":
        hi = -1
    if dom == "nonneg":
        lo = 0
    vals = [lo, hi, max(lo, min(hi, 0)), max(lo, min(hi, 1)), max(lo, min(hi, -1)), max(lo, min(hi, 31)),
            max(lo, min(hi, 32)), max(lo, min(hi, 2 ** 31)), max(lo, min(hi, -2 ** 31 - 1)), max(lo, min(hi, 2 ** 31 - 1))]
    while len(vals) < n:
        vals.append(rng.randrange(lo, hi + 1))
    return vals[:n]


def _real_translation(oi, ir, wr, dex, cm, gt, op, lit_raw, fmt_cls):
    """text printed by the real Writer for what the real translation function builds"""
    ins = dex.get_instruction(cm, op, bytearray(gt.encode(fmt_cls, op, lit_raw)))
    vmap = {}
    e = oi.INSTRUCTION_SET[op](ins, vmap)
    for v in vmap.values():
        v.declared = True
    w = wr.Writer(None, None)
    if isinstance(e, ir.AssignExpression):
        e.rhs.visit(w)
    else:
        if isinstance(e, ir.ConditionalZExpression):
            e.var_map[e.arg].type = "I"
        e.visit(w)
    return str(w)


def _dalvik_single(mn, kind, dst, srcs, lit, regs):
    """run the single instruction with the independent interpreter (registers: A=0.., B=2.., C=4..)"""
    RA, RB, RC = 0, 2, 4
    items = []

    def load(r, t, v):
        items.append(("const", r, v) if t == "I" else ("const-wide", r, v))
    rawlit = lit
    if mn == "const/high16":
        rawlit = lit >> 16
    if mn == "const-wide/high16":
        rawlit = lit >> 48
    if kind == "const":
        items.append((mn, RA, rawlit))
    elif kind == "3":
        load(RB, srcs[0], regs[(srcs[0], 2)]); load(RC, srcs[1], regs[(srcs[1], 3)])
        items.append((mn, RA, RB, RC))
    elif kind == "2addr":
        load(RA, srcs[0], regs[(srcs[0], 1)]); load(RB, srcs[1], regs[(srcs[1], 2)])
        items.append((mn, RA, RB))
    elif kind == "2":
        load(RB, srcs[0], regs[(srcs[0], 2)])
        items.append((mn, RA, RB))
    elif kind == "lit":
        load(RB, "I", regs[("I", 2)])
        items.append((mn, RA, RB, rawlit))
    elif kind == "b":
        load(RA, "I", regs[("I", 1)]); load(RB, "I", regs[("I", 2)])
        items += [(mn, RA, RB, "T"), ("const/4", RA, 0), ("return", RA), "T:", ("const/4", RA, 1), ("return", RA)]
    elif kind == "bz":
        load(RA, "I", regs[("I", 1)])
        items += [(mn, RA, "T"), ("const/4", RA, 0), ("return", RA), "T:", ("const/4", RA, 1), ("return", RA)]
    if kind not in ("b", "bz"):
        items.append(("return" if dst == "I" else "return-wide", RA))
    code, _ = dexasm.assemble(items)
    r = Machine(code, 6).run([], [])
    if kind in ("b", "bz"):
        return "taken" if r[1] == 1 else "not-taken"
    if r[0] == "exc":
        return "AE"
    return "%s%d" % (dst, r[1])


def java_eval(workdir, stem, exprs, per_class=3000):
    """exprs: [(declarations, expression text)].  Each expression is compiled by javac into its own static method and run
    on the JVM; the static type of the result is observed through overload resolution.  Returns one outcome per
    expression: I<value> | J<value> | taken | not-taken | AE | rejected (javac does not accept the text)."""
    out = ["?"] * len(exprs)
    for c0 in range(0, len(exprs), per_class):
        cls = "%s%d" % (stem, c0 // per_class)
        idx = list(range(c0, min(c0 + per_class, len(exprs))))
        head = ["public class %s {" % cls,
                "  static String show(int x) { return \"I\" + x; }",
                "  static String show(long x) { return \"J\" + x; }",
                "  static String show(boolean x) { return x ? \"taken\" : \"not-taken\"; }"]
        body = {}
        for i in idx:
            body[i] = ("  static String e%d() { %s try { return show(%s); } catch (ArithmeticException x) { return \"AE\"; } }"
                       % (i, exprs[i][0], exprs[i][1].replace("\n", " ")))
        tail = []
        step = 300
        for b in range(0, len(idx), step):
            tail.append("  static void run%d(StringBuilder sb) {" % (b // step))
            for i in idx[b:b + step]:
                tail.append("    sb.append(\"%d \").append(e%d()).append('\\n');" % (i, i))
            tail.append("  }")
        tail.append("  public static void main(String[] a) { StringBuilder sb = new StringBuilder();")
        for b in range(0, len(idx), step):
            tail.append("    run%d(sb);" % (b // step))
        tail += ["    System.out.print(sb); }", "}"]
        path = os.path.join(workdir, cls + ".java")
        for _round in range(6):
            lines = head + [body[i] for i in idx] + tail
            with open(path, "w") as f:
                f.write("\n".join(lines) + "\n")
            p = subprocess.run(["javac", "-nowarn", "-Xmaxerrs", "100000", "-d", workdir, path], capture_output=True, text=True, timeout=900)
            if p.returncode == 0:
                break
            bad = set()
            for mm in re.finditer(re.escape(cls) + r"\.java:(\d+): error:", p.stderr):
                k = int(mm.group(1)) - len(head) - 1
                if 0 <= k < len(idx):
                    bad.add(idx[k])
            if not bad:
                raise ToolFailure("javac failed on the expression bench: " + p.stderr[-500:])
            for i in bad:
                out[i] = "rejected"
                body[i] = "  static String e%d() { return \"rejected\"; }" % i
        else:
            raise ToolFailure("javac keeps failing on the expression bench")
        p = subprocess.run(["java", "-cp", workdir, cls], capture_output=True, text=True, timeout=900)
        if p.returncode != 0:
            raise ToolFailure("java failed on the expression bench: " + p.stderr[-500:])
        for line in p.stdout.split("\n"):
            if line:
                i, v = line.split(" ", 1)
                out[int(i)] = v
    return out


def _wrap(v, bits):
    v &= (1 << bits) - 1
    return v - (1 << bits) if v >> (bits - 1) else v


_OPN = {"+": "add", "-": "sub", "*": "mul", "/": "div", "%": "rem", "&": "and", "|": "or", "^": "xor", "<<": "shl", ">>": "shr",
        ">>>": "ushr"}
_REL = {"==": lambda a, b: a == b, "!=": lambda a, b: a != b, "<": lambda a, b: a < b, ">=": lambda a, b: a >= b,
        ">": lambda a, b: a > b, "<=": lambda a, b: a <= b}


def _ctx_oracle(spec, c, i1, l1):
    """what the context means (independent of the model): the operation on v1 and the constant c"""
    from harness.dalvik_interp import _bin, Arith
    family, op, aux = spec
    try:
        if family == "ibin":
            a, b = (i1, c) if aux == "r" else (c, i1)
            return "I%d" % _wrap(_bin(_OPN[op], a, b, 32), 32)
        if family in ("jbin", "jshift"):
            return "J%d" % _wrap(_bin(_OPN[op], l1, c, 64), 64)
    except Arith:
        return "AE"
    if family in ("cond", "condcast"):
        t = aux if family == "cond" else "C"
        x = {"I": i1, "C": i1 & 0xFFFF, "B": _wrap(i1, 8), "S": _wrap(i1, 16)}[t]
        return "taken" if _REL[op](x, c) else "not-taken"
    if family == "condl":
        return "taken" if _REL[op](c, i1) else "not-taken"
    if family == "const":
        return "%s%d" % (aux, c)
    if family == "un":
        bits = 32 if aux == "I" else 64
        return "%s%d" % (aux, _wrap(-c if op == "-" else ~c, bits))
    if family == "cast":
        return {"(long)": "J%d" % c, "(int)": "I%d" % _wrap(c, 32), "(byte)": "I%d" % _wrap(c, 8),
                "(short)": "I%d" % _wrap(c, 16), "(char)": "I%d" % (c & 0xFFFF)}[op]
    raise ValueError(spec)


def leg_t_contexts(ck: Check, drv: Driver, workdir, full, escalated=False):
    """how a Constant operand is printed in every expression context: real Writer text vs model text, and the text run by
    javac+JVM vs (a) the model's JLS outcome (b) an independent oracle.  Every context sees ALL constants 0..127 (every
    printable ASCII code) on every run."""
    import importlib
    gt = importlib.import_module("gen.translate")
    dex, oi, ir, wr = gt._load(REPO)
    rng = random.Random("C21-ctx/%d" % ck.seed)
    reqs, real_text, exprs, oracle, meta = [], [], [], [], []
    for spec in gt.context_specs():
        is_long = gt.context_is_long(spec)
        pool = gt.CTX_J if is_long else gt.CTX_I
        if full:
            consts = list(pool)
        elif escalated:
            consts = list(range(0, 128)) + [v for v in pool if not 0 <= v < 128][ck.seed % 3::3] + [v for v in pool if abs(v) >= 32767]
        else:
            extra = [v for v in pool if not 0 <= v < 128]
            if spec[0] in ("cond", "condcast", "condl"):
                # every code 0..127 once per run and operand type, spread over the six operators
                k0 = gt.REL_OPS.index(spec[1])
                small = [k for k in range(128) if (k + ck.seed) % 6 == k0] + [39, 92]
            else:
                small = list(range(ck.seed % 4, 128, 4)) + [39, 92]
            consts = small + extra[ck.seed % 10::10] + [v for v in pool if abs(v) >= 32767]
        consts = list(dict.fromkeys(consts))
        family, op, aux = spec
        for c in consts:
            i1 = rng.choice((c, c, rng.choice(javagen.I_BOUND), rng.randrange(-2 ** 31, 2 ** 31), (c & 0xFFFF) if -2 ** 31 <= c < 2 ** 31 else 0))
            if not -2 ** 31 <= i1 < 2 ** 31:
                i1 = _wrap(i1, 32)
            l1 = rng.choice((c, rng.choice(javagen.J_BOUND), rng.randrange(-2 ** 63, 2 ** 63)))
            try:
                text = gt.context_text(ir, wr, spec, c)
            except Exception as e:  # noqa
                text = "other:" + type(e).__name__
            vt = {"ibin": "I", "jbin": "J", "jshift": "J", "cond": aux, "condcast": "I", "condl": "I"}.get(family)
            decl = ""
            if vt == "J":
                decl = "long v1 = %s;" % javagen.java_literal(l1, "J")
            elif vt == "I":
                decl = "int v1 = %s;" % javagen.java_literal(i1, "I")
            elif vt in ("C", "B", "S"):
                decl = "%s v1 = (%s) %s;" % ({"C": "char", "B": "byte", "S": "short"}[vt], {"C": "char", "B": "byte", "S": "short"}[vt],
                                           javagen.java_literal(i1, "I"))
            reqs.append("ctx %s %s %s %d %d %d" % (family, op or "_", aux, c, i1, l1))
            real_text.append(text)
            exprs.append((decl, text))
            oracle.append(_ctx_oracle(spec, c, i1, l1))
            meta.append((spec, c, i1, l1))
    # two-level contexts ((x op1 c1) op2 c2), (c1 op1 (x op2 c2)): a few constant pairs each, overflowing ones first
    from harness.dalvik_interp import _bin
    for spec in gt.context2_specs():
        shape, o1, o2, ty = spec
        base = gt.PAIR_I if ty == "I" else gt.PAIR_J
        bits = 32 if ty == "I" else 64
        pairs = [(base[0], base[0]), (base[1], base[1]), (base[2], base[2]), (base[8], base[8])]
        pairs += [(rng.choice(base), rng.choice(base)) for _ in range(2 if not (full or escalated) else 8)]
        for c1, c2 in pairs:
            x = rng.choice((rng.choice(javagen.I_BOUND if ty == "I" else javagen.J_BOUND), rng.randrange(-2 ** (bits - 1), 2 ** (bits - 1))))
            try:
                text = gt.context2_text(ir, wr, spec, c1, c2)
            except Exception as e:  # noqa
                text = "other:" + type(e).__name__
            if shape == "A":
                val = _bin(_OPN[o2], _wrap(_bin(_OPN[o1], x, c1, bits), bits), c2, bits)
            else:
                val = _bin(_OPN[o1], c1, _wrap(_bin(_OPN[o2], x, c2, bits), bits), bits)
            reqs.append("ctx2 %s %s %s %s %d %d %d %d" % (shape, o1, o2, ty, c1, c2, x if ty == "I" else 0, x if ty == "J" else 0))
            real_text.append(text)
            exprs.append(("%s v1 = %s;" % (javagen.JT[ty], javagen.java_literal(x, ty)), text))
            oracle.append("%s%d" % (ty, _wrap(val, bits)))
            meta.append((spec, (c1, c2), x, x))
    model = drv.ask(reqs)
    java = java_eval(workdir, "CX", exprs)
    real = ["text=%s | java=%s" % (real_text[i], java[i]) for i in range(len(reqs))]
    ck.compare("writer contexts text/java", reqs, real, model)
    c21_jexpr.leg_fragment(ck, drv, "writer contexts as IR tree (ofExpr, print_parse)", reqs, real_text)
    for i, (spec, c, i1, l1) in enumerate(meta):
        if java[i] != oracle[i]:
            ck.fail({"kind": "context", "context": list(spec), "constant": c, "v1_int": i1, "v1_long": l1},
                    "a constant operand is printed so that the expression is rejected by javac or denotes another value",
                    None, expected=oracle[i], observed={"text": real_text[i], "java": java[i]})
    ck.cover(evaluations=len(reqs), distinct=((m[0], m[1]) for m in meta),
             samples=[{"request": reqs[i], "real": real[i]} for i in (92, len(reqs) // 2)],
             dist={"context_samples": len(reqs), "contexts": len(gt.context_specs()),
                   "context_constants_0_127_each": True})


def ascii_sweep_methods():
    """every printable ASCII code (and 0..31, 127) once as the constant of a char-typed and of an int comparison, and of an
    arithmetic instruction, in a real method that goes through the whole decompiler"""
    ms = []
    ops = javagen.CONDS
    for k in range(0, 128):
        c = ops[k % 6]
        # p in v3; v0 = (char) p; v1 = k; if v0 <c> v1 -> 1 else 0, plus an int comparison and an addition with the same constant
        items = [("int-to-char", 0, 3), ("const/16", 1, k), ("if-" + c, 0, 1, "A"), ("const/4", 2, 0), ("goto", "B"),
                 "A:", ("const/4", 2, 1), "B:", ("if-" + ops[(k + 1) % 6], 3, 1, "C"), ("add-int/lit8", 2, 2, 2), "C:",
                 ("add-int", 0, 3, 1), ("xor-int/2addr", 2, 0), ("return", 2)]
        ms.append({"name": "a%d" % k, "ret": "I", "params": ["I"], "registers": 4, "ins": 1, "items": items,
                   "features": ["ascii-sweep", "if", "int-to-char", "if-" + c], "level": 1})
    return ms


def chain_methods(rng, n):
    """straight-line chains of 2-4 register-constant operations whose consecutive constants are same-sign boundary values
    (so that their sums / products leave the range), int and long: what a constant-folding writer must not get wrong"""
    PI = [0x7FFFFFFF, 1 << 30, 1500000000, 0x7FFFFFFE, 1000000000, 65536 * 16384]
    PJ = [(1 << 63) - 1, 1 << 62, 6000000000000000000, (1 << 63) - 2, 5000000000000000000, 1 << 61]
    ms = []
    for k in range(n):
        long = k % 2 == 1
        sign = -1 if (k // 2) % 2 else 1
        pool = PJ if long else PI
        steps = 2 + k % 3
        ops = [rng.choice(("add", "add", "sub", "mul")) for _ in range(steps)]
        if k % 4 < 2:
            ops[0] = ops[1] = "add" if k % 8 < 4 else "sub"          # the plain overflow pair
        suffix = "long" if long else "int"
        # registers: int: d=v0, c=v1, p=v2 ; long: d=v0/1, c=v2/3, p=v4/5
        d, c, p = (0, 2, 4) if long else (0, 1, 2)
        items = []
        for j, op in enumerate(ops):
            val = sign * rng.choice(pool)
            if val == -(1 << 63) + 0:
                val += 1
            if long:
                items.append(("const-wide", c, val))
            elif val % 65536 == 0 and rng.random() < 0.5:
                items.append(("const/high16", c, (val >> 16)))
            else:
                items.append(("const", c, val))
            if j == 0:
                items.append(("%s-%s" % (op, suffix), d, p, c))
            elif rng.random() < 0.5:
                items.append(("%s-%s/2addr" % (op, suffix), d, c))
            else:
                items.append(("%s-%s" % (op, suffix), d, d, c))
        items.append(("return-wide" if long else "return", d))
        ms.append({"name": "k%d" % k, "ret": "J" if long else "I", "params": ["J" if long else "I"], "registers": 6 if long else 3,
                   "ins": 2 if long else 1, "items": items, "features": ["constant-chain"] + sorted({"%s-%s" % (o, suffix) for o in ops}),
                   "level": 0})
    return ms


def leg_t(ck: Check, drv: Driver, workdir):
    import importlib
    gt = importlib.import_module("gen.translate")
    dex, oi, ir, wr = gt._load(REPO)
    cm = type("CM", (), {})()
    cm.packer = dex.DalvikPacker(0x12345678)
    rng = random.Random("C21-T/%d" % ck.seed)
    # the rows as generated (opcode, dom): ask the translator again so that the harness sees what Lean sees
    rows = []
    for op in gt.SCOPE:
        mn = dex.DALVIK_OPCODES_FORMAT[op][1][0]
        doms = ["neg", "nonneg"] if mn == "add-int/lit8" else ["all"]
        # whether the table splits this opcode is what the translator found; recompute it cheaply
        rows += [(op, mn, d) for d in doms]
    n_per = 6 if ck.quick else 40
    reqs, meta = [], []
    for op, mn, dom in rows:
        kind, dst, srcs = _operand_types(mn)
        fmt_cls = dex.DALVIK_OPCODES_FORMAT[op][0].__name__
        lits = _literal_samples(rng, mn, dom, n_per)
        iv = {k: _sample_values(rng, "I", n_per) for k in (1, 2, 3)}
        lv = {k: _sample_values(rng, "J", n_per) for k in (1, 2, 3)}
        if mn.startswith(("div", "rem")):
            # make zero divisors frequent
            for k in (2, 3):
                iv[k][0] = 0; lv[k][0] = 0
                iv[k][1] = -1; lv[k][1] = -1
            iv[2][1] = -2 ** 31; lv[2][1] = -2 ** 63; iv[1][1] = -2 ** 31; lv[1][1] = -2 ** 63
        for j in range(n_per):
            lit = lits[j]
            regs = {("I", k): iv[k][j] for k in (1, 2, 3)}
            regs.update({("J", k): lv[k][j] for k in (1, 2, 3)})
            reqs.append("eval %d %s %d %d %d %d %d %d %d" % (op, dom, lit, iv[1][j], iv[2][j], iv[3][j], lv[1][j], lv[2][j], lv[3][j]))
            raw = lit
            if mn == "const/high16":
                raw = lit >> 16
            if mn == "const-wide/high16":
                raw = lit >> 48
            meta.append((op, mn, dom, kind, dst, srcs, lit, raw, fmt_cls, regs))
    model = drv.ask(reqs)
    # real side
    texts, dalv = [], []
    for (op, mn, dom, kind, dst, srcs, lit, raw, fmt_cls, regs) in meta:
        try:
            texts.append(_real_translation(oi, ir, wr, dex, cm, gt, op, raw, fmt_cls))
        except Exception as e:  # noqa
            texts.append("other:" + type(e).__name__)
        dalv.append(_dalvik_single(mn, kind, dst, srcs, lit, regs))
    # java: one static method per sample; variable types = Dalvik operand types
    exprs = []
    for i, (op, mn, dom, kind, dst, srcs, lit, raw, fmt_cls, regs) in enumerate(meta):
        used = {"3": (2, 3), "2addr": (1, 2), "2": (2,), "lit": (2,), "b": (1, 2), "bz": (1,), "const": ()}[kind]
        decl = ["%s v%d = %s;" % (javagen.JT[t], k, javagen.java_literal(regs[(t, k)], t))
                for k, t in zip(used, srcs if kind != "lit" else ["I"])]
        exprs.append((" ".join(decl), texts[i]))
    java = java_eval(workdir, "TT", exprs)
    real = ["text=%s | java=%s | dalvik=%s" % (texts[i], java[i], dalv[i]) for i in range(len(meta))]
    ck.compare("per-instruction text/java/dalvik", reqs, real, model)
    c21_jexpr.leg_fragment(ck, drv, "per-instruction expression as IR tree (ofExpr, print_parse)", reqs, texts)
    # S on the same samples: the real text, run by the real JVM, must agree with the independent interpreter
    for i, m in enumerate(meta):
        if java[i] != dalv[i]:
            ck.fail({"kind": "instruction", "opcode": m[0], "mnemonic": m[1], "literal": m[6],
                     "registers": {"%s%d" % k: v for k, v in m[9].items()}},
                    "the Java text printed for one instruction does not compute what the instruction computes",
                    None, expected=dalv[i], observed={"text": texts[i], "java": java[i]})
    ck.cover(evaluations=len(meta), distinct=((m[0], m[6], tuple(sorted(m[9].items()))) for m in meta),
             samples=[{"request": reqs[i], "real": real[i]} for i in (0, len(meta) // 2, len(meta) - 1)],
             dist={"instruction_samples": len(meta), "instruction_AE": sum(1 for d in dalv if d == "AE"),
                   "instruction_opcodes": len({m[0] for m in meta})})


# ---------------------------------------------------------------------------------------------- leg S
def load_corpus():
    out = []
    if os.path.isdir(CORPUS):
        for fn in sorted(os.listdir(CORPUS)):
            if fn.endswith(".json"):
                d = json.load(open(os.path.join(CORPUS, fn)))
                d["file"] = fn
                out.append(d)
    return out


def _tupleise(items):
    out = []
    for it in items:
        if isinstance(it, str):
            out.append(it)
        else:
            out.append(tuple(x if not isinstance(x, list) else list(x) for x in it))
    return out


def method_of_case(case):
    m = dict(case["method"])
    m["items"] = _tupleise(m["items"])
    m["params"] = list(m["params"])
    return m


def case_of(method, tuples):
    return {"kind": "method", "method": {k: method[k] for k in ("name", "ret", "params", "registers", "ins", "items", "features", "level")
                                         if k in method},
            "tuples": [list(t) for t in tuples]}


def report(ck, rec, method, tuples, origin):
    key = classify(rec, method)
    what = {"crash": "the decompiler raised on a well-typed method",
            "rejected": "javac rejects the decompiler output",
            "hang": "the compiled decompiler output does not terminate, the bytecode does",
            "differs": "the compiled decompiler output computes something else than the bytecode"}[rec["status"]]
    case = case_of(method, tuples)
    case["origin"] = origin
    ck.fail(case, what, key, expected=rec.get("expected") and rec["expected"][rec.get("first_bad", 0)],
            observed={"status": rec["status"], "detail": rec["detail"], "javac_key": rec.get("key"), "source": rec.get("source")})


def leg_s(ck: Check, workdir):
    rng = random.Random("C21-S/%d" % ck.seed)
    dist = {}
    # 1. corpus
    corpus = load_corpus()
    if corpus:
        ms, tup = [], {}
        for i, c in enumerate(corpus):
            m = method_of_case(c)
            m["name"] = "c%d" % i
            ms.append(m)
            tup[m["name"]] = [tuple(t) for t in c["tuples"]]
        recs = c21diff.run_batch(ms, "Corpus", tup, workdir=os.path.join(workdir, "corpus"), java_timeout=30)
        for c, m, r in zip(corpus, ms, recs):
            if r["status"] != "agree":
                report(ck, r, m, tup[m["name"]], "corpus/" + c["file"])
        ck.cover(evaluations=len(ms), dist={"corpus_methods": len(ms)})
    # 1b. every ASCII code once in a char-typed comparison, an int comparison and an addition
    chains = chain_methods(rng, 48)
    ms = ascii_sweep_methods()
    tup = {m["name"]: [(k,) for k in sorted({int(m["name"][1:]), int(m["name"][1:]) + 1, int(m["name"][1:]) - 1, 0, 65, 92, 127, 65536 + int(m["name"][1:]), -1, 0x7FFFFFFF})] for m in ms}
    for m in chains:
        tup[m["name"]] = javagen.arg_tuples(rng, m["params"], 10, 4)
    ms = ms + chains
    recs = c21diff.run_batch(ms, "Ascii", tup, workdir=os.path.join(workdir, "ascii"), java_timeout=30)
    for m, r in zip(ms, recs):
        if r["status"] != "agree":
            report(ck, r, m, tup[m["name"]], "constant chain" if m["name"].startswith("k") else "ascii sweep")
    ck.cover(evaluations=len(ms), dist={"constant_chain_methods": len(chains), "ascii_sweep_methods": len(ms) - len(chains), "ascii_sweep_agree": sum(1 for r in recs if r["status"] == "agree")})
    # 2. generated
    plan = [(0, 1500), (1, 1500), (2, 1500)] if not ck.quick else \
        ([(0, 150), (1, 200), (2, 100)] if getattr(ck, "escalated", False) else [(0, 100), (1, 100), (2, 60)])
    batch = 100
    total = agree = 0
    featc = {}
    statc = {}
    samples = []
    distinct = set()
    bi = 0
    for level, n in plan:
        for start in range(0, n, batch):
            ms = [javagen.gen_method(rng, "m%d" % i, level=level) for i in range(min(batch, n - start))]
            tup = {m["name"]: javagen.arg_tuples(rng, m["params"]) for m in ms}
            bi += 1
            recs = c21diff.run_batch(ms, "G%d" % bi, tup, workdir=os.path.join(workdir, "g%d" % bi), java_timeout=10)
            for m, r in zip(ms, recs):
                total += 1
                statc["L%d:%s" % (level, r["status"])] = statc.get("L%d:%s" % (level, r["status"]), 0) + 1
                for f in m["features"]:
                    featc[f] = featc.get(f, 0) + 1
                distinct.add(json.dumps(m["items"], default=list))
                if r["status"] == "agree":
                    agree += 1
                    if len(samples) < 3 and len(m["items"]) > 6:
                        samples.append({"items": [list(i) if isinstance(i, tuple) else i for i in m["items"]][:12],
                                        "java": r["source"][:400], "tuples": len(tup[m["name"]])})
                else:
                    report(ck, r, m, tup[m["name"]], "generated level %d" % level)
    ck.cover(evaluations=total, distinct=distinct, samples=samples,
             dist=dict(statc, generated_methods=total, agree=agree, **{"feature:" + k: v for k, v in sorted(featc.items())}))


def run(ck: Check):
    ck.pins_changed(PINS)
    if os.environ.get("VERIF_NO_ESCALATE"):
        ck.escalated = False      # (for testing that the plain quick sizes catch a change too)
    ck.run_gen("conds")
    ck.run_gen("translate")
    ck.prove(exes=["drv_C21"])
    ck.partial.append("PARTIAL: only the per-instruction translation (INSTRUCTION_SET/Op), CONDS and the Writer's expression and "
                      "in-place assignment forms are proved; register propagation is modelled for one basic block only (constants, unary/cast, "
                      "binary and one-argument static invoke assignments, a final return; tied to the real pass by correspondence), proved "
                      "to preserve the outcome of the blocks on which every change it makes passes a decidable check (SafeBlock: "
                      "definition without invoke, nothing it reads assigned before the use, deleted definitions dead and, when they can "
                      "throw, evaluated again before anything is observable) and refuted on the "
                      "witness of propagation-past-redefinition; SafeBlock is checked by running the model on the block, not derived from "
                      "a condition on the input; dead-code elimination likewise (one block, model tied by correspondence, sound when every "
                      "deletion passes a decidable check, refuted on a dead division); deletion of dead divisions, propagation and deletion of invokes, "
                      "both passes across branches and loops, variable splitting and typing, "
                      "loop/if/switch structuring and the statement writer are covered by differential execution only")
    ck.rule = ("instruction samples: every opcode of the subset x literals (boundaries + random) x register contents (boundaries + "
               "random); methods: random well-typed static methods at three levels (straight-line / one level of control flow / nested "
               "with compound conditions), each run on ~30 boundary + random argument tuples. distinct = distinct instruction sample or "
               "distinct method body; every generated method has at least one arithmetic instruction and a return")
    ck.assumptions += [
        "the declared type of a Java variable standing for a register is the type with which the instruction reads it (int/long)",
        "java.lang.Long.compare returns exactly -1/0/1 (OpenJDK); checked against the installed JVM by the correspondence",
        "javac/java 17 as installed are the Java compiler and JVM of the property",
        "the instruction's literal is the value the decoder delivers (C01)",
        "print_parse: the lexer (text -> Java lexemes, JLS 3) is harness/c21_jexpr.py:lex, not part of the Lean model; the theorem is "
        "about the lexeme list. Model/JExpr.lean's parser is a hand transcription of the JLS 15 expression grammar for the lexemes "
        "the Writer emits (no ternary, assignment, instanceof, lambda, generics, multi-dimensional array creation); toJava (what Java "
        "tree an IR node stands for) is part of the specification",
        "propagate_sound_partial / propagation_past_redefinition_refuted: Model/Propagate.lean is a hand transliteration of register_propagation, "
        "clear_path and of build_def_use on one block (tied by the stream 'register_propagation on one basic block'); blocks are built "
        "from operands that are registers or constants, as the instruction translations build them (no move instruction: a right-hand "
        "side is never a bare register - about a quarter of the generated straight-line methods have a move and are skipped by the stream "
        "over pipeline blocks); for `w op w` (one shared operand object) BinaryExpression.replace visits the object twice, "
        "the model once - the same unless the replaced register occurs in its own replacement, which cannot happen when every register "
        "is assigned once (the stream emits the shape only there; elsewhere the real pass can build a cyclic expression and die of "
        "RecursionError); in the model of dead_code_elimination graph.remove_ins(loc) is moved in front of update_chain(loc) (which "
        "reads nothing of the instruction but its used registers): same final list, checked by the stream; the semantics of the block IR (Propagate.run: left-to-right evaluation, an exception ends the block, the world "
        "is the sequence of calls) is part of the specification"]
    ck.notes.append("print_parse is proved for every well-formed IR expression tree (JExpr.WF: each operand printed at least as tightly "
                    "as its position needs); trees outside WF (a bare comparison as an operand, `a cmp b` of float compares) are "
                    "printed by the Writer as text that means something else or is not Java - DAD's own pipeline only builds "
                    "comparisons at the top of a condition. Compound conditions (a) && (b) are covered in the state after the Writer's "
                    "cond1.neg(). Statement-level text (assignments, declarations, control structure) is not covered by print_parse. That the trees the real pipeline builds are well formed is not "
                    "a theorem (no model of the passes); it is checked on every expression tree of ~300 decompiled generated methods "
                    "per quick run (stream 'expression trees of decompiled methods')")
    workdir = tempfile.mkdtemp(prefix="c21-")
    try:
        drv = Driver("drv_C21")
        leg_t(ck, drv, workdir)
        leg_t_contexts(ck, drv, workdir, full=not ck.quick, escalated=getattr(ck, "escalated", False))
        c21_jexpr.leg(ck, drv, 2500 if ck.quick and not getattr(ck, "escalated", False) else 40000, workdir)
        c21_jexpr.leg_pipeline(ck, drv, workdir, 300 if ck.quick and not getattr(ck, "escalated", False) else 3000)
        c21_prop.leg(ck, drv, 1500 if ck.quick and not getattr(ck, "escalated", False) else 20000)
        c21_prop.leg_pipeline(ck, drv, 300 if ck.quick and not getattr(ck, "escalated", False) else 3000)
        leg_s(ck, workdir)
    except javagen.BenchTimeout as e:
        raise ToolFailure("timeout in " + str(e))
    finally:
        shutil.rmtree(workdir, ignore_errors=True)


def replay(ck: Check, rp):
    c = rp.get("case") or {}
    if c.get("kind") == "jexpr":
        return c21_jexpr.replay(ck, c)
    if c.get("kind") == "method":
        m = method_of_case(c)
        tup = {m["name"]: [tuple(t) for t in c["tuples"]]}
        rec = c21diff.run_batch([m], "Replay", tup, java_timeout=30)[0]
        print("method:")
        for it in m["items"]:
            print("   ", it)
        print("decompiled:\n", rec.get("source"))
        print("status:", rec["status"], "|", rec.get("detail"))
        if rec.get("expected"):
            print("expected (bytecode):", rec["expected"])
            print("observed (java)    :", rec["observed"])
        return 0 if rec["status"] == "agree" else 1
    print("replay", json.dumps(c)[:2000])
    print("expected:", rp.get("expected"), "observed:", rp.get("observed"))
    if rp.get("first_divergence"):
        print(rp["first_divergence"])
    return 0
