"""C17 — renaming changes exactly the renamed item, for any sequence of renames (DESIGN.md section 6, C17).

P: gen/renamecfg.py (statement sequence of the setters -> AgVerif.Gen.RenameCfg) + Props/C17.lean.
T: `rename <file tables> <ops>`: real ClassDefItem / EncodedMethod / EncodedField / MethodIdItem / FieldIdItem /
   Instruction objects vs the Lean model (drv_C17), on DEX files written by the independent writer
   harness/dexasm.py with deliberately shared names, and on the shipped tests/data/APK/classes.dex
   (tables read by the small parser below, not by androguard).
S: oracle = a dictionary item -> current name in plain Python, original names taken from the writer
   (or from the independent parser for the shipped file); judged observation points:
   ClassDefItem.get_name, EncodedMethod.get_name, EncodedField.get_name, MethodIdItem/FieldIdItem.get_name,
   const-string output.
"""
import glob
import json
import multiprocessing
import os
import struct

from harness import dexasm as A
from harness.fw import Check, Driver, REPO, VERIF

SHIPPED = os.path.join("tests", "data", "APK", "classes.dex")
NO_INDEX = 0xFFFFFFFF

# ------------------------------------------------------------------------------------------------
# file description -> bytes + tables (writer side; never imports androguard)
# ------------------------------------------------------------------------------------------------
MEMBER_NAMES = ["a", "b", "x", "Test", "ab", "run"]
CLASS_NAMES = ["La;", "Lb;", "Lx;", "Lp/a;", "LTest;", "Lp/Test;"]
FIELD_TYPES = ["I", "La;", "Ljava/lang/String;", "[I", "Lb;"]
PROTOS = [("V", []), ("I", ["I"]), ("La;", ["Lb;", "I"]), ("V", ["La;"]), ("Ljava/lang/String;", []), ("V", ["LTest;", "[I"])]
CONST_TEXTS = ["a", "x", "Test", "La;", "Lb;", "hello", "ab", "b", "LTest;", "run", ""]
NEW_NAMES = ["a", "b", "x", "y", "Renamed", "Test", "La;", "Lz;", "Lb;", "", "hello", "né中", "run2", "V", "I"]


def gen_spec(rng):
    """a small file in which names are shared on purpose"""
    ncls = rng.choice((1, 2, 2, 3, 3, 4))
    names = rng.sample(CLASS_NAMES, ncls)
    pool = rng.sample(MEMBER_NAMES, rng.choice((1, 2, 2, 3)))       # few names -> many collisions
    classes = []
    for i, cn in enumerate(names):
        sup = rng.choice(["Ljava/lang/Object;"] + names[:i]) if rng.random() < 0.9 else None
        fields, seen = [], set()
        for _ in range(rng.choice((0, 1, 1, 2, 3))):
            f = (rng.choice(pool), rng.choice(FIELD_TYPES), rng.random() < 0.5)
            if f[:2] not in seen:
                seen.add(f[:2]); fields.append(list(f))
        methods, seen = [], set()
        for _ in range(rng.choice((1, 1, 2, 3, 4))):
            nm = rng.choice(pool + (["<init>"] if rng.random() < 0.2 else []))
            ret, params = rng.choice(PROTOS)
            if (nm, ret, tuple(params)) in seen:
                continue
            seen.add((nm, ret, tuple(params)))
            direct = nm == "<init>" or rng.random() < 0.4
            code = []
            if rng.random() < 0.85:
                for _ in range(rng.choice((0, 1, 1, 2, 3))):
                    k = rng.random()
                    if k < 0.6:
                        txt = rng.choice(CONST_TEXTS + pool + names)
                        code.append(["ks", rng.randrange(0, 4), txt])
                    elif k < 0.8:
                        code.append(["inv", rng.choice(names + ["Ljava/lang/Object;", "Lext/E;"]), rng.choice(pool + ["ext"]),
                                     *rng.choice(PROTOS)])
                    else:
                        code.append(["sg", rng.choice(names + ["Lext/E;"]), rng.choice(pool + ["ext"]), rng.choice(FIELD_TYPES)])
            else:
                code = None
            methods.append([nm, ret, list(params), direct, code])
        classes.append({"name": cn, "super": sup, "fields": fields, "methods": methods})
    return {"classes": classes}


def _code_items(code):
    items = []
    for c in code:
        if c[0] == "ks":
            items.append(("const-string", c[1], A.StringRef(c[2])))
        elif c[0] == "inv":
            items.append(("invoke-static", (), A.MethodRef(c[1], c[2], c[3], tuple(c[4]))))
        elif c[0] == "sg":
            t = c[3]
            op = "sget-object" if t[0] in "L[" else "sget"
            items.append((op, 0, A.FieldRef(c[1], c[2], t)))
    items.append(("return-void",))
    return items


def build(spec):
    """-> (dex bytes, tables).  tables holds the id tables for the model AND the writer's own
    knowledge of every original name (for the oracle)."""
    b = A.DexBuilder()
    for c in spec["classes"]:
        sf = [A.Field(n, t, 0x9) for n, t, st in c["fields"] if st]
        inf = [A.Field(n, t, 0x1) for n, t, st in c["fields"] if not st]
        dm, vm = [], []
        for nm, ret, params, direct, code in c["methods"]:
            acc = (0x10001 if nm == "<init>" else 0x9) if direct else 0x1
            if code is None:
                acc |= 0x100 if direct else 0x400       # native / abstract
            m = A.Method(nm, ret, tuple(params), acc, None if code is None else A.Code(4, 0, 0, _code_items(code)))
            (dm if direct else vm).append(m)
        b.add_class(c["name"], superclass=c["super"], static_fields=sf, instance_fields=inf,
                    direct_methods=dm, virtual_methods=vm)
    data = b.build()
    t = {"strings": list(b.strings),
         "types": [b.string_idx(x) for x in b.types],
         "protos": [(b.type_idx(r), [b.type_idx(p) for p in ps]) for r, ps in b.protos],
         "fields": [(b.type_idx(c), b.type_idx(ty), b.string_idx(n)) for c, n, ty in b.fields],
         "methods": [(b.type_idx(c), b.proto_idx(r, ps), b.string_idx(n)) for c, n, r, ps in b.methods],
         "classes": [], "em": [], "ef": [], "consts": []}
    for ci, c in enumerate(b.class_order):
        t["classes"].append((b.type_idx(c.name), NO_INDEX if c.superclass is None else b.type_idx(c.superclass)))
        for group in (c.static_fields, c.instance_fields):
            for fi in sorted(b.field_idx(c.name, f.name, f.type) for f in group):
                t["ef"].append((fi, ci))
        for group in (c.direct_methods, c.virtual_methods):
            ms = sorted(group, key=lambda m: b.method_idx(c.name, m.name, m.ret, m.params))
            for m in ms:
                t["em"].append((b.method_idx(c.name, m.name, m.ret, m.params), ci))
                if m.code is not None:
                    for it in m.code.insns:
                        if it[0] == "const-string":
                            t["consts"].append((it[1], b.string_idx(it[2].key)))
    return data, t


# ------------------------------------------------------------------------------------------------
# independent reader for the shipped file (id tables only)
# ------------------------------------------------------------------------------------------------
def _uleb(d, o):
    r = s = 0
    while True:
        x = d[o]; o += 1
        r |= (x & 0x7F) << s; s += 7
        if x < 0x80:
            return r, o


def _mutf8(d, o):
    n, o = _uleb(d, o)
    units = []
    while d[o] != 0:
        a = d[o]
        if a < 0x80:
            units.append(a); o += 1
        elif a >> 5 == 6:
            units.append((a & 0x1F) << 6 | d[o + 1] & 0x3F); o += 2
        else:
            units.append((a & 0x0F) << 12 | (d[o + 1] & 0x3F) << 6 | d[o + 2] & 0x3F); o += 3
    return struct.pack("<%dH" % len(units), *units).decode("utf-16-le", "surrogatepass")


def parse_tables(d: bytes):
    h = A.parse_header(d)
    t = {"strings": [], "types": [], "protos": [], "fields": [], "methods": [], "classes": [], "em": [], "ef": [], "consts": []}
    for i in range(h["string_ids_size"]):
        (off,) = struct.unpack_from("<I", d, h["string_ids_off"] + 4 * i)
        t["strings"].append(_mutf8(d, off))
    for i in range(h["type_ids_size"]):
        t["types"].append(struct.unpack_from("<I", d, h["type_ids_off"] + 4 * i)[0])
    for i in range(h["proto_ids_size"]):
        _, ret, poff = struct.unpack_from("<3I", d, h["proto_ids_off"] + 12 * i)
        ps = []
        if poff:
            (n,) = struct.unpack_from("<I", d, poff)
            ps = list(struct.unpack_from("<%dH" % n, d, poff + 4))
        t["protos"].append((ret, ps))
    for i in range(h["field_ids_size"]):
        c, ty, n = struct.unpack_from("<HHI", d, h["field_ids_off"] + 8 * i)
        t["fields"].append((c, ty, n))
    for i in range(h["method_ids_size"]):
        c, p, n = struct.unpack_from("<HHI", d, h["method_ids_off"] + 8 * i)
        t["methods"].append((c, p, n))
    for ci in range(h["class_defs_size"]):
        cls, _acc, sup, _io, _sf, _an, cdo, _sv = struct.unpack_from("<8I", d, h["class_defs_off"] + 32 * ci)
        t["classes"].append((cls, sup))
        if not cdo:
            continue
        o = cdo
        sizes = []
        for _ in range(4):
            v, o = _uleb(d, o); sizes.append(v)
        for k in range(2):
            prev = 0
            for _ in range(sizes[k]):
                diff, o = _uleb(d, o); _, o = _uleb(d, o)
                prev += diff; t["ef"].append((prev, ci))
        for k in range(2, 4):
            prev = 0
            for _ in range(sizes[k]):
                diff, o = _uleb(d, o); _, o = _uleb(d, o); coff, o = _uleb(d, o)
                prev += diff; t["em"].append((prev, ci))
                if coff:
                    (units,) = struct.unpack_from("<I", d, coff + 12)
                    for _addr, name, _fmt, f, _raw in A.sweep(d[coff + 16: coff + 16 + 2 * units]):
                        if name == "const-string":
                            t["consts"].append((f[0], f[1]))
    return t


# ------------------------------------------------------------------------------------------------
# protocol
# ------------------------------------------------------------------------------------------------
def hx(s: str) -> str:
    return s.encode("utf-8").hex()


def dex_tokens(t):
    tok = ["S:" + hx(s) for s in t["strings"]]
    tok += ["T:%d" % x for x in t["types"]]
    tok += ["P:%d;%s" % (r, ",".join(map(str, ps))) for r, ps in t["protos"]]
    tok += ["F:%d,%d,%d" % x for x in t["fields"]]
    tok += ["M:%d,%d,%d" % x for x in t["methods"]]
    tok += ["C:%d,%d" % x for x in t["classes"]]
    tok += ["EM:%d,%d" % x for x in t["em"]]
    tok += ["EF:%d,%d" % x for x in t["ef"]]
    tok += ["K:%d,%d" % x for x in t["consts"]]
    return " ".join(tok)


def op_tokens(ops):
    return " ".join("o:%s,%d" % (o[0], o[1]) + ("," + hx(o[2]) if len(o) > 2 else "") for o in ops)


RENAMES = ("rc", "rm", "rf")
KINDS = {"rc": "classes", "rm": "em", "rf": "ef", "lc": "classes", "lem": "em", "lef": "ef", "lm": "methods",
         "lf": "fields", "cn": "classes", "sn": "classes", "mn": "em", "mc": "em", "md": "em", "fn": "ef",
         "fc": "ef", "fd": "ef", "in": "methods", "ic": "methods", "id": "methods", "jn": "fields",
         "jc": "fields", "jd": "fields", "ks": "consts", "it": "methods", "ft": "fields"}
WEIGHTS = [("rc", 5), ("rm", 8), ("rf", 5), ("lc", 2), ("lem", 4), ("lef", 3), ("lm", 4), ("lf", 3), ("cn", 5), ("sn", 2),
           ("mn", 9), ("mc", 3), ("md", 2), ("fn", 6), ("fc", 2), ("fd", 2), ("in", 4), ("ic", 2), ("id", 1),
           ("jn", 3), ("jc", 1), ("jd", 1), ("ks", 6), ("it", 2), ("ft", 2)]


def gen_ops(rng, t, maxlen=30, focus=None):
    codes = [c for c, w in WEIGHTS for _ in range(w) if t[KINDS[c]]]
    n = rng.randrange(2, maxlen + 1)
    ops = []
    for _ in range(n):
        c = rng.choice(codes)
        size = len(t[KINDS[c]])
        idx = rng.randrange(size)
        if focus and rng.random() < 0.7:
            pool = focus.get(KINDS[c])
            if pool:
                idx = rng.choice(pool)
        ops.append([c, idx, rng.choice(NEW_NAMES)] if c in RENAMES else [c, idx])
    return ops


# ------------------------------------------------------------------------------------------------
# real side
# ------------------------------------------------------------------------------------------------
class Real:
    def __init__(self, data: bytes):
        from androguard.core import dex
        self.dex = dex
        self.d = dex.DEX(data)
        self.cm = self.d.CM
        self.classes = self.d.get_classes()
        self.em = [m for c in self.classes for m in c.get_methods()]
        self.ef = [f for c in self.classes for f in c.get_fields()]
        self._consts = None

    @property
    def consts(self):
        if self._consts is None:
            self._consts = []
            for m in self.em:                       # cm.get_code: does not load the encoded method
                code = self.cm.get_code(m.get_code_off()) if m.get_code_off() else None
                if code is not None:
                    for ins in code.get_bc().get_instructions():
                        if ins.get_op_value() == 0x1A:
                            self._consts.append(ins)
        return self._consts

    def do(self, op):
        c, n = op[0], op[1]
        cm, K = self.cm, self.dex.Kind
        if c == "rc": self.classes[n].set_name(op[2]); return None
        if c == "rm": self.em[n].set_name(op[2]); return None
        if c == "rf": self.ef[n].set_name(op[2]); return None
        if c == "lc": self.classes[n].reload(); return None
        if c == "lem": self.em[n].reload(); return None
        if c == "lef": self.ef[n].reload(); return None
        if c == "lm": cm.get_method_ref(n).reload(); return None
        if c == "lf": cm.get_field_ref(n).reload(); return None
        if c == "cn": return self.classes[n].get_name()
        if c == "sn": return self.classes[n].get_superclassname()
        if c == "mn": return self.em[n].get_name()
        if c == "mc": return self.em[n].get_class_name()
        if c == "md": return self.em[n].get_descriptor()
        if c == "fn": return self.ef[n].get_name()
        if c == "fc": return self.ef[n].get_class_name()
        if c == "fd": return self.ef[n].get_descriptor()
        if c == "in": return cm.get_method_ref(n).get_name()
        if c == "ic": return cm.get_method_ref(n).get_class_name()
        if c == "id": return cm.get_method_ref(n).get_descriptor()
        if c == "jn": return cm.get_field_ref(n).get_name()
        if c == "jc": return cm.get_field_ref(n).get_class_name()
        if c == "jd": return cm.get_field_ref(n).get_descriptor()
        if c == "ks": return self.consts[n].get_output()
        if c == "it": return self.dex.get_kind(cm, K.METH, n)
        if c == "ft": return self.dex.get_kind(cm, K.FIELD, n)
        raise ValueError(c)

    def run(self, ops):
        out = []
        for op in ops:
            try:
                r = self.do(op)
                out.append("u" if r is None else ("s:" + hx(r) if isinstance(r, str) else "other:" + type(r).__name__))
            except Exception as e:  # noqa
                out.append("other:" + type(e).__name__)
        return out


_SHIPPED_BYTES = {}


def file_bytes(dexid):
    """dexid: a spec dict (generated) or the string "shipped" """
    if dexid == "shipped":
        p = os.path.join(REPO, SHIPPED)
        if p not in _SHIPPED_BYTES:
            _SHIPPED_BYTES[p] = open(p, "rb").read()
        return _SHIPPED_BYTES[p], None
    return build(dexid)


def real_outputs(args):
    dexid, histories = args
    from harness.fw import quiet_androguard
    quiet_androguard()
    data, _ = file_bytes(dexid)
    return [Real(data).run(ops) for ops in histories]


# ------------------------------------------------------------------------------------------------
# oracle: the dictionary
# ------------------------------------------------------------------------------------------------
JUDGED = {"cn": "classes", "mn": "em", "fn": "ef", "in": "methods", "jn": "fields", "ks": "consts"}


def item_of(t, code, n):
    if code in ("rc", "cn"): return ("c", t["classes"][n][0])
    if code in ("rm", "mn"): return ("m", t["em"][n][0])
    if code in ("rf", "fn"): return ("f", t["ef"][n][0])
    if code == "in": return ("m", n)
    if code == "jn": return ("f", n)
    return None


def original(t, item):
    k, i = item
    if k == "c": return t["strings"][t["types"][i]]
    if k == "m": return t["strings"][t["methods"][i][2]]
    return t["strings"][t["fields"][i][2]]


def name_sidx(t, item):
    k, i = item
    return t["types"][i] if k == "c" else (t["methods"][i][2] if k == "m" else t["fields"][i][2])


def oracle(t, ops):
    """-> list of expected answers (None where nothing is demanded), and per-op `shared` marks:
    the judged item (or constant) uses a string index that an earlier rename of ANOTHER item used"""
    cur, exp, shared = {}, [], []
    hooked = {}                                     # string index -> set of items renamed through it
    for op in ops:
        c, n = op[0], op[1]
        if c in RENAMES:
            it = item_of(t, c, n)
            cur[it] = op[2]
            hooked.setdefault(name_sidx(t, it), set()).add(it)
            exp.append(None); shared.append(False)
        elif c == "ks":
            reg, si = t["consts"][n]
            exp.append('v%d, "%s"' % (reg, t["strings"][si]))
            shared.append(bool(hooked.get(si)))
        elif c in JUDGED:
            it = item_of(t, c, n)
            exp.append(cur.get(it, original(t, it)))
            shared.append(bool(hooked.get(name_sidx(t, it), set()) - {it}))
        else:
            exp.append(None); shared.append(False)
    return exp, shared


def judge(t, ops, real):
    """index of the first judged answer that is wrong, or None"""
    exp, _ = oracle(t, ops)
    for i, (e, r) in enumerate(zip(exp, real)):
        if e is not None and r != "s:" + hx(e):
            return i, e
    return None


def shrink(dexid, t, ops, at):
    """greedy removal of operations before the failing query (fresh parse for every attempt)"""
    data, _ = file_bytes(dexid)
    ops = ops[:at + 1]
    changed = True
    budget = 60 if dexid != "shipped" else 6
    while changed and budget > 0:
        changed = False
        for i in range(len(ops) - 1):
            cand = ops[:i] + ops[i + 1:]
            budget -= 1
            j = judge(t, cand, Real(data).run(cand))
            if j is not None and j[0] == len(cand) - 1:
                ops, changed = cand, True
                break
            if budget <= 0:
                break
    return ops


def describe(r):
    return r if not r.startswith("s:") else bytes.fromhex(r[2:]).decode("utf-8", "replace")


def check_histories(ck: Check, drv, groups, stream, stats, nontrivial, max_fail=3):
    """groups: list of (dexid, tables, histories, real outputs). One driver call for all of them."""
    lines, reqs, reals_flat = [], [], []
    for dexid, t, histories, reals in groups:
        toks = dex_tokens(t)
        for ops, real in zip(histories, reals):
            lines.append("rename " + toks + " " + op_tokens(ops))
            reqs.append(json.dumps({"dex": dexid, "ops": ops}, ensure_ascii=True, sort_keys=True))
            reals_flat.append(" ".join(real))
    ck.compare(stream, reqs, reals_flat, drv.ask(lines))
    for dexid, t, histories, reals in groups:
        dkey = dexid if isinstance(dexid, str) else json.dumps(dexid, sort_keys=True)
        for ops, real in zip(histories, reals):
            exp, shared = oracle(t, ops)
            stats["histories"] += 1
            stats["ops"] += len(ops)
            stats["renames"] += sum(1 for o in ops if o[0] in RENAMES)
            stats["judged_answers"] += sum(1 for e in exp if e is not None)
            stats["shared_probes"] += sum(shared)
            stats["exceptions"] += sum(1 for r in real if r.startswith("other:"))
            if any(shared):
                nontrivial.add((dkey, json.dumps(ops)))
            j = judge(t, ops, real)
            if j is None:
                continue
            stats["failed"] += 1
            if stats["failed"] > max_fail:
                continue
            at, e = j
            small = shrink(dexid, t, ops, at)
            data, _ = file_bytes(dexid)
            obs = Real(data).run(small)
            jj = judge(t, small, obs)
            if jj is None:                                      # cannot happen; keep the unshrunk case
                small, obs, jj = ops[:at + 1], real[:at + 1], (at, e)
            what = ("const-string output changed by a rename" if small[jj[0]][0] == "ks"
                    else "an item does not report its current name (%s after %s)" % (small[jj[0]][0], [o[0] for o in small[:jj[0]]]))
            ck.fail({"dex": dexid, "ops": small}, what, key=None, expected=jj[1], observed=describe(obs[jj[0]]))


def new_stats():
    return dict(histories=0, ops=0, renames=0, judged_answers=0, shared_probes=0, exceptions=0, failed=0)


def shared_focus(t):
    """indices of items / constants whose name string is used by more than one of them"""
    users = {}
    for ci, (cls, _s) in enumerate(t["classes"]):
        users.setdefault(t["types"][cls], []).append(("classes", ci))
    em_of = {m: e for e, (m, _o) in enumerate(t["em"])}
    ef_of = {f: e for e, (f, _o) in enumerate(t["ef"])}
    for m, (_c, _p, n) in enumerate(t["methods"]):
        users.setdefault(n, []).append(("methods", m))
        if m in em_of:
            users[n].append(("em", em_of[m]))
    for f, (_c, _t, n) in enumerate(t["fields"]):
        users.setdefault(n, []).append(("fields", f))
        if f in ef_of:
            users[n].append(("ef", ef_of[f]))
    for k, (_r, si) in enumerate(t["consts"]):
        users.setdefault(si, []).append(("consts", k))
    focus = {}
    for si, us in users.items():
        if len({u for u in us if u[0] in ("classes", "em", "ef", "consts")}) > 1 or len(us) > 2:
            for kind, i in us:
                focus.setdefault(kind, []).append(i)
    return focus


# ------------------------------------------------------------------------------------------------
def corpus_cases():
    out = []
    for p in sorted(glob.glob(os.path.join(VERIF, "corpus", "C17", "*.json"))):
        c = json.load(open(p))
        out.append((os.path.basename(p), c["dex"], c["ops"]))
    return out


def tables_for(dexid):
    if dexid == "shipped":
        data, _ = file_bytes(dexid)
        return parse_tables(data)
    return build(dexid)[1]


def run(ck: Check):
    ck.run_gen("renamecfg")
    ck.prove(exes=["drv_C17"])
    drv = Driver("drv_C17")
    rng = ck.rng
    ck.rule = ("history = one DEX file (written by harness/dexasm.py with few member names so that methods, fields, classes and "
               "const-strings share string indices; or the shipped classes.dex) + 2..30 operations (set_name on classes/"
               "methods/fields, reload of class_def/encoded item/id item, get_name/get_class_name/get_descriptor, const-string "
               "output, get_kind METH/FIELD). distinct = distinct (file, history); non-trivial = the history queries an item or "
               "constant whose name string index was used by an earlier rename of ANOTHER item (the D8 shape)")
    stats = new_stats()
    nontrivial = set()

    # 0. corpus first
    groups = []
    for name, dexid, ops in corpus_cases():
        groups.append((dexid, tables_for(dexid), [ops], real_outputs((dexid, [ops]))))
    if groups:
        check_histories(ck, drv, groups, "rename-corpus", stats, nontrivial, max_fail=10)
    # 0b. edges: the texts the model uses for a string / type index outside the pools are the
    #     ones the real get_raw_string / get_string / get_type return there (they do not raise)
    r = Real(build(gen_spec(rng))[0])
    ns, nt = len(r.d.get_strings()), 10 ** 6
    real_markers = []
    for far in (ns, ns + 7, 10 ** 6):
        try:
            real_markers.append("%s %s %s" % (hx(r.cm.get_raw_string(far)), hx(r.cm.get_string(far)), hx(r.cm.get_type(nt + far))))
        except Exception as e:  # noqa
            real_markers.append("other:" + type(e).__name__)
    m = drv.ask(["markers"])[0].split(" ")
    ck.compare("invalid-index-markers", ["string/type index %d" % f for f in (ns, ns + 7, 10 ** 6)], real_markers,
               ["%s %s %s" % (m[0], m[0], m[-1])] * 3)
    # 1. generated files
    nfiles = 160 if ck.quick else 2400
    per_file = 32 if ck.quick else 125
    jobs, metas = [], []
    for _ in range(nfiles):
        spec = gen_spec(rng)
        _, t = build(spec)
        focus = shared_focus(t)
        hs = [gen_ops(rng, t, 30, focus if rng.random() < 0.8 else None) for _ in range(per_file)]
        jobs.append((spec, hs)); metas.append(t)
    if ck.quick:
        results = [real_outputs(j) for j in jobs]
    else:
        with multiprocessing.Pool(16) as pool:
            results = pool.map(real_outputs, jobs, chunksize=8)
    samples = []
    sizes = {"classes": 0, "methods": 0, "fields": 0, "consts": 0, "files_with_shared_names": 0}
    groups = []
    for (spec, hs), t, reals in zip(jobs, metas, results):
        groups.append((spec, t, hs, reals))
        for k in ("classes", "methods", "fields", "consts"):
            sizes[k] += len(t[k])
        sizes["files_with_shared_names"] += 1 if shared_focus(t) else 0
        if len(samples) < 3:
            samples.append({"file": [c["name"] for c in spec["classes"]], "ops": hs[0][:8], "real": [describe(x) for x in reals[0][:8]]})
    for i in range(0, len(groups), 400):
        check_histories(ck, drv, groups[i:i + 400], "rename-generated", stats, nontrivial)
    # 2. shipped file
    p = os.path.join(REPO, SHIPPED)
    if os.path.exists(p):
        t = tables_for("shipped")
        focus = shared_focus(t)
        # keep the focus small: methods sharing a name (the two `Test` of D8 among them) and a few other shared names
        em_names = {}
        for e, (m, _o) in enumerate(t["em"]):
            em_names.setdefault(t["methods"][m][2], []).append(e)
        dup = [es for es in em_names.values() if len(es) > 1]
        rng.shuffle(dup)
        small = {"em": [e for es in dup[:3] for e in es[:3]], "classes": [rng.randrange(len(t["classes"])) for _ in range(2)],
                 "ef": focus.get("ef", [])[:6], "consts": focus.get("consts", [])[:6],
                 "methods": [t["em"][e][0] for es in dup[:3] for e in es[:3]], "fields": focus.get("fields", [])[:6]}
        hs = [gen_ops(rng, t, 30, small) for _ in range(6 if ck.quick else 64)]
        if ck.quick:
            reals = real_outputs(("shipped", hs))
        else:
            with multiprocessing.Pool(16) as pool:
                reals = [r for part in pool.map(real_outputs, [("shipped", hs[i::16]) for i in range(16)]) for r in part]
            hs = [h for i in range(16) for h in hs[i::16]]
        check_histories(ck, drv, [("shipped", t, hs, reals)], "rename-shipped", stats, nontrivial)
        samples.append({"file": "classes.dex", "ops": hs[0][:6], "real": [describe(x) for x in reals[0][:6]]})
    else:
        ck.notes.append("shipped classes.dex not found")
    ck.cover(evaluations=stats["histories"], distinct=nontrivial, samples=samples,
             dist={**stats, **{"gen_" + k: v for k, v in sizes.items()}, "generated_files": nfiles})
    ck.assumptions.append("python export (Session.create_python_export) is not active: the C/M/F attribute maintenance in the "
                          "setters is skipped, as it is for a plain DEX object")
    ck.assumptions.append("ProtoIdItem caches are filled while the file is parsed and never invalidated, so method descriptors "
                          "are constants of the file (checked by the correspondence on get_descriptor / get_kind METH)")
    ck.notes.append("edges: string/type indices outside the pools answer the code's own marker texts (stream invalid-index-markers); "
                    "operations addressed to a non-existing class_def/member/id item/constant are outside the model (Out.err, "
                    "theorem out_of_range_is_err) and are never generated; every file of the correspondence satisfies Dex.wfFull "
                    "(the driver answers not-wf otherwise)")
    ck.partial.append("descriptors, class names of members, superclass names after a class rename are compared with the model "
                      "(correspondence) but not specified by the dictionary: the code keeps stale FieldIdItem.class_idx_value / "
                      "type_idx_value and ClassDefItem.sname until the next reload")


def replay(ck: Check, rp):
    from harness.fw import quiet_androguard
    quiet_androguard()
    c = rp.get("case")
    if c is None and "first_divergence" in rp:
        c = json.loads(rp["first_divergence"]["request"])
    print("replay", json.dumps(c)[:400])
    dexid, ops = c["dex"], c["ops"]
    t = tables_for(dexid)
    real = real_outputs((dexid, [ops]))[0]
    exp, shared = oracle(t, ops)
    try:
        model = Driver("drv_C17").ask(["rename " + dex_tokens(t) + " " + op_tokens(ops)])[0].split(" ")
    except Exception as e:  # noqa
        model = ["?"] * len(ops)
    bad = 0
    for i, op in enumerate(ops):
        flag = ""
        if exp[i] is not None and real[i] != "s:" + hx(exp[i]):
            flag = "   <-- WRONG (expected %r)" % exp[i]; bad += 1
        print("%2d %-28s real=%-30r model=%-30r%s" % (i, op, describe(real[i]), describe(model[i]) if i < len(model) else "?", flag))
    print("failing" if bad else "passing")
    return 1 if bad else 0
