"""C07 — DEX parsing does not depend on the order of the map list (DESIGN.md section 6, C07).

P: gen/mapdeps.py -> Gen/MapDeps.lean (TypeMapItem members, dependency table by AST, the real
   determine_load_order() by reflection); Props/C07.lean (kahn_total, load_order_topological,
   order_injective, sort_perm_invariant, maplist_perm_invariant for every item parser).
T: `kahn` (real determine_load_order on random dependency tables vs the model), `sort`/`order`
   (Python's stable sorted vs sortByKey / orderEntries, duplicates included), `dexperm` (androguard's
   parse of a file with a permuted map vs the Lean file model of C05 on the same bytes), `dexpermx` (the
   same with the extended model: static values, init values, annotations).
S: `dexperm` oracle: the parse of the permuted file must equal the parse of the unpermuted file
   (classes, members, strings, code bytes, static values) — every permutation for maps with <= 7
   entries, seeded random permutations for larger ones; also the shipped DEX files.
"""
import importlib.util
import itertools
import os
from collections import OrderedDict

from harness import dexmodel as M
from harness import dexx as X
from harness.fw import Check, Driver, REPO, hexs
from harness.props import c05


# the hand-modelled functions (Model/LoadOrder.lean, readMap/decMapEntry/step of Model/DexFile.lean)
PINS = [("androguard/core/dex/__init__.py", "MapList.__init__"), ("androguard/core/dex/__init__.py", "MapList.get_item_type"), ("androguard/core/dex/__init__.py", "MapItem.__init__"), ("androguard/core/dex/__init__.py", "MapItem.parse"),
        ("androguard/core/dex/__init__.py", "MapItem.get_length"), ("androguard/core/dex/__init__.py", "ClassManager.add_type_item"), ("androguard/core/dex/__init__.py", "DEX._load"),
        ("androguard/core/dex/dex_types.py", "TypeMapItem.determine_load_order"),
        ("androguard/core/dex/dex_types.py", "TypeMapItem._get_dependencies")]

VERSIONS = ["035", "036", "037", "038", "039", "040", "041", "042", "099"]


def unknown_type_files(rng, big):
    """(origin, bytes, model, index of the alien entry): files of every format version whose map has
    an extra entry of a type code that no format version assigns (size 0/1, harmless offset), written
    last — where a writer that sorts by offset would put a new data-section type"""
    import copy
    out = []
    tiny = {"classes": [], "extra_fields": [], "extra_methods": [], "extra_strings": ["a"],
            "build": {"leb_pad": 0, "shared_handlers": False, "version": "035", "map_order": None}}
    bases = [("tiny", tiny), ("witness", M.WITNESS_KEY_COLLISION)]
    for i in range(12 if big else 3):
        bases.append(("random-u%d" % i, M.gen_model(rng)))
    for name, base in bases:
        for ver in VERSIONS:
            if name.startswith("random") and ver not in ("039", "040", "041"):
                continue
            for t in (M.UNASSIGNED_MAP_TYPES if (big or name == "tiny") else M.UNASSIGNED_MAP_TYPES[:2]):
                m = copy.deepcopy(base)
                m["build"]["version"] = ver
                m["build"]["extra_map"] = [[t, rng.choice([0, 1]), rng.choice([0, "map", 0x70]), -1]]
                data = M.build(m)[0]
                out.append(("%s:v%s:type%04x" % (name, ver, t), data, m, len(M.read_map(data)) - 1))
    return out


def _types_mod():
    spec = importlib.util.spec_from_file_location("_agverif_dex_types_c07", os.path.join(REPO, "androguard/core/dex/dex_types.py"))
    mod = importlib.util.module_from_spec(spec)
    spec.loader.exec_module(mod)
    return mod


def real_kahn(mod, deps):
    """run the real determine_load_order() on a substituted dependency table (keys are ints)"""
    T = mod.TypeMapItem
    orig = T._get_dependencies
    T._get_dependencies = staticmethod(lambda: OrderedDict((k, set(v)) for k, v in deps))
    try:
        o = T.determine_load_order()
        return "ok " + (",".join("%d=%d" % (int(k), v) for k, v in o.items()) or "-")
    except Exception as e:  # noqa
        return "recursive" if "recursive loading dependency" in str(e) else "other:" + type(e).__name__
    finally:
        T._get_dependencies = orig


def full_view(data):
    """the canonical C05 line plus static values and handler tables: everything C07 compares"""
    line = c05.real_line(data)
    if not line.startswith("ok "):
        return line
    from androguard.core import dex
    d = dex.DEX(data)
    extra = []
    for c in d.get_classes():
        for f in c.get_fields():
            iv = f.get_init_value()
            extra.append("-" if iv is None else X.show_real(iv))      # canonical text (nested arrays / annotations included)
        for m in c.get_methods():
            code = m.get_code()
            if code is not None and code.get_tries_size():
                extra.append(";".join("%d.%d.%d" % (t.get_start_addr(), t.get_insn_count(), t.get_handler_off()) for t in code.get_tries()))
                extra.append(bytes(code.get_handlers().get_raw()).hex())
    return line + " X[" + "|".join(extra) + "]"


def perms_for(ck, n, quick, alien=None, size_cap=False):
    """`alien`: index of an entry that must be tried at every position of the map; `size_cap`: a large shipped file
    (each parse takes seconds) gets 5 orders even in the thorough tier, so that the tier ends in tens of minutes"""
    if n <= 5 or (n <= 6 and not quick and not size_cap):
        return list(itertools.permutations(range(n)))
    k = (24 if n <= 7 else 12) if quick else (5 if size_cap else (60 if alien is not None else 80))
    out = [tuple(reversed(range(n)))]
    if alien is not None:
        others = [i for i in range(n) if i != alien]
        out = [tuple(others[:k_] + [alien] + others[k_:]) for k_ in range(n)] + out
    base = list(range(n))
    for _ in range(k - 1):
        p = base[:]
        ck.rng.shuffle(p)
        out.append(tuple(p))
    return out


def run(ck: Check):
    ck.pins_changed(PINS)
    big = (not ck.quick) or ck.escalated     # a hand-modelled function changed: thorough sizes in the quick tier too
    ck.run_gen("mapdeps")
    ck.prove(exes=["drv_C07", "drv_C05"])
    drv = Driver("drv_C07")
    drv5 = Driver("drv_C05")
    mod = _types_mod()
    rng = ck.rng
    ck.rule = ("dexperm: generated DEX files (harness/dexmodel, format versions 035..041) and shipped DEX files, plus files of "
               "versions 035..099 with an extra map entry of an unassigned type code tried at every position; map entries "
               "permuted (all permutations for small maps, seeded random ones otherwise), checksums re-fixed; the outcome (parse "
               "result or error class) must be the same for every order; distinct = (file, permutation); "
               "non-trivial = permutation other than the identity on a file with classes")
    # ---- T: kahn on the real table and on random tables
    reqs, real = [], []
    real_tab = [(int(k), sorted(int(x) for x in v)) for k, v in mod.TypeMapItem._get_dependencies().items()]
    tables = [real_tab]
    for _ in range(300 if ck.quick else 20000):
        n = rng.randrange(0, 9)
        keys = rng.sample(range(1, 40), n)
        cyc = rng.random() < 0.3
        tab = []
        for i, k in enumerate(keys):
            pool = keys if cyc else keys[:i]
            ds = sorted(set(rng.sample(pool, rng.randrange(0, min(3, len(pool)) + 1)))) if pool else []
            if rng.random() < 0.05:
                ds.append(99)            # a dependency that is not a key: never loaded
            tab.append((k, ds))
        rng.shuffle(tab)
        tables.append(tab)
    for tab in tables:
        reqs.append("kahn " + (";".join("%d:%s" % (k, ",".join(map(str, ds)) or "-") for k, ds in tab) or "-"))
        real.append(real_kahn(mod, tab))
    ck.compare("kahn", reqs, real, drv.ask(reqs))
    n_rec = sum(1 for r in real if r == "recursive")
    # the generated table must be what the real function returns now
    lo = mod.TypeMapItem.determine_load_order()
    ck.compare("table", ["table"], [",".join("%d=%d" % (int(k), v) for k, v in lo.items())], drv.ask(["table"]))
    # ---- T: stable sort / orderEntries
    reqs, real = [], []
    members = [int(x) for x in mod.TypeMapItem]
    for _ in range(400 if ck.quick else 20000):
        ks = [rng.randrange(0, 6) for _ in range(rng.randrange(0, 10))]
        reqs.append("sort " + (",".join(map(str, ks)) or "-"))
        real.append(",".join(str(i) for i in sorted(range(len(ks)), key=lambda i: ks[i])) or "-")
        ts = [rng.choice(members) for _ in range(rng.randrange(0, 14))]
        if rng.random() < 0.1:
            ts.append(0x9999)
        reqs.append("order " + (",".join(map(str, ts)) or "-"))
        try:
            real.append("ok " + (",".join(str(i) for i in sorted(range(len(ts)), key=lambda i: lo[mod.TypeMapItem(ts[i])])) or "-"))
        except (KeyError, ValueError):
            real.append("keyerror")
    ck.compare("sort", reqs, real, drv.ask(reqs))
    # ---- S + T: dexperm
    files = []
    files.append(("witness:key-collision", M.build(M.WITNESS_KEY_COLLISION)[0], M.WITNESS_KEY_COLLISION))
    alien = {}
    for origin, data, model, u in unknown_type_files(rng, big):
        files.append((origin, data, model))
        alien[origin] = u
    for i in range(600 if not ck.quick else (800 if ck.escalated else 160)):
        model = M.gen_model(rng)          # format versions 035..041
        if i % 2:                          # explicit static values (all value types) and annotations of every kind
            model = X.enrich(rng, model, long_values=True)
        files.append(("random:%d" % i, M.build(model)[0], model))
    seen_shipped = set()
    for name, data in c05.shipped_dex():
        if len(data) <= (3000000 if not ck.quick else 40000) and hash(data) not in seen_shipped:
            seen_shipped.add(hash(data))          # the test data holds several copies of the same classes.dex
            files.append((name, data, None))
    dist = {"files": 0, "parses": 0, "map_entries_min": 99, "map_entries_max": 0, "exhaustive_files": 0,
            "files_with_annotations_or_static_values": 0, "files_with_unassigned_map_type": len(alien),
            "files_version_ge_040": 0, "outcome_error_files": 0}
    distinct = set()
    treqs, treal, tcase = [], [], []
    xreqs, xreal, xcase = [], [], []
    samples = []
    for origin, data, model in files:
        ents = M.read_map(data)
        n = len(ents)
        types = [e[0] for e in ents]
        if len(set(types)) != n:
            ck.notes.append("%s has duplicate map types (outside the hypothesis), skipped" % origin)
            continue
        base = full_view(data)
        dist["files"] += 1
        dist["map_entries_min"] = min(dist["map_entries_min"], n)
        dist["map_entries_max"] = max(dist["map_entries_max"], n)
        dist["files_with_annotations_or_static_values"] += any(t in (0x2005, 0x2006, 0x2004) for t in types)
        perms = perms_for(ck, n, not big, alien.get(origin), size_cap=len(data) > 100000)
        dist["files_version_ge_040"] += data[4:7] >= b"040"
        dist["outcome_error_files"] += base.startswith("err")
        dist["exhaustive_files"] += len(perms) > 1 and len(perms) == len(set(perms)) and n <= 7 and len(perms) >= 120
        small = len(data) <= 20000
        for pi, p in enumerate(perms):
            pdata = M.permute_map(data, list(p))
            got = full_view(pdata)
            dist["parses"] += 1
            if p != tuple(range(n)) and "C[]" not in base:
                distinct.add((origin, p))
            if got != base:
                e, o = c05.first_diff(base, got)
                case = {"origin": origin, "perm": list(p), "map_types": types}
                if model is not None:
                    case["model"] = model
                case["version"] = data[4:7].decode("ascii", "replace")
                ck.fail(case, "outcome (parse result or error class) for the file with a permuted map list differs from the "
                              "outcome for the original order", None, e, o)
                break
            if small and (pi < 3):
                treqs.append("dex " + hexs(pdata))
                treal.append(got.split(" X[")[0])
                tcase.append({"origin": origin, "perm": list(p)})
                if pi < 2:                 # the extended model (Model/DexFileX.lean) on the permuted file
                    xreqs.append("dexx " + hexs(pdata))
                    xreal.append(c05.real_line_x(pdata))
                    xcase.append({"origin": origin, "perm": list(p)})
        if len(samples) < 3 and n > 8:
            samples.append({"origin": origin, "map_types": types, "permutations": len(perms), "perm": list(perms[-1])})
    tmodel = drv5.ask(treqs)
    ck.compare("dexperm", ["dexperm %s %s" % (c["origin"], c["perm"]) for c in tcase], treal, tmodel)
    ck.compare("dexpermx", ["dexpermx %s %s" % (c["origin"], c["perm"]) for c in xcase], xreal, drv5.ask(xreqs))
    for m in ck.corr_mismatch:
        if m["stream"] in ("dexperm", "dexpermx"):
            m["real"], m["model"] = c05.first_diff(m["real"], m["model"])
    ck.cover(evaluations=dist["parses"], distinct=distinct, samples=samples,
             dist=dict(dist, kahn_tables=len(tables), kahn_recursive=n_rec))
    ck.partial.append("frame/adequacy theorems cover the ten item types of Model/DexFile.lean (step_frame, deps_adequate) and, for the "
                      "extended loader of Model/DexFileX.lean, encoded arrays, annotation items / sets / set-ref-lists / directories and "
                      "the full ClassDefItem.reload (stepX_frame, depsX_adequate); for debug info, call sites, method handles and "
                      "hidden-api data the dependency table stays the code's own claim, validated by dexperm; the file-level geometric "
                      "theorems (parse_perm_invariant…) are stated for the base loader")
    ck.partial.append("parse_perm_invariant assumes the decidable hypothesis sameItems (no item decodes differently after the map list "
                      "was rewritten); parse_perm_invariant_disjoint derives it from the geometry of the original file except for an "
                      "item section that starts below the map list and fails to decode; parse_perm_needs_items shows the hypothesis "
                      "is necessary")
    ck.assumptions += ["Python's sorted() is stable (modelled as insertion sort); dict/OrderedDict iteration is insertion order",
                       "maps with duplicate types are outside the hypothesis (reported in notes, not judged)"]


def replay(ck: Check, rp):
    c = rp.get("case") or {}
    if "perm" not in c:
        print("nothing to replay:", rp.get("kind"), rp.get("first_divergence"))
        return 0
    if c.get("model") is not None:
        data = M.build(c["model"])[0]
    else:
        data = dict(c05.shipped_dex()).get(c["origin"])
    if data is None:
        print("cannot rebuild", c.get("origin"))
        return 0
    a = full_view(data)
    b = full_view(M.permute_map(data, c["perm"]))
    print("origin:", c["origin"], "perm:", c["perm"], "map types:", [hex(e[0]) for e in M.read_map(data)])
    if a == b:
        print("permuted parse == original parse")
        return 0
    e, o = c05.first_diff(a, b)
    print("original:", e)
    print("permuted:", o)
    return 1
