"""C22 — decompilation output is deterministic (DESIGN.md section 6 C22, section 8 hook H2, defect D10).

P  gen/ordersites.py (AST scan of androguard/decompiler/*.py -> Gen/OrderSites.lean), Props/C22.lean
   (`sites_covered`: every hash-iteration site of the tree under test is a modelled order-irrelevant one).
T  per-site correspondence: the real classes (Interval.compute_end, Node.update_attribute_with,
   BasicBlock.add_variable_declaration, get_used_vars, short_circuit_struct/MergeNodes, common_dom fold,
   loop_follow, Graph.post_order) run in fresh worker processes under several (PYTHONHASHSEED, hash salt)
   layouts, each reply compared with the Lean model (drv_C22).
S  the property itself: classes of the shipped DEX/APK files decompiled by the real decompiler in fresh
   processes under 8 (quick) / 18 (thorough: every order once) combinations of PYTHONHASHSEED x hash salt x order
   (methods alone, whole class first, reverse, class processed twice); every text must be byte-identical.
The hash-salt dimension needs hook H2 (fixes/hook-H2-hashsalt.diff) in the tree under test: without it the
check runs the PYTHONHASHSEED dimension only and ends as a tool failure (exit 2), never as a verdict.
"""
import difflib
import glob
import hashlib
import json
import os
import random
import shutil
import subprocess
import sys
import tempfile
import time
import zipfile
from concurrent.futures import ThreadPoolExecutor

from harness import fw
from harness.fw import Check, Driver, ToolFailure

HOOK = ["Node", "Interval", "Variable"]
# hand-modelled / assumed functions: a changed normalised-AST hash escalates the run (never a verdict)
PINS = [
    ("androguard/decompiler/util.py", "get_access_class"),
    ("androguard/decompiler/util.py", "get_access_method"),
    ("androguard/decompiler/util.py", "get_access_field"),
    ("androguard/decompiler/util.py", "common_dom"),
    ("androguard/decompiler/decompile.py", "DvMethod.__init__"),
    ("androguard/decompiler/decompile.py", "DvMethod.process"),
    ("androguard/decompiler/decompile.py", "DvMethod._init_variables"),
    ("androguard/decompiler/decompile.py", "DvClass.process"),
    ("androguard/decompiler/decompile.py", "DvClass.__init__"),
    ("androguard/decompiler/decompile.py", "DvClass.process_method"),
    ("androguard/decompiler/dast.py", "JSONWriter.get_ast"),
    ("androguard/decompiler/node.py", "Node.update_attribute_with"),
    ("androguard/decompiler/node.py", "Interval.compute_end"),
    ("androguard/decompiler/node.py", "Interval.add_node"),
    ("androguard/decompiler/basic_blocks.py", "BasicBlock.add_variable_declaration"),
    ("androguard/decompiler/control_flow.py", "short_circuit_struct"),
    ("androguard/decompiler/control_flow.py", "loop_follow"),
    ("androguard/decompiler/control_flow.py", "intervals"),
    ("androguard/decompiler/control_flow.py", "derived_sequence"),
    ("androguard/decompiler/graph.py", "Graph.add_edge"),
    ("androguard/decompiler/graph.py", "Graph.all_preds"),
    ("androguard/decompiler/graph.py", "Graph.compute_rpo"),
    ("androguard/decompiler/graph.py", "Graph.post_order"),
    ("androguard/decompiler/node.py", "Interval.__init__"),
    ("androguard/decompiler/node.py", "Interval.__contains__"),
    ("androguard/decompiler/control_flow.py", "if_struct"),
    ("androguard/decompiler/control_flow.py", "switch_struct"),
    ("androguard/decompiler/dataflow.py", "place_declarations"),
    ("androguard/decompiler/writer.py", "Writer.visit_node"),
    ("androguard/decompiler/writer.py", "Writer.write_method"),
    ("androguard/decompiler/graph.py", "dom_lt"),
    ("androguard/decompiler/graph.py", "GenInvokeRetName"),
]
# the ORDER dimension: source-only orders and orders in which AST-mode requests (A/a methods, X/x classes; fresh
# DvMethod/DvClass objects, as DecompilerDAD.get_ast_method/get_ast_class create them) precede or follow the source
# requests whose text is compared.  The first 8 are the quick tier.
# F = fault then retry: process() aborted by an injected exception / small recursion limit, then process() again on
# the same DvMethod; its text must equal the text of a fresh object.
ORDERS = ["M", "AM", "FCM", "XC", "Mrev", "MaF", "C2", "Cx",
          "MC", "aM", "C", "xM", "AXC", "MX", "CA", "XM", "FM", "CF"]
CORPUS = os.path.join(fw.VERIF, "corpus", "C22")


# ----------------------------------------------------------------------------------------- workers
class Pool:
    def __init__(self, ck):
        self.ck = ck
        self.tmp = tempfile.mkdtemp(prefix="c22-")
        self.n = 0
        self.workers = max(2, min(16, (os.cpu_count() or 4)))
        self.timeout = 900 if ck.quick else 3000

    def close(self):
        shutil.rmtree(self.tmp, ignore_errors=True)

    def run_one(self, job):
        """job = (spec, hashseed, salt) -> worker output dict"""
        spec, hashseed, salt = job
        self.n += 1
        base = os.path.join(self.tmp, "j%d_%d" % (os.getpid(), id(job)))
        with open(base + ".spec", "w") as f:
            json.dump(spec, f)
        env = dict(os.environ, PYTHONPATH=fw.REPO + os.pathsep + fw.VERIF, PYTHONDONTWRITEBYTECODE="1",
                   ANDROGUARD_VERIF="1", PYTHONHASHSEED=str(hashseed))
        env.pop("ANDROGUARD_VERIF_HASHSALT", None)
        if salt is not None:
            env["ANDROGUARD_VERIF_HASHSALT"] = str(salt)
        try:
            p = subprocess.run([sys.executable, "-m", "harness.c22_worker", base + ".spec", base + ".out"],
                               env=env, cwd=fw.VERIF, capture_output=True, text=True, timeout=self.timeout)
        except subprocess.TimeoutExpired:
            raise ToolFailure("worker timed out after %ds on %s" % (self.timeout, spec.get("file", "sites")))
        if p.returncode != 0:
            raise ToolFailure("worker failed on %s: %s" % (spec.get("file", "sites"), p.stderr[-600:]))
        with open(base + ".out") as f:
            out = json.load(f)
        os.unlink(base + ".out"); os.unlink(base + ".spec")
        return out

    def map(self, jobs):
        with ThreadPoolExecutor(self.workers) as ex:
            return list(ex.map(self.run_one, jobs))


def configs(ck, n):
    """n (hashseed, salt, order) combinations, derived from the seed"""
    rng = random.Random("C22/configs/%d" % ck.seed)
    out = []
    for i in range(n):
        out.append((rng.randrange(0, 2 ** 32), "%08x" % rng.randrange(0, 2 ** 32), ORDERS[i % len(ORDERS)]))
    return out


# ----------------------------------------------------------------------------------------- inputs
def data_files():
    """shipped DEX/APK files that androguard recognises, one per distinct DEX content"""
    from androguard.core import androconf
    root = os.path.join(fw.REPO, "tests", "data")
    seen, out, dups = {}, [], 0
    paths = []
    for d, _, fs in os.walk(root):
        for f in fs:
            p = os.path.join(d, f)
            if f.lower().endswith((".dex", ".apk", ".odex", ".dey")) and os.path.getsize(p) > 0:
                paths.append(p)
    for p in sorted(paths):
        try:
            ftype = androconf.is_android(p)
        except Exception:  # noqa
            ftype = None
        if ftype not in ("APK", "DEX", "DEY"):
            continue
        h = hashlib.sha256()
        size = 0
        try:
            if ftype == "APK":
                with zipfile.ZipFile(p) as z:
                    names = sorted(n for n in z.namelist() if n.startswith("classes") and n.endswith(".dex"))
                    if not names:
                        continue
                    for n in names:
                        b = z.read(n); h.update(b); size += len(b)
            else:
                b = open(p, "rb").read(); h.update(b); size = len(b)
        except Exception:  # noqa: unusual zip: keep it, keyed by the whole file
            b = open(p, "rb").read(); h.update(b); size = len(b)
        k = h.hexdigest()
        if k in seen:
            dups += 1
            continue
        seen[k] = p
        out.append((p, size))
    return out, dups


def generated_files(ck, tmp):
    """DEX files with loops / short-circuit conditions / breaks / try-catch written with the shared assembler
    harness/dexasm.py (when it exists): harness/c22_gen.py"""
    if not os.path.exists(os.path.join(fw.VERIF, "harness", "dexasm.py")):
        return []
    try:
        from harness import c22_gen
        blobs = c22_gen.generate(random.Random("C22/gen/%d" % ck.seed), 6 if ck.quick else 24)
    except Exception as e:  # noqa: the assembler is somebody else's file; never a verdict
        ck.notes.append("dexasm present but unusable for C22: %s: %s" % (type(e).__name__, e))
        return []
    out = []
    for i, blob in enumerate(blobs):
        p = os.path.join(tmp, "gen%d.dex" % i)
        with open(p, "wb") as f:
            f.write(blob)
        out.append((p, len(blob)))
    return out


def corpus_cases():
    out = []
    for p in sorted(glob.glob(os.path.join(CORPUS, "*.json"))):
        with open(p) as f:
            out.append(json.load(f))
    return out


# ----------------------------------------------------------------------------------------- oracle
def group_key(k):
    """M/K keys of one method, C/R keys of one class must all carry the same source text;
    A keys of one method / X keys of one class the same JSON AST text"""
    return {"M": "m ", "K": "m ", "F": "m ", "C": "c ", "R": "c ", "A": "a ", "X": "x "}[k[0]] + k[2:]


def compare_outputs(runs):
    """runs: list of (config, results dict). -> {group: {sha: [(config, key)]}} for the groups that differ"""
    groups = {}
    for cfg, res in runs:
        for k, v in res.items():
            groups.setdefault(group_key(k), {}).setdefault(v, []).append((cfg, k))
    return {g: v for g, v in groups.items() if len(v) > 1}, len(groups)


def fetch_text(pool, path, spec, cfg, key):
    """re-run exactly the job of the sweep (same class list, same order, same seed and salt: with hook H2 the
    hashes are a function of the creation order and the salt, so the run is reproducible) and return one text"""
    hs, salt, order = cfg
    out = pool.run_one((dict(spec, file=path, order=order, want=[key]), hs, salt))
    return out["sources"].get(key), out["results"].get(key)


def explain(a, b):
    d = list(difflib.unified_diff((a or "").splitlines(), (b or "").splitlines(), "A", "B", n=0, lineterm=""))
    return d[:14]


def report_diffs(ck, pool, path, spec, diffs, limit):
    rel = os.path.relpath(path, fw.REPO) if path.startswith(fw.REPO) else os.path.basename(path)
    gen = {}
    if not path.startswith(fw.REPO):        # a generated file: the replay carries its bytes
        import base64
        with open(path, "rb") as f:
            gen = {"generated_dex_b64": base64.b64encode(f.read()).decode()}
    spec = {k: v for k, v in spec.items() if k not in ("file", "order", "want")}
    n = 0
    # methods first (smaller texts), then whole classes
    for g, variants in sorted(diffs.items(), key=lambda kv: ("maxc".index(kv[0][0]), kv[0])):
        if n >= limit:
            break
        cls = g.split(" ")[1]
        (sa, la), (sb, lb) = sorted(variants.items(), key=lambda kv: -len(kv[1]))[:2]
        (cfga, ka), (cfgb, kb) = la[0], lb[0]
        ta, ha = fetch_text(pool, path, spec, cfga, ka)
        tb, hb = fetch_text(pool, path, spec, cfgb, kb)
        case = {"file": rel, "class": cls, "group": g, "spec": spec, **gen,
                "a": {"hashseed": cfga[0], "salt": cfga[1], "order": cfga[2], "key": ka},
                "b": {"hashseed": cfgb[0], "salt": cfgb[1], "order": cfgb[2], "key": kb},
                "variants": len(variants)}
        what = ("decompiled text of %s differs between two runs (hash seed / memory layout / order)" % g)
        if ta is not None and tb is not None and ta != tb:
            ck.fail(case, what, None, expected=explain(ta, tb), observed="sha %s vs %s" % (ha, hb))
        else:
            case["sweep_only"] = True
            ck.fail(case, what + " [seen in the sweep; not reproduced by the rerun]", None,
                    expected="sha " + sa, observed="sha " + sb)
        n += 1
    return n


def sweep(ck, pool, files, cfgs, nclasses, include, stream):
    """decompile (a sample of) every file under every config; compare. returns stats"""
    jobs, meta, specs = [], [], {}
    for path, size in files:
        spec0 = {"file": path, "lazy": nclasses is not None, "fault_seed": ck.seed}
        specs[path] = spec0
        if nclasses is not None:
            spec0["sample"] = {"seed": "C22/%d/%s" % (ck.seed, os.path.basename(path)), "n": nclasses,
                               "include": include.get(os.path.basename(path), [])}
        for cfg in cfgs:
            hs, salt, order = cfg
            jobs.append((dict(spec0, order=order), hs, salt))
            meta.append((path, cfg))
    outs = pool.map(jobs)
    byfile = {}
    faults = {}
    hook_missing = False
    for (path, cfg), out in zip(meta, outs):
        if cfg[1] is not None and out.get("hook") != HOOK:
            hook_missing = True
        byfile.setdefault(path, []).append((cfg, out["results"]))
        for k, v in (out.get("faults") or {}).items():
            faults["fault " + k] = faults.get("fault " + k, 0) + v
    tot_groups = tot_diff = tot_texts = 0
    distinct = set()
    for path, runs in byfile.items():
        diffs, ngroups = compare_outputs(runs)
        tot_groups += ngroups
        tot_texts += sum(len(r) for _, r in runs)
        tot_diff += len(diffs)
        for _, r in runs[:1]:
            for k, v in r.items():
                if k[0] in "MK" and not v.startswith("EXC"):
                    distinct.add(v)
        if diffs:
            report_diffs(ck, pool, path, specs[path], diffs, limit=2)
    if faults:
        ck.cover(dist=faults)
    ck.cover(evaluations=tot_texts, distinct=distinct,
             dist={stream + "_files": len(byfile), stream + "_configs": len(cfgs), stream + "_groups": tot_groups,
                   stream + "_groups_differing": tot_diff})
    return hook_missing, tot_groups, tot_diff


# ----------------------------------------------------------------------------------------- leg T
DSEQ_WITNESS = [(1, 2), (2, 3), (3, 5), (5, 3), (3, 2), (2, 4), (1, 4)]
DSEQ_FIXED = [
    (DSEQ_WITNESS, [1, 2, 3, 4, 5]),
    (DSEQ_WITNESS, [1, 4, 2, 3, 5]),
    ([(1, 2), (1, 3), (2, 3), (3, 2)], [1, 2, 3]),
    ([(1, 2), (2, 3), (3, 4), (4, 3), (4, 2), (2, 5)], [1, 2, 3, 4, 5]),
]
def csv(xs):
    return ",".join(str(x) for x in xs) or "-"


def gen_site_cases(ck, n):
    rng = random.Random("C22/sites/%d" % ck.seed)
    cases, reqs = [], []

    def add(case, *lines):
        cases.append(case); reqs.append(list(lines))

    for _ in range(n):
        # compute_end
        k = rng.randrange(1, 8)
        inside = list(range(1, k + 1))
        rest = inside[1:]; rng.shuffle(rest)
        ins = [1] + rest
        allv = inside + [k + 1, k + 2]
        edges = []
        for _e in range(rng.randrange(0, 2 * k + 2)):
            e = (rng.choice(inside), rng.choice(allv))
            if e not in edges:
                edges.append(e)
        add({"op": "cend", "ins": ins, "edges": edges},
            "cend 1 %s %s" % (csv(ins), ",".join("%d>%d" % e for e in edges) or "-"))
        # loop_nodes
        loop = [rng.randrange(1, 9) for _ in range(rng.randrange(0, 7))]
        loop = list(dict.fromkeys(loop)) if rng.random() < .7 else loop
        nmap = {}
        for _m in range(rng.randrange(0, 4)):
            nmap[str(rng.randrange(1, 9))] = rng.randrange(1, 12)
        add({"op": "loopn", "loop": loop, "nmap": nmap},
            "loopn %s %s" % (csv(loop), ",".join("%s=%d" % kv for kv in nmap.items()) or "-"))
        # declarations
        adds = [rng.randrange(0, 8) for _ in range(rng.randrange(0, 9))]
        add({"op": "decl", "adds": adds}, "decl " + csv(adds))
        # used vars
        kind = rng.choice(["filled", "static", "invoke", "binary"])
        m = 2 if kind == "binary" else rng.randrange(1, 7)
        args = [rng.choice([rng.randrange(0, 16), rng.randrange(0, 40), 1000 + rng.randrange(1, 30)]) for _ in range(m)]
        add({"op": "used", "kind": kind, "args": args}, "used " + csv(args))
        # MergeNodes through short_circuit_struct
        npred = rng.randrange(1, 5)
        ids = list(range(1, 5 + npred)); rng.shuffle(ids)
        A, B, X, Y = ids[:4]; P = ids[4:]
        pat = rng.randrange(4)
        ea = [(A, B), (A, X)]; eb = [(B, X), (B, Y)]
        rng.shuffle(ea); rng.shuffle(eb)
        ep = [(p, A) for p in P]
        extra = [(P[0], P[i]) for i in range(1, len(P)) if rng.random() < .5]
        edges = ep + ea + eb + extra
        rng.shuffle(edges)
        if (P[0], A) not in edges:
            edges.append((P[0], A))
        order = ids[:]; rng.shuffle(order)
        preds_a = [a for a, b in edges if b == A]
        sucs_a = [b for a, b in edges if a == A]
        sucs_b = [b for a, b in edges if a == B]
        add({"op": "merge", "nodes": {"A": A, "B": B, "X": X, "Y": Y, "P": P}, "pattern": pat, "edges": edges,
             "order": order},
            "merge %d %d %s %s" % (A, B, csv(preds_a), csv([A])),
            "msuccs %d %d %s %s -" % (A, B, csv(sucs_a), csv(sucs_b)))
        # common_dom fold
        nn = rng.randrange(1, 10)
        par = [0, 0] + [rng.randrange(1, i) for i in range(2, nn + 1)]
        nodes = rng.sample(range(1, nn + 1), rng.randrange(1, min(nn, 4) + 1))
        add({"op": "cdom", "parents": par, "nodes": nodes}, "cdom %s %s" % (csv(par), csv(nodes)))
        # common_dom fold, general form: ids independent of the numbers, forest with 1 (usually) or 2 roots
        nn = rng.randrange(1, 10)
        ids = rng.sample(range(1, 40), nn)
        numv = sorted(rng.sample(range(1, 90), nn))          # ids[k] is numbered numv[k]; parents come earlier
        nroots = 2 if (nn >= 2 and rng.random() < .12) else 1
        parents = {}
        for k in range(nn):
            parents[str(ids[k])] = None if k < nroots else ids[rng.randrange(0, k)]
        gnums = {str(ids[k]): numv[k] for k in range(nn)}
        gnodes = rng.sample(ids, rng.randrange(1, min(nn, 4) + 1))
        add({"op": "cdomg", "parents": parents, "nums": gnums, "nodes": gnodes},
            "cdomg %s %s %s" % (",".join("%s=%d" % (k, v) for k, v in parents.items() if v is not None) or "-",
                                ",".join("%s=%d" % kv for kv in gnums.items()), csv(gnodes)))
        # loop_follow (endless branch)
        kk = rng.randrange(1, 6)
        loop = list(range(1, kk + 1)); rng.shuffle(loop)
        outside = list(range(10, 16))
        nums = {str(i): i for i in loop}
        onum = rng.sample(range(20, 60), len(outside))
        nums.update({str(o): v for o, v in zip(outside, onum)})
        info = {}
        for i in loop:
            if rng.random() < .65:
                info[str(i)] = [True, rng.choice(loop + outside + outside), rng.choice(loop + outside + outside)]
        add({"op": "lfollow", "info": info, "nums": nums, "loop": loop},
            "lfollow %s %s %s" % (";".join("%s:1:%d:%d" % (n, t, f) for n, (_, t, f) in info.items()) or "-",
                                  ",".join("%s=%d" % kv for kv in nums.items()), csv(loop)))
        # post order
        nv = rng.randrange(1, 9)
        edges = []
        for _e in range(rng.randrange(0, 2 * nv + 1)):
            e = (rng.randrange(1, nv + 1), rng.randrange(1, nv + 1))
            if e not in edges:
                edges.append(e)
        add({"op": "post", "edges": edges, "entry": 1},
            "post %s 1" % (",".join("%d>%d" % e for e in edges) or "-"))
        # intervals(graph) on a rooted graph: spanning tree from node 1 plus random extra edges (back edges, self
        # loops, irreducible entries); graph.nodes in a shuffled insertion order
        nv = rng.randrange(1, 10)
        edges = [(rng.randrange(1, i), i) for i in range(2, nv + 1)]
        for _e in range(rng.randrange(0, nv + 2)):
            e = (rng.randrange(1, nv + 1), rng.randrange(1, nv + 1))
            if e not in edges:
                edges.append(e)
        rng.shuffle(edges)
        order = list(range(1, nv + 1)); rng.shuffle(order)
        add({"op": "intv", "edges": edges, "nodes": order, "entry": 1},
            "intv %s %s 1" % (",".join("%d>%d" % e for e in edges) or "-", csv(order)))
        # derived_sequence(graph) on a rooted graph of the same family (up to 13 nodes, denser): every level is
        # compared — interv_heads with contents, the recorded interval-graph edges, reverse_edges, rpo, entry —
        # with interval nodes named by their position in interval_graph.nodes
        for _k in range(2):
            nv = rng.randrange(1, 14)
            edges = [(rng.randrange(1, i), i) for i in range(2, nv + 1)]
            for _e in range(rng.randrange(0, nv + 4)):
                e = (rng.randrange(1, nv + 1), rng.randrange(1, nv + 1))
                if e not in edges:
                    edges.append(e)
            rng.shuffle(edges)
            order = list(range(1, nv + 1)); rng.shuffle(order)
            add({"op": "dseq", "edges": edges, "nodes": order, "entry": 1},
                "dseq %s %s 1" % (",".join("%d>%d" % e for e in edges) or "-", csv(order)))
        # if_struct(graph, idoms): rooted graph, random conditional nodes, numbers (a permutation; one case in eight
        # with a tie), a random idoms dict in a shuffled insertion order; the set `unresolved` is enumerated by the
        # real code in hash order (salted), by the model in insertion order
        nv = rng.randrange(2, 11)
        edges = [(rng.randrange(1, i), i) for i in range(2, nv + 1)]
        for _e in range(rng.randrange(0, nv + 3)):
            e = (rng.randrange(1, nv + 1), rng.randrange(1, nv + 1))
            if e not in edges:
                edges.append(e)
        rng.shuffle(edges)
        conds = [i for i in range(1, nv + 1) if rng.random() < 0.6]
        perm = list(range(1, nv + 1)); rng.shuffle(perm)
        nums = {str(i): perm[i - 1] for i in range(1, nv + 1)}
        if rng.randrange(8) == 0:
            nums[str(rng.randrange(1, nv + 1))] = rng.randrange(1, nv + 1)
        idoms = [(i, rng.randrange(1, nv + 1)) for i in range(2, nv + 1)]
        rng.shuffle(idoms)
        add({"op": "ifst", "edges": edges, "entry": 1, "conds": conds, "nums": nums, "idoms": idoms},
            "ifst %s 1 %s %s %s" % (",".join("%d>%d" % e for e in edges) or "-", csv(conds),
                                    ",".join("%d=%d" % p for p in idoms) or "-",
                                    ",".join("%s=%d" % (k, v) for k, v in nums.items())))
        # switch_struct(graph, idoms): rooted graph, random switch nodes, pairwise different numbers, an idoms dict
        # that is a tree towards smaller numbers (so that common_dom terminates; the node with the smallest number
        # maps to None; one case in ten drops a key -> KeyError), shuffled insertion order
        nv = rng.randrange(2, 11)
        edges = [(rng.randrange(1, i), i) for i in range(2, nv + 1)]
        for _e in range(rng.randrange(0, nv + 3)):
            e = (rng.randrange(1, nv + 1), rng.randrange(1, nv + 1))
            if e not in edges:
                edges.append(e)
        rng.shuffle(edges)
        sws = [i for i in range(1, nv + 1) if rng.random() < 0.5]
        perm = list(range(1, nv + 1)); rng.shuffle(perm)
        nums = {str(i): perm[i - 1] for i in range(1, nv + 1)}
        bynum = sorted(range(1, nv + 1), key=lambda i: perm[i - 1])
        idoms = [(bynum[0], 0)] + [(bynum[k], bynum[rng.randrange(0, k)]) for k in range(1, nv)]
        if rng.randrange(10) == 0:
            idoms.pop(rng.randrange(len(idoms)))
        rng.shuffle(idoms)
        add({"op": "swst", "edges": edges, "entry": 1, "switches": sws, "nums": nums, "idoms": idoms},
            "swst %s 1 %s %s %s" % (",".join("%d>%d" % e for e in edges) or "-", csv(sws),
                                    ",".join("%d=%d" % p for p in idoms) or "-",
                                    ",".join("%s=%d" % (k, v) for k, v in nums.items())))
        # update_attribute_with of a Node / CondBlock / SwitchBlock (the body of the to_update loops) on one node
        nn = rng.randrange(2, 8)
        kind = rng.choice("bcs")
        rn = lambda: rng.randrange(1, nn + 1)          # noqa
        r0 = lambda: rng.randrange(0, nn + 1)          # noqa
        latch, fol = r0(), [r0(), r0(), r0()]
        lnodes = [rn() for _i in range(rng.randrange(0, 6))]
        tf = [r0(), r0()] if kind == "c" else [0, 0]
        cs = [rn() for _i in range(rng.randrange(0, 4))] if kind == "s" else []
        ks = rng.sample(range(1, nn + 1), rng.randrange(0, min(4, nn) + 1)) if kind == "s" else []
        ntc = [(k, [rng.randrange(0, 9) for _i in range(rng.randrange(0, 3))]) for k in ks]
        mk = rng.sample(range(1, nn + 1), rng.randrange(0, nn + 1))
        nmap = [(k, rn()) for k in mk]
        add({"op": "uattr", "n": nn, "kind": kind, "latch": latch, "follow": fol, "loop_nodes": lnodes, "tf": tf,
             "cases": cs, "ntc": ntc, "nmap": nmap},
            "uattr %s %d %s %s %s %s %s %s" % (
                kind, latch, csv(fol), csv(lnodes), csv(tf), csv(cs),
                ";".join("%d:%s" % (k, ".".join(map(str, vs))) for k, vs in ntc) or "-",
                ",".join("%d=%d" % p for p in nmap) or "-"))
    # fixed cases: the witnesses of Props/C22.lean (`derived_sequence_nodes_order_matters`: same graph, two
    # insertion orders of graph.nodes, 2 resp. 3 intervals at the second level; the irreducible triangle that
    # collapses because the edge 2>3 is not recorded; a loop nest)
    for edges, order in DSEQ_FIXED:
        add({"op": "dseq", "edges": edges, "nodes": order, "entry": 1},
            "dseq %s %s 1" % (",".join("%d>%d" % tuple(e) for e in edges) or "-", csv(order)))
    return cases, reqs


def leg_t(ck, pool, drv, salted):
    cases, reqs = gen_site_cases(ck, 60 if ck.quick else 300)
    flat = [l for ls in reqs for l in ls]
    model = drv.ask(flat)
    mrep, i = [], 0
    for ls in reqs:
        mrep.append("|".join(model[i:i + len(ls)])); i += len(ls)
    rng = random.Random("C22/tcfg/%d" % ck.seed)
    ncfg = 3 if ck.quick else 6
    cfgs = [(rng.randrange(2 ** 32), ("%08x" % rng.randrange(2 ** 32)) if salted else None) for _ in range(ncfg)]
    outs = pool.map([({"mode": "sites", "cases": cases}, hs, salt) for hs, salt in cfgs])
    for (hs, salt), out in zip(cfgs, outs):
        by = {}
        for c, ls, real, mod in zip(cases, reqs, out["replies"], mrep):
            by.setdefault(c["op"], ([], [], []))
            rq = " ; ".join(ls) + "   [hashseed=%s salt=%s]" % (hs, salt)
            by[c["op"]][0].append(rq); by[c["op"]][1].append(real); by[c["op"]][2].append(mod)
        for op, (rq, real, mod) in by.items():
            ck.compare("site-" + op, rq, real, mod)
    return len(cases), ncfg


# ----------------------------------------------------------------------------------------- run
def hook_present(pool):
    out = pool.run_one(({"mode": "sites", "cases": []}, 0, "probe"))
    return out.get("hook") == HOOK


def run(ck: Check):
    ck.pins_changed(PINS)
    ck.run_gen("ordersites")
    ck.prove(exes=["drv_C22"])
    drv = Driver("drv_C22")
    pool = Pool(ck)
    try:
        _run(ck, pool, drv)
    finally:
        pool.close()


def _run(ck, pool, drv):
    ck.rule = ("one evaluation = one decompiled text (method alone, method inside its class, whole class, class "
               "processed twice; JSON AST of a method / of a class) produced by the real decompiler in a fresh process; "
               "the source texts and the AST texts of one method / one class are compared byte for byte across all "
               "(PYTHONHASHSEED, hash salt, order) combinations, the orders include AST-mode requests of the same and "
               "of other classes before / after the source requests. "
               "distinct = distinct method texts (sha256) of the first configuration, exceptions excluded")
    salted = hook_present(pool)
    # thorough: every order of ORDERS once (18 configurations; it was 64, which took 90 minutes on a loaded machine)
    ncfg = 8 if ck.quick else len(ORDERS)
    if ck.quick and getattr(ck, "escalated", False):
        ncfg = 16        # a pinned function changed: all orders of ORDERS even in the quick tier
    cfgs = configs(ck, ncfg)
    if not salted:
        cfgs = [(hs, None, o) for hs, _, o in cfgs]
    files, dups = data_files()
    files += generated_files(ck, pool.tmp)
    if not files:
        raise ToolFailure("no DEX/APK files under %s/tests/data" % fw.REPO)
    # 1. corpus first: the witnesses of the defects repaired by fixes/C22-*.diff, under every configuration
    include = {}
    byname = {os.path.basename(p): (p, s) for p, s in files}
    cfiles = []
    for c in corpus_cases():
        base = os.path.basename(c["file"])
        full = os.path.join(fw.REPO, c["file"])
        if os.path.exists(full):
            include.setdefault(base, [])
            if c["class"] not in include[base]:
                include[base].append(c["class"])
            if (full, 0) not in cfiles:
                cfiles.append((full, 0))
    t0 = time.time()
    if cfiles:
        # only the witness classes: sample size 0 + include
        inc = {os.path.basename(p): include[os.path.basename(p)] for p, _ in cfiles}
        sweep(ck, pool, cfiles, cfgs, 0, inc, "corpus")
    # 2. per-site correspondence
    ncases, ntc = leg_t(ck, pool, drv, salted)
    # 3. the sweep
    small = [(p, s) for p, s in files if s < 200_000]
    big = [(p, s) for p, s in files if s >= 200_000]
    if ck.quick:
        sweep(ck, pool, small, cfgs, None, {}, "small")
        sweep(ck, pool, big, cfgs, 40, include, "big")
    else:
        sweep(ck, pool, small, cfgs, None, {}, "small")
        sweep(ck, pool, big, cfgs, 200, include, "big")
        sweep(ck, pool, big, cfgs[:3], None, {}, "bigfull")
    ck.samples.extend([
        {"configs": ["hashseed=%s salt=%s order=%s" % c for c in cfgs[:4]]},
        {"files": [os.path.relpath(p, fw.REPO) for p, _ in files][:12], "duplicate_dex_skipped": dups},
        {"site_cases": ncases, "site_layouts": ntc},
    ])
    ck.dist["hash_salt_dimension"] = "on" if salted else "OFF (hook H2 missing)"
    ck.assumptions += [
        "CPython: dict and list iteration is insertion ordered; a set of int iterates in an order that depends only on "
        "its insertion history (int hash = value); object hashes are addresses (replaced by hook H2: creation counter "
        "+ salt, equality unchanged); str hashes depend on PYTHONHASHSEED",
        "place_declarations: `idom` (dom_lt) and `node.num` (compute_rpo) are computed on the same graph and every "
        "definition node is reachable from the entry — under these the theorems common_dom_ctx_real, "
        "place_declarations_returns_ncd and place_declarations_order_irrelevant_real need no hypothesis about "
        "common_dom (it is proved to return the nearest common dominator); exercised by the correspondence streams "
        "site-cdom and site-cdomg; the fuel of the common_dom model (the Python loop has none) is a hypothesis of the "
        "form 2*num < fuel in these theorems: the walk takes at most num(a)+num(b) idom steps, so every fuel above "
        "twice the largest number is enough and the driver uses that",
    ]
    ck.assumptions.append(
        "Python object model: assigning an attribute of one node object (self.latch, self.follow[...], self.loop_nodes, "
        "self.true/false, self.cases, self.node_to_case, x.follow['if'|'switch']) does not change any other node "
        "object — the frame behind the per-element models of Model/LoopBodies.lean, Model/IfStruct.lean, "
        "Model/SwitchStruct.lean")
    ck.partial += [
        "whole-pipeline determinism is not a theorem: proved per hash-iteration site (16 remaining sites order-"
        "irrelevant or int-keyed, 5 repaired sites insertion-ordered); the rest of the decompiler is assumed "
        "deterministic given deterministic inputs and is covered by the search only",
        "completeness of the site inventory rests on the AST scan gen/ordersites.py (flow-insensitive set-type "
        "inference inside androguard/decompiler)",
        "intervals / derived_sequence (control_flow.py; no hash iteration inside) are modelled line by line including "
        "the interval graphs, their recorded edges and compute_rpo (Model/Intervals.lean, Model/DerivedSeq.lean; "
        "correspondence streams site-intv and site-dseq on rooted graphs, every level compared) and proved: intervals "
        "total with an order-free partition (intervals_spec, intervals_partition_order_irrelevant); derived_sequence "
        "terminates within sum|all_preds|+1 calls of intervals on every well-formed graph, reducible or not "
        "(derived_sequence_terminates; interval_graph_fewer_edges, interval_graph_wellformed, intervals_disjoint, "
        "interval_graph_edges_distinct, derived_sequence_shape; derived_sequence_terminates_any: every graph whose rpo[0] is "
        "the entry, bound (n+1)n+2) and "
        "reads the numbering and the predecessor-list orders of the first graph only in the insertion order of the "
        "first-level contents (derived_sequence_order_irrelevant); it DOES depend on the insertion order of graph.nodes, "
        "a list (derived_sequence_nodes_order_matters, replayed on the real code). Well-formed = rpo[0] is the entry, "
        "every other node has a predecessor and is in rpo, graph.nodes has no duplicate (true of a graph whose nodes are "
        "all reachable). if_struct is modelled whole (Model/IfStruct.lean, stream site-ifst: "
        "real if_struct under salted hash orders vs the model) with the enumeration of the set `unresolved` and the order "
        "of the dict idoms as parameters, and proved independent of both when the numbers of the idoms keys are pairwise "
        "different, in particular for compute_rpo numbers (if_struct_order_irrelevant, if_struct_order_irrelevant_rpo; "
        "if_follow_tie_order_matters shows the hypothesis is needed). switch_struct likewise (Model/SwitchStruct.lean, stream site-swst, "
        "switch_struct_order_irrelevant). NOT proved: the other consumers of the derived sequence (loop_type, the part "
        "of loop_follow outside loop_follow_order_irrelevant)",
        "the link site -> theorem is the hand-written label of Order.modelled; sites_covered proves only that every "
        "scanned site (with its body hash) is in that list. Class 'independent' (split_if_nodes, simplify, dom_lt "
        "bucket pop, if_struct, switch_struct, identify_structures): if_struct and switch_struct are modelled whole "
        "and proved; the to_update loops (split_if_nodes, simplify) and the if_unresolved loop of identify_structures "
        "have their bodies written out (Model/LoopBodies.lean; to_update_order_irrelevant, "
        "if_unresolved_order_irrelevant) — update_attribute_with of Node/CondBlock/SwitchBlock is tied by stream "
        "site-uattr, LoopBlock.update_attribute_with (also updates the wrapped CondBlock) is not modelled, the "
        "identify_structures body is hand-written from the pinned text without a correspondence; the dom_lt bucket "
        "loop is covered by the C18 model (dom_lt_order_irrelevant)",
    ]
    ck.notes.append("corpus+T+sweep %.0fs; %d distinct-DEX files (%d duplicates skipped)" % (time.time() - t0, len(files), dups))
    if not salted:
        for f in ck.failures[:3]:
            print("[C22] PYTHONHASHSEED-only finding (not a verdict, hook missing):", json.dumps(f["case"])[:300], flush=True)
        raise ToolFailure("hook H2 (fixes/hook-H2-hashsalt.diff) is not in the tree under test %s: the memory-layout "
                          "dimension cannot be enumerated; PYTHONHASHSEED-only sweep found %d differing texts"
                          % (fw.REPO, len(ck.failures)))


def replay(ck: Check, rp):
    c = rp.get("case") or {}
    if "first_divergence" in rp:
        m = rp["first_divergence"]
        print("correspondence", m["stream"], "\n request:", m["request"], "\n real :", m["real"], "\n model:", m["model"])
        return 0
    if not c:
        print(json.dumps(rp, indent=1)[:3000])
        return 0
    pool = Pool(ck)
    try:
        path = os.path.join(fw.REPO, c["file"])
        if "generated_dex_b64" in c:
            import base64
            path = os.path.join(pool.tmp, "replay.dex")
            with open(path, "wb") as f:
                f.write(base64.b64decode(c["generated_dex_b64"]))
        res = []
        for side in ("a", "b"):
            s = c[side]
            t, h = fetch_text(pool, path, c.get("spec") or {"classes": [c["class"]], "lazy": True},
                              (s["hashseed"], s["salt"], s["order"]), s["key"])
            res.append((t, h))
            print("run %s: PYTHONHASHSEED=%s ANDROGUARD_VERIF_HASHSALT=%s order=%s key=%s -> sha %s"
                  % (side, s["hashseed"], s["salt"], s["order"], s["key"], h))
        if res[0][0] != res[1][0]:
            print("\n".join(explain(res[0][0], res[1][0])))
            print("DIFFERENT")
            return 1
        print("identical")
        return 0
    finally:
        pool.close()
