"""C03 — LEB128 (DESIGN.md section 6, C03).
T: real readuleb128/readuleb128p1/readsleb128/writeuleb128/writesleb128 vs Lean model AgVerif.Leb.
S: oracle = the definition of LEB128 with Python big integers (independent of the model)."""
import io
import itertools
import struct

from harness.fw import Check, Driver, hexs

PINS = [("androguard/core/dex/__init__.py", "readuleb128"), ("androguard/core/dex/__init__.py", "readuleb128p1"),
        ("androguard/core/dex/__init__.py", "readsleb128"), ("androguard/core/dex/__init__.py", "writeuleb128"),
        ("androguard/core/dex/__init__.py", "writesleb128"), ("androguard/core/dex/__init__.py", "get_byte")]


def _real():
    from androguard.core import dex
    cm = type("CM", (), {})()
    cm.packer = dex.DalvikPacker(0x12345678)
    return dex, cm


def canon_read(fn, cm, data: bytes):
    buf = io.BytesIO(data)
    try:
        v = fn(cm, buf)
    except struct.error:
        return "err"
    except Exception as e:  # noqa
        return "other:" + type(e).__name__
    return f"ok {v} {buf.tell()}"


def canon_write(fn, cm, v: int):
    try:
        return "ok " + hexs(bytes(fn(cm, v)))
    except ValueError:
        return "err"
    except Exception as e:  # noqa
        return "other:" + type(e).__name__


# ---- independent oracle (definition) ----
def items_of(data: bytes):
    """the first LEB128 item of data (1..5 bytes) or None"""
    for n in range(1, 6):
        if n > len(data):
            return None
        if data[n - 1] < 0x80:
            return data[:n]
    return None


def spec_unsigned(item: bytes):
    p = sum((b & 0x7F) << (7 * i) for i, b in enumerate(item))
    return p if p < 2 ** 32 else None


def spec_signed(item: bytes):
    n = len(item)
    p = sum((b & 0x7F) << (7 * i) for i, b in enumerate(item))
    if n < 5:
        w = 7 * n
        return p - (1 << w) if p >> (w - 1) & 1 else p
    if p < 2 ** 32 or p >= 2 ** 35 - 2 ** 31:
        p &= 0xFFFFFFFF
        return p - 2 ** 32 if p >> 31 else p
    return None


def enc_unsigned(v):
    out = bytearray()
    while True:
        b = v & 0x7F
        v >>= 7
        if v:
            out.append(b | 0x80)
        else:
            out.append(b)
            return bytes(out)


def gen_reads(ck: Check):
    rng = ck.rng
    seqs = []
    seqs += [bytes([a]) for a in range(256)]
    seqs += [bytes([a, b]) for a in range(256) for b in range(256)]
    n3 = 256 ** 3 if not ck.quick else 0
    if n3:
        seqs += [bytes([a, b, c]) for a in range(128, 256, 1) for b in range(128, 256) for c in range(0, 256, 1)][::8]
    bnd = [0x00, 0x01, 0x0f, 0x10, 0x3f, 0x40, 0x7f, 0x80, 0x81, 0xbf, 0xc0, 0xf0, 0xff, 0x78, 0x07, 0x08, 0x47]
    for n in (3, 4, 5, 6):
        for t in itertools.product(bnd, repeat=n) if n <= 4 else ():
            seqs.append(bytes(t))
    nrand = 60000 if ck.quick else 2000000
    for _ in range(nrand):
        n = rng.choice((1, 2, 3, 4, 5, 5, 5, 6))
        body = bytes(rng.randrange(128, 256) for _ in range(n - 1))
        last = rng.choice((rng.randrange(0, 128), rng.randrange(0, 16), rng.randrange(0x70, 0x80), rng.randrange(256)))
        seqs.append(body + bytes([last]))
    for n in (5,):
        for last in range(256):
            for body in (b"\x80\x80\x80\x80", b"\xff\xff\xff\xff", b"\x81\x80\x80\x80", b"\xff\xff\xff\xf7"):
                seqs.append(body + bytes([last]))
    return seqs


def gen_values(ck: Check):
    rng = ck.rng
    vals = set()
    for k in range(0, 36):
        for d in (-2, -1, 0, 1, 2):
            vals.add((1 << k) + d); vals.add(-(1 << k) + d)
    vals |= set(range(-300, 300))
    for _ in range(20000 if ck.quick else 600000):
        k = rng.randrange(1, 34)
        vals.add(rng.randrange(-(1 << k), 1 << k))
    vals |= {2 ** 63 - 1, -2 ** 63, -2 ** 63 - 1, 2 ** 40, -2 ** 40}   # 2**63 itself: the real writesleb128 never returns
    return sorted(vals)


def run(ck: Check):
    dex, cm = _real()
    # tie by translation: regenerate AgVerif.Gen.PyLeb from the five functions of the tree under test
    # (gen/py2lean.py); Props/C03.lean proves gen_*_eq: generated definition = hand model, for every input
    ck.run_gen("py2lean_selftest")    # translator self-test: the subset, construct by construct, against CPython
    ck.run_gen("py2lean_c03")
    if ck.pins_changed(PINS):          # a modelled function changed: run the thorough sizes even in the quick tier
        ck.quick = False
    ck.prove(exes=["drv_C03"])
    drv = Driver("drv_C03")
    ck.rule = ("byte sequences: all 1- and 2-byte, boundary-byte products of length 3-4, seeded random 1-6 bytes "
               "(thorough: 1/8 of all continuation-prefixed 3-byte); values: ±2^k±2, -300..300, seeded random up to 34 bits. "
               "distinct = distinct byte sequence / value; non-trivial = more than one byte or outside -64..63")
    seqs = gen_reads(ck)
    reqs, real = [], []
    kinds = {"uleb": dex.readuleb128, "ulebp1": dex.readuleb128p1, "sleb": dex.readsleb128}
    dist = {"len%d" % n: 0 for n in range(1, 7)}
    for s in seqs:
        dist["len%d" % min(len(s), 6)] += 1
        h = hexs(s)
        for k, fn in kinds.items():
            reqs.append(f"{k} {h}")
            real.append(canon_read(fn, cm, s))
    model = drv.ask(reqs)
    ck.compare("leb-read", reqs, real, model)
    # S: definition oracle on the real outputs
    nerr = 0
    for i, s in enumerate(seqs):
        item = items_of(s)
        ru, rp, rs = real[3 * i], real[3 * i + 1], real[3 * i + 2]
        if item is None:
            # no complete item of <= 5 bytes: short buffer must be an error; 5 continuation bytes are outside the domain
            if len(s) < 5 and not (ru == "err" and rs == "err"):
                ck.fail({"op": "read", "bytes": hexs(s)}, "truncated LEB128 item yields a value",
                        key=None, expected="err", observed=[ru, rs])
            nerr += 1
            continue
        u = spec_unsigned(item)
        if u is not None:
            exp = f"ok {u} {len(item)}"
            if ru != exp:
                ck.fail({"op": "uleb", "bytes": hexs(s)}, "unsigned LEB128 decodes to the wrong value", None, exp, ru)
            exp1 = f"ok {u - 1} {len(item)}"
            if rp != exp1:
                ck.fail({"op": "ulebp1", "bytes": hexs(s)}, "uleb128p1 decodes to the wrong value", None, exp1, rp)
        sv = spec_signed(item)
        if sv is not None:
            exp = f"ok {sv} {len(item)}"
            if rs != exp:
                ck.fail({"op": "sleb", "bytes": hexs(s)}, "signed LEB128 decodes to the wrong value", None, exp, rs)
    ck.cover(evaluations=len(seqs), distinct=(("r", s) for s in set(seqs) if len(s) > 1),
             samples=[{"read": hexs(seqs[i]), "uleb": real[3 * i], "sleb": real[3 * i + 2]} for i in (300, 70000, len(seqs) - 1)],
             dist=dict(dist, read_outside_or_truncated=nerr))
    # writers and round trips
    vals = gen_values(ck)
    reqs, real = [], []
    for v in vals:
        reqs.append(f"wuleb {v}"); real.append(canon_write(dex.writeuleb128, cm, v))
        reqs.append(f"wsleb {v}"); real.append(canon_write(dex.writesleb128, cm, v))
    model = drv.ask(reqs)
    # the model's signed writer has fuel 12 (covers |v| < 2^63); outside that the real loop may not terminate
    ck.compare("leb-write", reqs, real, model)
    for i, v in enumerate(vals):
        wu, ws = real[2 * i], real[2 * i + 1]
        if 0 <= v < 2 ** 32:
            if not wu.startswith("ok "):
                ck.fail({"op": "wuleb", "value": v}, "writeuleb128 fails on a 32-bit value", None, "ok", wu); continue
            b = bytes.fromhex(wu[3:])
            back = canon_read(dex.readuleb128, cm, b + b"\xaa")
            if back != f"ok {v} {len(b)}" or len(b) > 5 or b != enc_unsigned(v):
                ck.fail({"op": "uleb-roundtrip", "value": v}, "unsigned round trip", None, f"ok {v} {len(b)}", back)
            if v < 2 ** 32 - 1:
                b1 = bytes(dex.writeuleb128(cm, v + 1))
                back = canon_read(dex.readuleb128p1, cm, b1)
                if back != f"ok {v} {len(b1)}":
                    ck.fail({"op": "ulebp1-roundtrip", "value": v}, "uleb128p1 round trip", None, f"ok {v}", back)
        if v < 0 and wu != "err":
            ck.fail({"op": "wuleb", "value": v}, "writeuleb128 accepts a negative value", None, "err", wu)
        if -2 ** 31 <= v < 2 ** 31:
            if not ws.startswith("ok "):
                ck.fail({"op": "wsleb", "value": v}, "writesleb128 fails on a 32-bit value", None, "ok", ws); continue
            b = bytes.fromhex(ws[3:])
            back = canon_read(dex.readsleb128, cm, b + b"\x55")
            if back != f"ok {v} {len(b)}" or len(b) > 5:
                ck.fail({"op": "sleb-roundtrip", "value": v}, "signed round trip", None, f"ok {v} {len(b)}", back)
    if -1 in vals:
        b = bytes(dex.writeuleb128(cm, 0))
        if canon_read(dex.readuleb128p1, cm, b) != "ok -1 1":
            ck.fail({"op": "ulebp1-roundtrip", "value": -1}, "uleb128p1 cannot carry -1", None, "ok -1 1", None)
    ck.cover(evaluations=len(vals), distinct=(("v", v) for v in vals if not -64 <= v < 64),
             samples=[{"value": v, "wuleb": real[2 * i], "wsleb": real[2 * i + 1]} for i, v in list(enumerate(vals))[:: max(1, len(vals) // 3)]][:3],
             dist={"values_32bit": sum(1 for v in vals if -2 ** 31 <= v < 2 ** 32), "values_outside": sum(1 for v in vals if not -2 ** 31 <= v < 2 ** 32)})
    buffered_stream(ck, dex, cm, drv)
    ck.assumptions.append("struct.pack/unpack of one byte is modelled as list head/cons; "
                          "Python int & and >> on negatives are modelled as floor mod/div (checked by the correspondence)")
    ck.assumptions.append("tie by translation: gen/py2lean.py reads the Python subset it documents correctly (int = Int, "
                          "& | ^ << >> as in Model/PyInt.lean, checked there against a CPython-computed grid; one exception "
                          "value `none`; get_byte = next byte of the stream); sys.maxsize = 2**63-1")


def buffered_stream(ck: Check, dex, cm, drv):
    """The parser reads through io.BufferedReader, not BytesIO: place every kind of item so that it
    straddles the end of the reader's buffered block (io.DEFAULT_BUFFER_SIZE) after a sequential read,
    and after a seek; model and definition oracle see the item bytes only (position-independent)."""
    B = io.DEFAULT_BUFFER_SIZE
    rng = ck.rng
    items = [bytes([0x80] * k + [t]) for k in range(0, 5) for t in (0x00, 0x01, 0x3f, 0x40, 0x7f, 0x08, 0x78, 0x0f)]
    items += [enc_unsigned(v) for v in (100, 300, 0x3fff, 0x4000, 0x1fffff, 0x200000, 0x8000000, 0xfffffff, 0xffffffff)]
    for _ in range(40 if ck.quick else 400):
        n = rng.choice((2, 3, 4, 5))
        items.append(bytes(rng.randrange(128, 256) for _ in range(n - 1)) + bytes([rng.randrange(0, 16)]))
    kinds = {"uleb": dex.readuleb128, "ulebp1": dex.readuleb128p1, "sleb": dex.readsleb128}
    reqs, real, cases = [], [], []
    for mult in (1, 2, 3):
        for d in range(0, 7):
            for item in items:
                pos = mult * B - d
                data = bytes(rng.randrange(256) for _ in range(16)) * (pos // 16 + 1)
                data = data[:pos] + item + b"\x55" * 8
                for how in ("seq", "seek"):
                    for k, fn in kinds.items():
                        br = io.BufferedReader(io.BytesIO(data))
                        if how == "seq":
                            br.read(pos)
                        else:
                            br.read(1); br.seek(pos)
                        try:
                            v = fn(cm, br); r = f"ok {v} {br.tell() - pos}"
                        except struct.error:
                            r = "err"
                        except Exception as e:  # noqa
                            r = "other:" + type(e).__name__
                        reqs.append(f"{k} {hexs(item + bytes([0x55] * 8))}"); real.append(r)
                        cases.append({"op": k, "bytes": hexs(item), "buffered": how, "offset": pos})
    model = drv.ask(reqs)
    ck.compare("leb-read-buffered", reqs, real, model)
    for c, r in zip(cases, real):
        item = bytes.fromhex(c["bytes"])
        it = items_of(item)
        if it is None:
            continue
        exp = None
        if c["op"] == "uleb" and spec_unsigned(it) is not None:
            exp = f"ok {spec_unsigned(it)} {len(it)}"
        if c["op"] == "ulebp1" and spec_unsigned(it) is not None:
            exp = f"ok {spec_unsigned(it) - 1} {len(it)}"
        if c["op"] == "sleb" and spec_signed(it) is not None:
            exp = f"ok {spec_signed(it)} {len(it)}"
        if exp is not None and r != exp:
            ck.fail(c, "LEB128 read through a BufferedReader across the buffer boundary decodes to the wrong value", None, exp, r)
    ck.cover(evaluations=len(cases), distinct=(("b", c["op"], c["bytes"], c["buffered"], c["offset"]) for c in cases),
             samples=[cases[7]], dist={"buffered_reader_cases": len(cases)})


def replay(ck: Check, rp):
    dex, cm = _real()
    c = rp.get("case") or rp.get("first_divergence", {})
    print("replay", c)
    if "buffered" in c:
        item = bytes.fromhex(c["bytes"]); pos = c["offset"]
        data = b"\xaa" * pos + item + b"\x55" * 8
        fn = {"uleb": dex.readuleb128, "ulebp1": dex.readuleb128p1, "sleb": dex.readsleb128}[c["op"]]
        br = io.BufferedReader(io.BytesIO(data))
        if c["buffered"] == "seq":
            br.read(pos)
        else:
            br.read(1); br.seek(pos)
        print("buffered read at", pos, c["op"], canon_read(fn, cm, br), "item", c["bytes"],
              "spec:", spec_unsigned(items_of(item)), spec_signed(items_of(item)))
        return 0
    if "bytes" in c:
        s = bytes.fromhex(c["bytes"]) if c["bytes"] != "-" else b""
        for k, fn in (("uleb", dex.readuleb128), ("ulebp1", dex.readuleb128p1), ("sleb", dex.readsleb128)):
            print(k, canon_read(fn, cm, s), "spec item:", items_of(s) and (spec_unsigned(items_of(s)), spec_signed(items_of(s))))
    if "value" in c:
        v = c["value"]
        print("wuleb", canon_write(dex.writeuleb128, cm, v), "wsleb", canon_write(dex.writesleb128, cm, v))
    if "request" in c:
        print("real:", c.get("real"), "model:", c.get("model"))
    return 0
