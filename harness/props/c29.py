"""C29 — resource resolution terminates on reference cycles (DESIGN.md section 6, C28/C29).

P: Props/C29.lean over Model/Resolve.lean (resolveVF = the code with the reference-path guard of
   fixes/C29-reference-cycle.diff; resolveF = the code as it was written).
T: every real `get_resolved_res_configs` runs in a subprocess (harness/arscreal.py) under a recursion limit of
   3 frames x (number of ids + 2) levels (+ slack) and a time limit; outcome kinds ok / recursion / timeout /
   value-error.  The abstract table the Lean model gets is what the real parser left in `resource_values`.
S: oracle = the generator's model: the resolution must return, and the set of concrete values it returns must
   be exactly the values reachable through references (harness/arscgen.reach_values; breadth-first search on
   the abstract model, no androguard, no Lean).  Overlapping resolutions: two resolver instances on two parser objects
   (and on one), the second resolution run to completion while the first is parked at a chosen depth of its reference
   path -- deterministically inside a hook on get_res_configs, and with two real threads and an event hand-off."""
import glob
import json
import os
import subprocess
import sys

from harness import arscgen
from harness.arscwriter import (Config, Entry, Package, Raw, Ref, ResTable, ResType, Str, TypeChunk, encode_arsc,
                                res_id)
from harness.fw import VERIF, Check, Driver, ToolFailure

CORPUS = os.path.join(VERIF, "corpus", "C29")
P = 0x7F
PINS = [
    ("androguard/core/axml/__init__.py", "ARSCParser.ResourceResolver.__init__"),
    ("androguard/core/axml/__init__.py", "ARSCParser.ResourceResolver.resolve"),
    ("androguard/core/axml/__init__.py", "ARSCParser.ResourceResolver._resolve_into_result"),
    ("androguard/core/axml/__init__.py", "ARSCParser.ResourceResolver.put_ate_value"),
    ("androguard/core/axml/__init__.py", "ARSCParser.ResourceResolver.put_item_value"),
    ("androguard/core/axml/__init__.py", "ARSCParser.get_resolved_res_configs"),
    ("androguard/core/axml/__init__.py", "ARSCParser.get_res_configs"),
]


# ------------------------------------------------------------------ hand-made witnesses (corpus)
def _one_type(entries_by_cfg, tname="string", count=6, layout="plain"):
    return ResTable([Package(P, "tests.app", [ResType(tname, count, [TypeChunk(c, e, layout) for c, e in entries_by_cfg])])])


def witnesses():
    a, b, c, d, e5 = (res_id(P, 1, i) for i in range(5))
    w = {}
    w["cycle2"] = (_one_type([(Config(), {0: Entry("a", "simple", Ref(b)), 1: Entry("b", "simple", Ref(a))})]), a)
    w["cycle2-values"] = (_one_type([(Config(), {0: Entry("a", "simple", Ref(b)), 1: Entry("b", "simple", Ref(a))}),
                                     (Config(language="de"), {0: Entry("a", "simple", Str("A-de")),
                                                              1: Entry("b", "simple", Str("B-de"))})]), a)
    w["cycle3"] = (_one_type([(Config(), {0: Entry("a", "simple", Ref(b)), 1: Entry("b", "compact", Ref(c)),
                                          2: Entry("c", "simple", Ref(a)), 3: Entry("d", "simple", Str("leaf"))})]), a)
    w["cycle5-complex"] = (_one_type([(Config(), {
        0: Entry("a", "complex", items=[(1, Str("x")), (2, Ref(b))]), 1: Entry("b", "complex", items=[(1, Ref(c))]),
        2: Entry("c", "complex", items=[(1, Ref(d)), (2, Raw(0x10, 7))]), 3: Entry("d", "complex", items=[(1, Ref(e5))]),
        4: Entry("e", "complex", items=[(1, Str("back")), (2, Ref(a))])})], tname="style"), a)
    w["tail-into-cycle"] = (_one_type([(Config(), {0: Entry("a", "simple", Ref(b)), 1: Entry("b", "simple", Ref(c)),
                                                  2: Entry("c", "simple", Ref(b))}),
                                       (Config(density=240), {2: Entry("c", "simple", Str("hd"))})]), a)
    w["self"] = (_one_type([(Config(), {0: Entry("a", "simple", Ref(a))}), (Config(sdk=4), {0: Entry("a", "simple", Str("v4"))})]), a)
    return w


def write_corpus():
    os.makedirs(CORPUS, exist_ok=True)
    for name, (model, rid) in witnesses().items():
        ev = arscgen.expected_values(model)
        case = {"name": name, "hex": encode_arsc(model).hex(), "rid": rid, "wanted": None,
                "expected": sorted(map(list, arscgen.reach_values(ev, rid, None)))}
        with open(os.path.join(CORPUS, name + ".json"), "w") as f:
            json.dump(case, f, indent=1)


# ------------------------------------------------------------------ real side (subprocess)
def run_real(cases, timeout=600):
    """cases: list of {"hex", "queries", "seconds"}; one worker subprocess for the batch"""
    inp = "".join(json.dumps(c) + "\n" for c in cases)
    try:
        p = subprocess.run([sys.executable, "-m", "harness.arscreal"], input=inp, capture_output=True, text=True,
                           timeout=timeout, cwd=VERIF)
    except subprocess.TimeoutExpired:
        raise ToolFailure("resolution worker timed out as a whole")
    lines = [l for l in p.stdout.split("\n") if l.strip()]
    if p.returncode != 0 or len(lines) != len(cases):
        raise ToolFailure(f"resolution worker exited {p.returncode} with {len(lines)}/{len(cases)} replies: {p.stderr[-400:]}")
    return [json.loads(l) for l in lines]


# ------------------------------------------------------------------ model side
def hx(s: str) -> str:
    return s.encode("utf-8", "surrogatepass").hex()


def table_arg(table: dict) -> str:
    if not table:
        return "-"
    res = []
    for rid, opts in table.items():
        os_ = []
        for c, kind, items in opts:
            its = ["R%d" % i[1] if i[0] == "R" else "L" + hx(i[1]) for i in items]
            os_.append("%d=%s%s" % (c, kind, ",".join(its) if kind == "C" else its[0]))
        res.append("%s:%s" % (rid, "|".join(os_)))
    return ";".join(res)


def canon_real(r: dict) -> str:
    if r["kind"] != "ok":
        return r["kind"]
    out = ["ok"]
    for t in r["toks"]:
        if t[0] == "P":
            out.append("P%d:%s" % (t[1], hx(t[2])))
        elif t[0] == "B":
            out.append("B" + hx(t[1]))
        elif t[0] == "O":
            out.append("O%d" % t[1])
        else:
            out.append("X")
    return " ".join(out)


def value_set(r: dict, cfgs):
    s = set()
    for t in r["toks"]:
        if t[0] == "P":
            s.add(("pair", tuple(cfgs[t[1]]), t[2]))
        elif t[0] == "B":
            s.add(("bare", t[1]))
    return s


def judge(ck, case, r, cfgs, expected, what_prefix=""):
    """the property on one real resolution: it returns, and returns exactly the reachable concrete values"""
    if r["kind"] != "ok":
        ck.fail(case, what_prefix + "resolution does not return the reachable values: " + r["kind"], None,
                expected=sorted(map(list, expected)), observed=r["kind"])
        return False
    got = value_set(r, cfgs)
    if got != expected:
        ck.fail(case, what_prefix + "resolved values differ from the values reachable through references", None,
                expected=sorted(map(list, expected)), observed=sorted(map(list, got)))
        return False
    return True


# ------------------------------------------------------------------ overlapping resolutions
def _safe(fn, cfgs):
    from harness import arscreal
    try:
        return {"kind": "ok", "toks": arscreal.canon_result(fn(), cfgs)}
    except RecursionError:
        return {"kind": "recursion"}
    except ValueError:
        return {"kind": "value-error"}
    except Exception as e:  # noqa
        return {"kind": "other:" + type(e).__name__}


def run_schedule(axml, data: bytes, sched: dict, cfgs=None):
    """two resolutions that overlap in time, each through the public API with its own resolver instance.
    The outer one resolves `rid1` on parser object P1; when it enters `get_res_configs` for the k-th time (its
    reference path is then k ids long) the other resolution of `rid2` runs to completion
      mode "nested"  : inside the hook, on a second parser object (what a preempted thread sees, deterministically)
      mode "reenter" : inside the hook, on the SAME parser object (re-entrancy)
      mode "threads" : in a second thread on a second parser object, hand-off by events
    Returns (outer, inner, calls) in the canonical form of harness/arscreal.py; calls = number of hook entries."""
    import threading
    from harness import arscreal
    cfgs = cfgs or arscreal.Cfgs()
    p1 = axml.ARSCParser(data)
    p2 = p1 if sched["mode"] == "reenter" else axml.ARSCParser(data)
    p1._analyse(); p2._analyse()
    orig = p1.get_res_configs
    st = {"n": 0, "inner": None, "busy": False}
    k, rid1, rid2 = sched["k"], sched["rid1"], sched["rid2"]
    parked, release = threading.Event(), threading.Event()

    def hook(rid, config=None, fallback=True):
        if not st["busy"]:
            st["n"] += 1
            if st["n"] == k:
                if sched["mode"] == "threads":
                    parked.set()
                    if not release.wait(10):
                        raise ToolFailure("hand-off timed out")
                else:
                    st["busy"] = True
                    try:
                        st["inner"] = _safe(lambda: p2.get_resolved_res_configs(rid2, None), cfgs)
                    finally:
                        st["busy"] = False
        return orig(rid, config, fallback)
    p1.get_res_configs = hook
    try:
        if sched["mode"] == "threads":
            res = {}
            t1 = threading.Thread(target=lambda: res.__setitem__("outer", _safe(lambda: p1.get_resolved_res_configs(rid1, None), cfgs)))

            def second():
                if parked.wait(10):
                    st["inner"] = _safe(lambda: p2.get_resolved_res_configs(rid2, None), cfgs)
                release.set()
            t2 = threading.Thread(target=second)
            t1.start(); t2.start(); t1.join(30); t2.join(30)
            if t1.is_alive() or t2.is_alive() or "outer" not in res:
                raise ToolFailure("two-thread schedule did not finish")
            outer = res["outer"]
        else:
            outer = _safe(lambda: p1.get_resolved_res_configs(rid1, None), cfgs)
    finally:
        del p1.get_res_configs
    return outer, st["inner"], st["n"], p1, cfgs


def interleavings(ck, drv):
    """a few dozen schedules per run; oracle: each of the two resolutions returns exactly its reachable value set;
    correspondence: each equals what the model says for that id alone"""
    from androguard.core import axml
    from harness import arscreal
    rng = ck.rng
    big = (not ck.quick) or getattr(ck, "escalated", False)
    models = [m for m, _ in witnesses().values()]
    for _ in range(40 if big else 8):
        models.append(arscgen.random_table(rng, npkg=1, cycles=True, max_entries=4))
    budget = 600 if big else 90
    reqs, real, nsched, nthreads, noverlap = [], [], 0, 0, 0
    for mi, model in enumerate(models):
        data = encode_arsc(model)
        ev = arscgen.expected_values(model)

        def refs_of(r):
            return {v.res_id for _, e, _ in ev.get(r, []) for v in arscgen.entry_values(e) if isinstance(v, Ref) and v.res_id and v.res_id != r}

        def reach_ids(r):
            seen, todo = set(), [r]
            while todo:
                x = todo.pop()
                if x not in seen:
                    seen.add(x); todo += list(refs_of(x))
            return seen
        starts = [r for r in sorted(ev) if refs_of(r) & set(ev)]
        rng.shuffle(starts)
        for rid1 in starts[:3]:
            _, _, calls, _, _ = run_schedule(axml, data, {"mode": "nested", "k": 0, "rid1": rid1, "rid2": rid1})
            r1 = reach_ids(rid1)
            seconds = [r for r in sorted(ev) if reach_ids(r) & r1] or sorted(ev)
            rng.shuffle(seconds)
            for k in range(1, min(calls, 4) + 1):
                for rid2 in seconds[:3]:
                    if nsched >= budget:
                        break
                    mode = ("threads" if nsched % 5 == 4 else "reenter" if nsched % 5 == 2 else "nested")
                    sched = {"mode": mode, "k": k, "rid1": rid1, "rid2": rid2}
                    outer, inner, _, p1, cfgs = run_schedule(axml, data, sched)
                    nsched += 1; nthreads += mode == "threads"
                    if inner is None:
                        continue
                    noverlap += 1
                    targ = table_arg({str(r): v for r, v in arscreal.abstract_table(axml, p1, cfgs).items()})
                    for who, rid, r in (("outer", rid1, outer), ("inner", rid2, inner)):
                        reqs.append(f"resolve - {rid} {targ}")
                        real.append(canon_real(r))
                        judge(ck, {"hex": data.hex(), "schedule": sched, "which": who, "rid": rid, "wanted": None}, r,
                              [tuple(w) for w in cfgs.words], arscgen.reach_values(ev, rid, None),
                              "overlapping resolutions (%s, %s): " % (mode, who))
    ck.compare("resolve-overlapping", reqs, real, drv.ask(reqs))
    ck.cover(evaluations=nsched, distinct=[("sched", r) for r in reqs],
             dist={"schedules": nsched, "schedules_two_threads": nthreads, "schedules_overlapping": noverlap})


def run(ck: Check):
    ck.pins_changed(PINS)
    ck.run_gen("resolver")
    ck.prove(exes=["drv_C29"])
    drv = Driver("drv_C29")
    rng = ck.rng
    interleavings(ck, drv)
    ck.rule = ("tables from the independent writer with planted reference chains/cycles of length 1..5 (simple, compact and "
               "complex entries referring back), random references, dangling and null references, several configurations; "
               "every id of the table (plus 0 and a dangling id) is resolved with config None/default/an existing/"
               "a missing configuration. distinct = (table, id, config); non-trivial = the id reaches at least one reference")
    seconds = 5.0
    # ---- corpus first
    ncorp = 0
    corp_cases, corp_meta = [], []
    for path in sorted(glob.glob(os.path.join(CORPUS, "*.json"))):
        c = json.load(open(path))
        corp_cases.append({"hex": c["hex"], "queries": [[c["rid"], c["wanted"]]], "seconds": seconds})
        corp_meta.append(c)
    for c, rep in zip(corp_meta, run_real(corp_cases) if corp_cases else []):
        ncorp += 1
        case = {"hex": c["hex"], "rid": c["rid"], "wanted": c["wanted"], "corpus": c["name"]}
        if rep["parse"] != "ok":
            ck.fail(case, "corpus table is not parsed: " + rep["parse"], None, "ok", rep["parse"])
            continue
        judge(ck, case, rep["results"][0], rep["cfgs"], set(tuple(tuple(y) if isinstance(y, list) else y for y in x) for x in c["expected"]),
              "corpus %s: " % c["name"])
    # ---- generated tables
    ntab = 250 if ck.quick and not getattr(ck, "escalated", False) else 6000 if not ck.quick else 1500
    batch, metas = [], []
    dist = {"tables": 0, "queries": 0, "cyclic_tables": 0, "reaches_ref": 0, "kind_ok": 0, "kind_value-error": 0,
            "kind_recursion": 0, "kind_timeout": 0, "complex_entries": 0, "compact_entries": 0}
    for i in range(ntab):
        model = arscgen.random_table(rng, cycles=rng.random() < 0.8, max_entries=rng.choice([3, 6]))
        lo = arscgen.random_layout(rng)
        lo["config_size"] = arscgen.config_size_for(model, rng)
        data = encode_arsc(model, **lo)
        ev = arscgen.expected_values(model)
        ids = sorted(ev)
        some_cfg = None
        allw = [tuple(s[0]) for slots in ev.values() for s in slots if tuple(s[0]) != arscgen.DEFAULT_WORDS]
        if allw:
            some_cfg = list(rng.choice(allw))
        queries = []
        for rid in ids + [0, res_id(0x7F, 9, 99)]:
            queries.append([rid, None])
            queries.append([rid, list(arscgen.DEFAULT_WORDS)])
            if some_cfg and rng.random() < 0.5:
                queries.append([rid, some_cfg])
            if rng.random() < 0.2:
                queries.append([rid, [0, 0, 0x12340000, 0, 0, 0, 0, 0, 0]])
        batch.append({"hex": data.hex(), "queries": queries, "seconds": seconds})
        metas.append((model, ev, queries))
    reps = []
    step = 100
    for k in range(0, len(batch), step):
        reps += run_real(batch[k:k + step])
    reqs, real, distinct, samples = [], [], [], []
    for ti, (rep, (model, ev, queries), b) in enumerate(zip(reps, metas, batch)):
        dist["tables"] += 1
        if rep["parse"] != "ok":
            ck.fail({"hex": b["hex"], "rid": None, "wanted": None}, "generated table is not parsed: " + rep["parse"], None, "ok", rep["parse"])
            continue
        targ = table_arg(rep["table"])
        cfgs = [tuple(w) for w in rep["cfgs"]]
        cyc = False
        for (rid, wanted), r in zip(queries, rep["results"]):
            dist["queries"] += 1
            dist["kind_" + r["kind"]] = dist.get("kind_" + r["kind"], 0) + 1
            w = "-" if wanted is None else str(cfgs.index(tuple(wanted)))
            reqs.append(f"resolve {w} {rid} {targ}")
            real.append(canon_real(r))
            if rid == 0:
                if r["kind"] != "value-error":
                    ck.fail({"hex": b["hex"], "rid": 0, "wanted": wanted}, "id 0 is not rejected", None, "value-error", r["kind"])
                continue
            if wanted is None or tuple(wanted) == arscgen.DEFAULT_WORDS:
                exp = arscgen.reach_values(ev, rid, None if wanted is None else tuple(wanted))
                judge(ck, {"hex": b["hex"], "rid": rid, "wanted": wanted}, r, cfgs, exp)
            nref = any(isinstance(v, Ref) and v.res_id for _, e, _ in ev.get(rid, []) for v in arscgen.entry_values(e))
            if nref:
                dist["reaches_ref"] += 1
                distinct.append((ti, rid, w))
            if len(samples) < 3 and nref and r["kind"] == "ok" and len(r["toks"]) > 2:
                samples.append({"rid": hex(rid), "config": w, "resolved": real[-1][:200], "ids_in_table": len(ev)})
        for slots in ev.values():
            for _, e, _ in slots:
                dist["complex_entries"] += e.kind == "complex"
                dist["compact_entries"] += e.kind == "compact"
        dist["cyclic_tables"] += has_cycle(ev)
    model_replies = drv.ask(reqs)
    ck.compare("resolve", reqs, real, model_replies)
    # the code as written, on the corpus shapes: the model says `recursion` for every stack size (theorem
    # resolve_diverges_on_cycle); recorded as a note, not compared with the fixed tree
    ck.cover(evaluations=dist["queries"] + ncorp, distinct=distinct, samples=samples, dist=dict(dist, corpus=ncorp))
    ck.assumptions.append("CPython's recursion limit is modelled as fuel: 3 frames per nesting level of _resolve_into_result; "
                          "each real resolution ran with a limit of 3*(#ids+2)+45 frames above the caller and a 5 s time limit")
    ck.assumptions.append("format_value (C27) renders literal values; the model treats the rendered text as opaque")
    ck.partial.append("APK.get_app_name/get_app_icon (callers of the resolver) are not exercised here: they need a full APK; "
                      "the resolver they call is")
    ck.notes.append("registered against the tree with fixes/C29-reference-cycle.diff (and fixes/C28-compact-entry-datatype.diff) applied; "
                    "on the unfixed tree the corpus witnesses end in RecursionError")


def has_cycle(ev) -> bool:
    g = {r: {v.res_id for _, e, _ in slots for v in arscgen.entry_values(e) if isinstance(v, Ref) and v.res_id and v.res_id != r}
         for r, slots in ev.items()}
    color = {}

    def dfs(u):
        color[u] = 1
        for v in g.get(u, ()):
            if color.get(v) == 1 or (v not in color and v in g and dfs(v)):
                return True
        color[u] = 2
        return False
    return any(u not in color and dfs(u) for u in g)


def replay(ck: Check, rp):
    c = rp.get("case") or {}
    if "hex" not in c:
        print("replay", json.dumps(rp.get("first_divergence") or rp.get("errors") or rp, indent=1)[:3000])
        return 0
    if "schedule" in c:
        from androguard.core import axml
        outer, inner, calls, _, cfgs = run_schedule(axml, bytes.fromhex(c["hex"]), c["schedule"])
        print("replay schedule", c["schedule"], "(judged: %s)" % c.get("which"))
        print("outer rid1=%s:" % hex(c["schedule"]["rid1"]), outer)
        print("inner rid2=%s:" % hex(c["schedule"]["rid2"]), inner)
        print("expected values:", rp.get("expected"))
        return 0
    q = [[c["rid"], c.get("wanted")]] if c.get("rid") is not None else []
    rep = run_real([{"hex": c["hex"], "queries": q, "seconds": 5.0}])[0]
    print("replay resources.arsc (%d bytes) rid=%s wanted=%s" % (len(c["hex"]) // 2, c.get("rid") and hex(c["rid"]), c.get("wanted")))
    print("real :", rep["parse"], rep.get("results"))
    print("expected values:", rp.get("expected"))
    return 0
