"""C06 — DEX strings decode to exactly the UTF-16 text their MUTF-8 bytes encode (DESIGN.md §6 C06).

P: gen/strconsts.py -> Gen/StrConsts.lean; Props/C06.lean (round trip for all unit lists, reader spec
   for every alignment, EOF behaviour, string_data_item).
T: the compiled Lean model (drv_C06) against the real code:
     mutf8   androguard.core.mutf8.decode        every 1-/2-byte sequence, boundary 3-byte products
                                                  (thorough: every 3-byte sequence with a lead >= 0x80),
                                                  structured random valid/invalid sequences
     enc     androguard.core.mutf8.encode        random code-point lists
     readnt  read_null_terminated_string         every start offset mod 128 x lengths around the chunk
                                                  boundaries, with and without terminator (EOF)
     sdi     DEX(...) on files written by harness/dexasm.py: utf16_size + decoded string per string id
S: independent oracle = Python's own utf-16-le/surrogatepass codec applied to what androguard returns,
   compared with the UTF-16 units the generator put into the file (DEX.get_strings, ClassManager.get_string /
   get_raw_string, class / method / field names, const-string operands).
"""
import io
import os
import signal
import struct

from harness.fw import Check, Driver, hexs

PROP = "C06"
CORPUS = os.path.join(os.path.dirname(os.path.dirname(os.path.dirname(os.path.abspath(__file__)))), "corpus", PROP)


class Hang(BaseException):
    pass


class time_limit:
    """pure-Python loops only (the string reader): SIGALRM interrupts them"""

    def __init__(self, sec):
        self.sec = sec

    def _h(self, *a):
        raise Hang()

    def __enter__(self):
        self.old = signal.signal(signal.SIGALRM, self._h)
        signal.setitimer(signal.ITIMER_REAL, self.sec)

    def __exit__(self, *a):
        signal.setitimer(signal.ITIMER_REAL, 0)
        signal.signal(signal.SIGALRM, self.old)
        return False


def _real():
    from androguard.core import dex
    from androguard.core import mutf8
    return dex, mutf8


# ------------------------------------------------------------------ canonical forms
def cps_line(s: str) -> str:
    return "ok " + (" ".join("%x" % ord(c) for c in s) if s else "-")


def canon_dec(mutf8, b: bytes) -> str:
    try:
        s = mutf8.decode(b)
    except UnicodeDecodeError as e:
        r = e.reason
        if "NULL" in r:
            return "err nul"
        if r.startswith("2-byte"):
            return "err short2"
        if r.startswith("3-byte"):
            return "err short3"
        return "err other:" + r[:30]
    except Exception as e:  # noqa
        return "other:" + type(e).__name__
    return cps_line(s)


def canon_enc(mutf8, cps) -> str:
    try:
        return "ok " + hexs(bytes(mutf8.encode("".join(map(chr, cps)))))
    except Exception as e:  # noqa
        return "other:" + type(e).__name__


class CountingReader:
    """file-like proxy counting read() calls (= loop iterations of the reader)"""

    def __init__(self, data: bytes, pos: int):
        self.f = io.BufferedReader(io.BytesIO(data))
        self.f.seek(pos)
        self.reads = 0

    def read(self, n=-1):
        self.reads += 1
        return self.f.read(n)

    def tell(self):
        return self.f.tell()

    def seek(self, *a):
        return self.f.seek(*a)


def canon_readnt(dex, data: bytes, pos: int) -> str:
    f = CountingReader(data, pos)
    try:
        with time_limit(2.0):
            r = dex.read_null_terminated_string(f)
    except Hang:
        return "hang"
    except ValueError:
        return f"err {f.reads}"
    except Exception as e:  # noqa
        return "other:" + type(e).__name__
    return f"ok {hexs(bytes(r))} {f.tell()} {f.reads}"


# ------------------------------------------------------------------ oracle helpers (independent of the model)
def units_of_str(s: str):
    """UTF-16 units of a Python str by CPython's own codec"""
    raw = s.encode("utf-16-le", "surrogatepass")
    return list(struct.unpack("<%dH" % (len(raw) // 2), raw))


def spec_encode(units) -> bytes:
    """MUTF-8 by the DEX document, via CPython's utf-8 codec per unit (independent of dexasm and of the model)"""
    out = bytearray()
    for u in units:
        out += b"\xc0\x80" if u == 0 else chr(u).encode("utf-8", "surrogatepass")
    return bytes(out)


# ------------------------------------------------------------------ generators
BND = [0x00, 0x01, 0x41, 0x7f, 0x80, 0x81, 0x9f, 0xa0, 0xaf, 0xb0, 0xbf, 0xc0, 0xc1, 0xc2, 0xdf, 0xe0, 0xe1,
       0xec, 0xed, 0xee, 0xef, 0xf0, 0xf1, 0xf4, 0xf5, 0xf8, 0xff, 0x8f, 0x90]


def rand_unit(rng):
    k = rng.randrange(12)
    if k == 0:
        return 0
    if k <= 2:
        return rng.randrange(1, 0x80)
    if k == 3:
        return rng.randrange(0x80, 0x800)
    if k == 4:
        return rng.choice((0x7f, 0x80, 0x7ff, 0x800, 0xfff, 0x1000, 0xcfff, 0xd000, 0xd7ff, 0xd800, 0xdbff, 0xdc00,
                           0xdfff, 0xe000, 0xfffe, 0xffff))
    if k == 5:
        return rng.randrange(0xd000, 0xd800)       # lead ED, not a surrogate
    if k == 6:
        return rng.randrange(0xd800, 0xdc00)       # high
    if k == 7:
        return rng.randrange(0xdc00, 0xe000)       # low
    if k == 8:
        return rng.randrange(0xe000, 0x10000)
    return rng.randrange(0x800, 0xd000)


def rand_units(rng, maxlen=12):
    n = rng.choice((0, 1, 1, 2, 3, 5, 8, maxlen))
    out = []
    while len(out) < n:
        if rng.random() < 0.2:                       # a real pair
            out += [rng.randrange(0xd800, 0xdc00), rng.randrange(0xdc00, 0xe000)]
        else:
            out.append(rand_unit(rng))
    return out


def rand_bytes_seq(rng):
    """mostly-valid MUTF-8 with injected damage: truncation, stray bytes, 4-byte UTF-8, swapped halves"""
    parts = []
    for _ in range(rng.choice((1, 1, 2, 3, 4, 6))):
        k = rng.randrange(10)
        if k <= 3:
            parts.append(spec_encode(rand_units(rng, 4)))
        elif k == 4:
            e = spec_encode([rand_unit(rng)])
            parts.append(e[: rng.randrange(0, len(e) + 1)])                     # truncated form
        elif k == 5:
            parts.append(bytes([rng.choice(BND)]))
        elif k == 6:
            cp = rng.choice((0x10000, 0x1f600, 0x10ffff, rng.randrange(0x10000, 0x110000)))
            parts.append(chr(cp).encode("utf-8"))                               # 4-byte UTF-8 (not MUTF-8)
        elif k == 7:
            parts.append(bytes(rng.choice(BND) for _ in range(rng.randrange(1, 5))))
        elif k == 8:
            parts.append(bytes([0xed, rng.randrange(0x80, 0xc0), rng.randrange(0x80, 0xc0)]))
        else:
            parts.append(bytes([rng.choice((0xf0, 0xf4, 0xe0, 0xc2, 0xc0, 0xed)), rng.randrange(256), rng.randrange(256)])
                         [: rng.randrange(1, 4)])
    return b"".join(parts)


def gen_decode_inputs(ck):
    rng = ck.rng
    seqs = [b""] + [bytes([a]) for a in range(256)] + [bytes([a, b]) for a in range(256) for b in range(256)]
    if ck.quick:
        seqs += [bytes([a, b, c]) for a in BND for b in BND for c in BND]
        for lead in (0xe0, 0xed, 0xef, 0xc0, 0xc2, 0xf0):
            seqs += [bytes([lead, b, c]) for b in range(0, 256, 3) for c in (0x00, 0x7f, 0x80, 0xa0, 0xb0, 0xbf, 0xc0, 0xed)]
    else:
        seqs += [bytes([a, b, c]) for a in range(0x80, 256) for b in range(256) for c in range(256)]
        seqs += [bytes([a, b, c]) for a in (0x00, 0x01, 0x41, 0x7f) for b in range(256) for c in range(256)]
    # six-byte neighbourhood: ED Ax xx ED Bx xx with every class of damage
    for b2 in (0x9f, 0xa0, 0xaf, 0xb0):
        for b4 in (0xec, 0xed, 0xee):
            for b5 in (0xaf, 0xb0, 0xbf, 0xc0, 0x80):
                s = bytes([0xed, b2, 0x81, b4, b5, 0x82])
                seqs += [s, s[:5], s[:4], s + b"A", b"A" + s, s + s]
    for _ in range(30000 if ck.quick else 600000):
        seqs.append(rand_bytes_seq(rng))
    return seqs


# ------------------------------------------------------------------ DEX files
def make_dex(strings, rng, leb_pad=0):
    """strings: list of unit lists.  Places them as plain pool strings, class / method / field names and
    const-string operands.  Returns (bytes, builder, placement)."""
    from harness import dexasm as A
    b = A.DexBuilder()
    strs = [A.norm_str(u) for u in strings]
    place = {"class": [], "method": [], "field": [], "const": [], "pool": []}
    pool = list(strs)
    rng.shuffle(pool)
    ncls = min(len(pool), rng.choice((1, 1, 2)))
    for ci in range(ncls):
        if not pool:
            break
        cname = "L" + pool.pop() + ";"
        nm = min(len(pool), rng.choice((0, 1, 2)))
        mnames = [pool.pop() for _ in range(nm)]
        nf = min(len(pool), rng.choice((0, 1, 2)))
        fnames = [pool.pop() for _ in range(nf)]
        nc = min(len(pool), rng.choice((1, 2, 4)))
        consts = [pool.pop() for _ in range(nc)]
        code = [("const-string", 0, A.StringRef(s)) for s in consts] + [("return-void",)]
        methods = [A.Method(m, "V", (), 0x1, None if i else A.Code(1, 1, 0, list(code))) for i, m in enumerate(mnames)]
        if not mnames:
            methods = [A.Method("m", "V", (), 0x1, A.Code(1, 1, 0, list(code)))]
        fields = [A.Field(f, "I", 0x1) for f in fnames]
        b.add_class(cname, instance_fields=fields, virtual_methods=methods)
        place["class"].append(A.norm_str(cname))
        place["method"].append((A.norm_str(cname), [A.norm_str(m) for m in (mnames or ["m"])]))
        place["field"].append((A.norm_str(cname), [A.norm_str(f) for f in fnames]))
        place["const"].append((A.norm_str(cname), [A.norm_str(s) for s in consts]))
    b.extra_strings.extend(pool)
    place["pool"] = pool
    data = b.build(leb_pad=leb_pad)
    return data, b, place


def gen_string_sets(ck):
    rng = ck.rng
    sets = []
    # corpus-like fixed set: every class of unit, chunk-boundary lengths
    fixed = [[0], [0x41], [0, 0], [0xd800], [0xdc00], [0xdc00, 0xd800], [0xd83d, 0xde00], [0xd800, 0x41],
             [0xdbff, 0xdfff], [0xd800, 0xd800, 0xdc00], [0xffff], [0x7ff, 0x800], [0xd7ff, 0xe000], []]
    sets.append(fixed)
    for n in (125, 126, 127, 128, 129, 255, 256, 257, 300):
        sets.append([[0x41 + (i % 26) for i in range(n)], [rand_unit(rng) for _ in range(n // 3)],
                     [0xd83d, 0xde00] * (n // 6) + [0x42], [0] * (n // 2)])
    for _ in range(40 if ck.quick else 1500):
        k = rng.choice((3, 6, 10, 20))
        ss = []
        for _ in range(k):
            ss.append(rand_units(rng, rng.choice((4, 12, 40, 150))))
        sets.append(ss)
    return sets


def dedupe(strings):
    from harness import dexasm as A
    seen, out = set(), []
    for u in strings:
        s = A.norm_str(u)
        if s not in seen and "L" + s + ";" not in seen:
            seen.add(s)
            out.append(u)
    return out


def _check_dex(ck, dex, strings, seed, leb_pad, drv, reqs, real):
    """one generated DEX file: correspondence requests (appended) + oracle checks. returns #checks"""
    import random
    from harness import dexasm as A
    rng = random.Random(seed)
    strings = dedupe(strings)
    data, b, place = make_dex(strings, rng, leb_pad)
    case = {"op": "dex", "seed": seed, "leb_pad": leb_pad, "strings": strings}
    try:
        with time_limit(20.0):
            d = dex.DEX(data)
    except Hang:
        ck.fail(case, "DEX() does not return on a valid generated file", None, "parsed", "hang")
        return 0
    except Exception as e:  # noqa
        ck.fail(case, "DEX() raises on a valid generated file", None, "parsed", type(e).__name__ + ": " + str(e)[:200])
        return 0
    cm = d.get_class_manager()
    n = 0

    def same(what, expected_str, got):
        nonlocal n
        n += 1
        exp = units_of_str(expected_str)
        try:
            obs = units_of_str(got)
        except Exception as e:  # noqa
            obs = "not-a-str:" + type(e).__name__
        if obs != exp:
            ck.fail(dict(case, where=what), f"{what}: string differs from the UTF-16 units in the file", None, exp, obs)
            return False
        return True

    # pool strings by index (ClassManager.get_string / get_raw_string) and DEX.get_strings
    for i, s in enumerate(b.strings):
        same(f"get_string({i})", s, cm.get_string(i))
        same(f"get_raw_string({i})", s, cm.get_raw_string(i))
    gs = d.get_strings()
    n += 1
    if sorted(units_of_str(x) for x in gs) != sorted(units_of_str(s) for s in b.strings):
        ck.fail(dict(case, where="get_strings"), "DEX.get_strings differs from the string pool", None,
                sorted(units_of_str(s) for s in b.strings)[:5], sorted(units_of_str(x) for x in gs)[:5])
    n += 1
    if d.get_len_strings() != len(b.strings):
        ck.fail(dict(case, where="get_len_strings"), "number of strings", None, len(b.strings), d.get_len_strings())
    # utf16_size as written
    for i, off in enumerate(b.layout["string_data"]):
        it = cm.get_string_by_offset(off)
        n += 1
        if it.get_utf16_size() != len(A.utf16_units(b.strings[i])):
            ck.fail(dict(case, where=f"utf16_size({i})"), "utf16_size", None, len(A.utf16_units(b.strings[i])), it.get_utf16_size())
        n += 1
        if bytes(it.data) != spec_encode(A.utf16_units(b.strings[i])):
            ck.fail(dict(case, where=f"data({i})"), "raw string data differs from the bytes in the file", None,
                    spec_encode(A.utf16_units(b.strings[i])).hex(), bytes(it.data).hex())
    # names
    classes = {c.get_name(): c for c in d.get_classes()}
    n += 1
    if sorted(map(units_of_str, classes)) != sorted(map(units_of_str, place["class"])):
        ck.fail(dict(case, where="class names"), "class names differ", None, sorted(map(units_of_str, place["class"])),
                sorted(map(units_of_str, classes)))
    for cname, mnames in place["method"]:
        c = classes.get(cname)
        if c is None:
            continue
        got = sorted(units_of_str(m.get_name()) for m in c.get_methods())
        n += 1
        if got != sorted(map(units_of_str, mnames)):
            ck.fail(dict(case, where="method names"), "method names differ", None, sorted(map(units_of_str, mnames)), got)
        for m in c.get_methods():
            same("method class name", cname, m.get_class_name())
    for cname, fnames in place["field"]:
        c = classes.get(cname)
        if c is None:
            continue
        got = sorted(units_of_str(f.get_name()) for f in c.get_fields())
        n += 1
        if got != sorted(map(units_of_str, fnames)):
            ck.fail(dict(case, where="field names"), "field names differ", None, sorted(map(units_of_str, fnames)), got)
    # const-string operands
    for cname, consts in place["const"]:
        c = classes.get(cname)
        if c is None:
            continue
        for m in c.get_methods():
            if m.get_code() is None:
                continue
            ins = [i for i in m.get_instructions() if i.get_name() == "const-string"]
            n += 1
            if len(ins) != len(consts):
                ck.fail(dict(case, where="const-string"), "number of const-string instructions", None, len(consts), len(ins))
                continue
            for i, s in zip(ins, consts):
                same("const-string get_raw_string", s, i.get_raw_string())
                same("const-string get_string", s, i.get_string())
                same("const-string operand", s, i.get_operands()[1][2])
    # correspondence: model reads every string_data_item of this file
    offs = b.layout["string_data"]
    if offs and len(data) <= 60000:
        reqs.append(f"sdi {data.hex()} {','.join(map(str, offs))}")
        parts = []
        for i, off in enumerate(offs):
            it = cm.get_string_by_offset(off)
            parts.append(f"{it.get_utf16_size()}:{cps_line(it.get())}")
        real.append("|".join(parts))
    return n


def check_dex(ck, dex, strings, seed, leb_pad, drv, reqs, real):
    """_check_dex, with any exception of the real accessors on a valid generated file reported as a failing input"""
    n0, r0 = len(reqs), len(real)
    try:
        return _check_dex(ck, dex, strings, seed, leb_pad, drv, reqs, real)
    except Exception as e:  # noqa
        del reqs[n0:], real[r0:]
        import traceback
        where = traceback.extract_tb(e.__traceback__)[-1]
        ck.fail({"op": "dex", "seed": seed, "leb_pad": leb_pad, "strings": dedupe(strings)},
                "a string accessor raises on a valid generated DEX file", None, "the strings of the file",
                f"{type(e).__name__}: {str(e)[:100]} at {os.path.basename(where.filename)}:{where.lineno} {where.name}")
        return 0


# ------------------------------------------------------------------ run
def run(ck: Check):
    dex, mutf8 = _real()
    ck.run_gen("strconsts")
    ck.prove(exes=["drv_C06"])
    drv = Driver("drv_C06")
    ck.rule = ("decode: every 1- and 2-byte sequence, boundary-byte products of length 3 (thorough: every 3-byte sequence "
               "with lead >= 0x80), six-byte neighbourhoods, seeded structured random; reader: every offset mod 128 x lengths "
               "around chunk boundaries, with/without terminator; DEX files from harness/dexasm.py with random UTF-16 unit "
               "strings as pool strings, class/method/field names and const-string operands. distinct = distinct byte "
               "sequence / (offset,length) / unit string; non-trivial = not pure ASCII of length < 2")
    # ---- corpus first
    n_corpus = 0
    if os.path.isdir(CORPUS):
        import json
        for fn in sorted(os.listdir(CORPUS)):
            if fn.endswith(".json"):
                run_case(ck, dex, mutf8, json.load(open(os.path.join(CORPUS, fn))), drv)
                n_corpus += 1
    # ---- T/S: the decoder
    seqs = gen_decode_inputs(ck)
    reqs = ["mutf8 " + hexs(s) for s in seqs]
    real = [canon_dec(mutf8, s) for s in seqs]
    model = drv.ask(reqs)
    ck.compare("mutf8-decode", reqs, real, model)
    dist = {"decode_ok": 0, "decode_err_nul": 0, "decode_err_short2": 0, "decode_err_short3": 0, "decode_other": 0}
    for r in real:
        k = "decode_ok" if r.startswith("ok") else "decode_" + r.replace(" ", "_") if r.startswith("err ") and r[4:] in ("nul", "short2", "short3") else "decode_other"
        dist[k] += 1
    # oracle on valid MUTF-8: decode(spec_encode(units)) has exactly those units
    rng = ck.rng
    unit_lists = [[u] for u in range(0, 0x10000, 1 if not ck.quick else 7)]
    unit_lists += [[h, l] for h in (0xd800, 0xd83d, 0xdbff) for l in (0xdc00, 0xde00, 0xdfff)]
    unit_lists += [[a, b] for a in (0xd7ff, 0xd800, 0xdbff, 0xdc00, 0xdfff, 0xe000, 0, 0x41) for b in (0xd7ff, 0xd800, 0xdbff, 0xdc00, 0xdfff, 0xe000, 0, 0x41)]
    for _ in range(20000 if ck.quick else 300000):
        unit_lists.append(rand_units(rng, rng.choice((4, 12, 30))))
    nbad = 0
    for u in unit_lists:
        enc = spec_encode(u)
        try:
            s = mutf8.decode(enc)
            obs = units_of_str(s)
        except Exception as e:  # noqa
            obs = "raised " + type(e).__name__
        if obs != u:
            nbad += 1
            ck.fail({"op": "roundtrip", "units": u}, "decode(MUTF-8 of the units) is not the units", None, u, obs)
    ck.cover(evaluations=len(seqs) + len(unit_lists),
             distinct=[("b", s) for s in set(seqs) if len(s) >= 2] + [("u", tuple(u)) for u in unit_lists if len(u) >= 2 or (u and u[0] >= 0x80)],
             samples=[{"mutf8": hexs(seqs[i]), "real": real[i]} for i in (0xc0 + 1, 70000, len(seqs) - 1)],
             dist=dict(dist, roundtrip_unit_lists=len(unit_lists)))
    # ---- T: the encoder
    cpl = [[c] for c in (0, 1, 0x7f, 0x80, 0x7ff, 0x800, 0xd7ff, 0xd800, 0xdfff, 0xffff, 0x10000, 0x10ffff)]
    for _ in range(5000 if ck.quick else 100000):
        cpl.append([rng.choice((rand_unit(rng), rng.randrange(0x10000, 0x110000))) for _ in range(rng.randrange(0, 6))])
    reqs = ["enc " + (",".join("%x" % c for c in cps) if cps else "-") for cps in cpl]
    realr = [canon_enc(mutf8, cps) for cps in cpl]
    ck.compare("mutf8-encode", reqs, realr, drv.ask(reqs))
    # ---- T/S: the reader
    reqs, realr, cases = [], [], []
    lens = sorted({0, 1, 2, 63, 126, 127, 128, 129, 130, 254, 255, 256, 257, 300, 383, 384, 385})
    for p in list(range(0, 131)) + [255, 256, 257, 1000]:
        for n in (lens if (p < 4 or p % 16 == 0 or p > 124 or not ck.quick) else (0, 1, 127 - p % 128, 128 - p % 128, 129 - p % 128, 256 - p % 128, 300)):
            if n < 0:
                continue
            pre = bytes(rng.randrange(0, 256) for _ in range(p))
            s = bytes(rng.randrange(1, 256) for _ in range(n))
            post = bytes(rng.randrange(0, 256) for _ in range(rng.choice((0, 1, 5, 200))))
            for term in (True, False):
                data = pre + s + (b"\x00" + post if term else b"")
                cases.append((data, p, s if term else None))
    cases.append((b"abc", 10, None))               # position beyond the end
    cases.append((b"", 0, None))
    hangs, kept = 0, []
    for data, p, s in cases:
        if s is None and hangs >= 3:
            continue                                   # the reader hangs at EOF: three witnesses are enough
        r = canon_readnt(dex, data, p)
        hangs += r == "hang"
        kept.append((data, p, s))
        reqs.append(f"readnt 128 {p} {hexs(data)}")
        realr.append(r)
    cases = kept
    modelr = drv.ask(reqs)
    ck.compare("readnt", reqs, realr, modelr)
    for (data, p, s), r in zip(cases, realr):
        case = {"op": "readnt", "pos": p, "file": hexs(data)}
        if r == "hang":
            ck.fail(case, "read_null_terminated_string does not return (no NUL before the end of the buffer)", None,
                    "an error", "no return within 2 s")
        elif s is not None:
            exp_prefix = f"ok {hexs(s)} {p + len(s) + 1} "
            if not r.startswith(exp_prefix):
                ck.fail(case, "reader returns the wrong bytes / position", None, exp_prefix, r)
        elif not r.startswith("err"):
            ck.fail(case, "reader returns a string although no terminator exists", None, "error", r)
    ck.cover(evaluations=len(cases), distinct=[("nt", p % 128, len(d) - p) for d, p, _ in cases],
             samples=[{"readnt_pos": cases[i][1], "len": len(cases[i][0]), "real": realr[i][-24:]} for i in (5, len(cases) // 2)],
             dist={"readnt_terminated": sum(1 for c in cases if c[2] is not None), "readnt_eof": sum(1 for c in cases if c[2] is None)})
    # ---- T/S: whole DEX files
    sets = gen_string_sets(ck)
    reqs, realr = [], []
    nchk, nstr, kinds = 0, 0, {"nul": 0, "pair": 0, "lone": 0, "bmp3": 0, "two": 0, "ascii": 0}
    for si, ss in enumerate(sets):
        seed = ck.seed * 1000003 + si
        nchk += check_dex(ck, dex, ss, seed, leb_pad=(si % 3 if si % 5 == 0 else 0), drv=drv, reqs=reqs, real=realr)
        for u in ss:
            nstr += 1
            for i, x in enumerate(u):
                if x == 0:
                    kinds["nul"] += 1
                elif x < 0x80:
                    kinds["ascii"] += 1
                elif x < 0x800:
                    kinds["two"] += 1
                elif 0xd800 <= x < 0xdc00 and i + 1 < len(u) and 0xdc00 <= u[i + 1] < 0xe000:
                    kinds["pair"] += 1
                elif 0xd800 <= x < 0xe000 and not (0xdc00 <= x and i > 0 and 0xd800 <= u[i - 1] < 0xdc00):
                    kinds["lone"] += 1
                else:
                    kinds["bmp3"] += 1
    ck.compare("dex-string-data-items", [r[:40] + "…" + r[-40:] for r in reqs], realr, drv.ask(reqs))
    ck.cover(evaluations=nchk, distinct=[("s", tuple(u)) for ss in sets for u in ss if len(u) >= 2 or (u and u[0] >= 0x80)],
             samples=[{"dex_strings": [u[:6] for u in sets[-1][:3]]}],
             dist=dict({"dex_files": len(sets), "dex_strings": nstr, "corpus_cases": n_corpus}, **{"unit_" + k: v for k, v in kinds.items()}))
    ck.assumptions.append("the mutf8 C extension (site-packages/mutf8/cmutf8.c 1.1.0) and CPython's strict UTF-8 decoder are modelled, "
                          "not verified; both are tied by the mutf8-decode correspondence")
    ck.assumptions.append("a file is a byte list; BufferedReader.read(n) returns min(n, bytes left) bytes; seek/tell are exact")
    ck.notes.append("outside the property (not valid MUTF-8): a valid 4-byte UTF-8 sequence decodes to one astral character only when "
                    "the input contains none of ED/C0/00, otherwise its four bytes come out as four Latin-1 characters; stray "
                    "continuation bytes and F5..FF are returned as characters (slow_stray_byte)")


# ------------------------------------------------------------------ replay
def run_case(ck, dex, mutf8, c, drv=None):
    op = c.get("op")
    if op == "readnt":
        data = bytes.fromhex(c["file"]) if c["file"] != "-" else b""
        r = canon_readnt(dex, data, c["pos"])
        print("readnt", c["pos"], len(data), "->", r)
        if r == "hang":
            ck.fail(c, "read_null_terminated_string does not return (no NUL before the end of the buffer)", None,
                    "an error", "no return within 2 s")
        return r
    if op == "roundtrip":
        u = c["units"]
        try:
            obs = units_of_str(mutf8.decode(spec_encode(u)))
        except Exception as e:  # noqa
            obs = "raised " + type(e).__name__
        print("units", u, "->", obs)
        if obs != u:
            ck.fail(c, "decode(MUTF-8 of the units) is not the units", None, u, obs)
        return obs
    if op == "mutf8":
        b = bytes.fromhex(c["bytes"]) if c["bytes"] != "-" else b""
        r = canon_dec(mutf8, b)
        print("mutf8", c["bytes"], "->", r)
        return r
    if op == "dex":
        reqs, real = [], []
        n = check_dex(ck, dex, c["strings"], c["seed"], c.get("leb_pad", 0), drv, reqs, real)
        print("dex with", len(c["strings"]), "strings:", n, "checks,", len(ck.failures), "failures")
        return n


def replay(ck: Check, rp):
    dex, mutf8 = _real()
    c = rp.get("case") or {}
    if not c and "first_divergence" in rp:
        m = rp["first_divergence"]
        print("correspondence", m.get("stream"), "request:", m.get("request"))
        print("real :", m.get("real"))
        print("model:", m.get("model"))
        return 0
    print("replay", {k: (v if k != "strings" else f"{len(v)} strings") for k, v in c.items()})
    run_case(ck, dex, mutf8, c)
    for f in ck.failures:
        print("FAILS:", f["what"], "expected", f["expected"], "observed", f["observed"])
    return 1 if ck.failures else 0
