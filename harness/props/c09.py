"""C09 — corrupted or non-DEX input is rejected at the header (DESIGN.md section 6, C09).

P: gen/header.py -> Gen/Header.lean (order of the guards, operators, constants, field offsets, exception
   classes, DalvikPacker branch table), theorems of Props/C09.lean.
T: real `HeaderItem(...)`, `DEX(...)`, `zlib.adler32` vs the compiled Lean model (drv_C09):
     adler    random buffers (incl. all-ff runs that exercise the modulus)
     hdr      HeaderItem on whole buffers (error name + exception class; all 21 unpacked fields when accepted)
     dex-api  DEX(...) on the same buffers (header error, or header accepted)
     mut      DEX(...) on EVERY single-byte change at every offset >= 8 of small DEX files (255 values each)
S: independent oracle (format document + Adler-32 by its definition, shares nothing with the model):
     a buffer whose magic / endian tag / header size / checksum is wrong, and every single-byte change at an
     offset >= 12 (and 8..11) of an accepted file, must make DEX(...) raise, inside HeaderItem.__init__, without a
     MapList (or anything after the header) having been constructed.
"""
import glob
import hashlib
import io
import json
import multiprocessing
import os
import signal
import struct
import zlib

from harness.fw import REPO, VERIF, Check, Driver, ToolFailure, hexs

HEADER_STAGE = ("HeaderItem.__init__", "DalvikPacker.__init__")
MSG = [("Header too small", "too-short"), ("Byte swapped endian", "endian-swapped"),
       ("Wrong endian tag", "bad-endian"), ("Wrong magic", "bad-magic"), ("Adler32", "bad-checksum"),
       ("Wrong header size", "bad-header-size"), ("TYPE_IDs", "too-many-types"), ("PROTO_IDs", "too-many-protos")]
FIELDS = ["checksum", "file_size", "header_size", "endian_tag", "link_size", "link_off", "map_off",
          "string_ids_size", "string_ids_off", "type_ids_size", "type_ids_off", "proto_ids_size", "proto_ids_off",
          "field_ids_size", "field_ids_off", "method_ids_size", "method_ids_off", "class_defs_size",
          "class_defs_off", "data_size", "data_off"]


# ------------------------------------------------------------------ the real code
def _dex():
    from androguard.core import dex
    return dex


def classify(e):
    """exception -> 'err <name> <class>' (header messages) or None (not a header message)"""
    if isinstance(e, struct.error):
        return "err struct-error error"
    msg = str(e)
    for pat, name in MSG:
        if pat in msg:
            return f"err {name} {type(e).__name__}"
    return None


def in_header_stage(e):
    tb = e.__traceback__
    names = []
    while tb is not None:
        names.append(tb.tb_frame.f_code.co_qualname)
        tb = tb.tb_next
    return any(n in HEADER_STAGE for n in names), names


def real_header(buf: bytes):
    """HeaderItem.__init__ alone, as DEX._load calls it"""
    dex = _dex()
    cm = type("CM", (), {})()
    raw = io.BufferedReader(io.BytesIO(buf))
    try:
        h = dex.HeaderItem(0, raw, cm)
    except Exception as e:  # noqa
        return classify(e) or f"other:{type(e).__name__}"
    return "ok " + " ".join(sorted(f"{n}={getattr(h, n)}" for n in FIELDS))


def canon_model_hdr(line: str) -> str:
    """model reply `ok name=value …` (tuple order of the source) -> sorted by name"""
    if not line.startswith("ok "):
        return line
    return "ok " + " ".join(sorted(x.lstrip("_") for x in line.split(" ")[1:]))


class Spy:
    """counts constructions of MapList (the first thing DEX._load does after the header)"""

    def __init__(self):
        self.dex = _dex()
        self.n = 0
        self.orig = self.dex.MapList

    def __enter__(self):
        spy, orig = self, self.orig

        def counted(*a, **kw):
            spy.n += 1
            return orig(*a, **kw)
        self.dex.MapList = counted
        return self

    def __exit__(self, *a):
        self.dex.MapList = self.orig


class _Timeout(BaseException):
    """a later stage of the real parser did not come back (not an Exception: androguard must not swallow it)"""


def _on_alarm(signum, frame):
    raise _Timeout()


def real_dex(buf: bytes, spy=None, limit=5.0):
    """DEX(buf) -> (canonical, accepted?, parsed_after_header?, raised_in_header_stage?).
    A corrupted file that gets past the header may keep a later stage busy for ever (C35's subject, not
    this property's): the call is abandoned after `limit` seconds and counts as 'header accepted'."""
    dex = _dex()
    n0 = spy.n if spy else 0
    if limit:
        signal.signal(signal.SIGVTALRM, _on_alarm)     # CPU time of this process: machine load does not count
        signal.setitimer(signal.ITIMER_VIRTUAL, limit)
    try:
        try:
            dex.DEX(buf)
        finally:
            if limit:
                signal.setitimer(signal.ITIMER_VIRTUAL, 0)
    except _Timeout:
        # never a verdict by itself: ask HeaderItem alone (no later stage) whether the header is accepted
        if real_header(buf).startswith("ok"):
            return "ok", False, True, False      # header accepted, a later stage kept running
        return real_dex(buf, spy, limit=None)    # the header rejects: run again without a limit
    except (RecursionError, MemoryError) as e:
        if real_header(buf).startswith("ok"):
            return "ok", False, True, False      # a later stage blew up: the header had been accepted
        return f"other:{type(e).__name__}", False, bool(spy and spy.n > n0), True
    except Exception as e:  # noqa
        parsed = bool(spy and spy.n > n0)
        stage, _ = in_header_stage(e)
        c = classify(e)
        if stage and c:
            return c, False, parsed, True
        if stage:
            return f"other:{type(e).__name__}", False, parsed, True
        return "ok", False, parsed, False          # raised after the header: the header was accepted
    return "ok", True, bool(spy and spy.n > n0), False


# ------------------------------------------------------------------ independent oracle (format document)
def adler32_def(data: bytes) -> int:
    """RFC 1950: s1 = 1 + sum of bytes, s2 = sum of the successive s1, both modulo 65521"""
    s1, s2 = 1, 0
    for b in data:
        s1 = (s1 + b) % 65521
        s2 = (s2 + s1) % 65521
    return s2 * 65536 + s1


def u32(buf, off):
    return buf[off] | buf[off + 1] << 8 | buf[off + 2] << 16 | buf[off + 3] << 24


def defects(buf: bytes, adler=None):
    """which of the decisive header properties of the statement are wrong (empty list: none)"""
    if len(buf) < 0x70:
        return ["short"]
    out = []
    if not (buf[0:2] == b"de" and buf[2] in (0x78, 0x79) and buf[3] == 0x0A and buf[7] == 0):
        out.append("magic")
    if u32(buf, 40) != 0x12345678:
        out.append("endian")
    if u32(buf, 36) != 0x70:
        out.append("header_size")
    a = adler if adler is not None else (adler32_def(buf[12:]) if len(buf) <= 8192 else zlib.adler32(buf[12:]))
    if u32(buf, 8) != a:
        out.append("checksum")
    return out


def with_checksum(buf: bytes) -> bytes:
    return buf[:8] + struct.pack("<I", adler32_def(buf[12:]) if len(buf) <= 8192 else zlib.adler32(buf[12:])) + buf[12:]


def put32(buf: bytes, off: int, v: int) -> bytes:
    return buf[:off] + struct.pack("<I", v & 0xFFFFFFFF) + buf[off + 4:]


# ------------------------------------------------------------------ inputs
def mini_dex(strings, version=b"035") -> bytes:
    """header + string_ids + string_data + map_list, written by hand from the format document"""
    strings = sorted(set(strings))
    n = len(strings)
    ids_off = 0x70
    data_off = ids_off + 4 * n
    data = bytearray()
    offs = []
    for s in strings:
        offs.append(data_off + len(data))
        assert len(s) < 128 and all(0 < c < 128 for c in s)
        data += bytes([len(s)]) + s + b"\0"
    while (data_off + len(data)) % 4:
        data.append(0)
    map_off = data_off + len(data)
    entries = [(0x0000, 1, 0)]
    if n:
        entries += [(0x0001, n, ids_off), (0x2002, n, offs[0])]
    entries.append((0x1000, 1, map_off))
    data += struct.pack("<I", len(entries))
    for t, c, o in entries:
        data += struct.pack("<HHII", t, 0, c, o)
    size = data_off + len(data)
    hdr = b"dex\n" + version + b"\0" + b"\0" * 4 + b"\0" * 20
    hdr += struct.pack("<20I", size, 0x70, 0x12345678, 0, 0, map_off, n, ids_off if n else 0,
                       0, 0, 0, 0, 0, 0, 0, 0, 0, 0, len(data), data_off)
    body = hdr + b"".join(struct.pack("<I", o) for o in offs) + bytes(data)
    body = body[:12] + hashlib.sha1(body[32:]).digest() + body[32:]
    return with_checksum(body)


def asm_dex(rng, k):
    """a small DEX with one or two classes from the shared independent writer (if it is there)"""
    from harness import dexasm as A
    b = A.DexBuilder()
    for _ in range(rng.randrange(0, 3)):
        b.extra_strings.append("".join(rng.choice("abcdefgXYZ09_$") for _ in range(rng.randrange(1, 9))))
    for c in range(1 + (k % 2)):
        name = "L" + "".join(rng.choice("abcdefgh") for _ in range(rng.randrange(1, 6))) + f"{k}{c};"
        fields = [A.Field("f%d" % i, rng.choice("IJZB"), 0x9) for i in range(rng.randrange(0, 2))]

        code = A.assemble([("const/4", 0, rng.randrange(-8, 8)), ("return-void",)])[0]
        meths = [A.Method("m", "V", (), 0x9, A.Code(1, 0, 0, bytes(code)))]
        b.add_class(name, static_fields=fields, direct_methods=meths)
    return b.build()


def generated_files(ck: Check, n):
    rng = ck.rng
    out = []
    for k in range(n):
        f = None
        if k % 3 != 2:
            try:
                f = asm_dex(rng, k)
            except Exception as e:  # noqa  (writer missing or unhappy: fall back to the hand-made file)
                ck.notes.append(f"dexasm unavailable for a generated file ({type(e).__name__}); hand-made file used") \
                    if not any("dexasm unavailable" in x for x in ck.notes) else None
        if f is None:
            strs = {bytes(rng.choice(b"abcdefghijklmnopqrstuvwxyz/;L") for _ in range(rng.randrange(1, 12)))
                    for _ in range(rng.randrange(0, 5))}
            f = mini_dex(strs, version=rng.choice([b"035", b"037", b"038", b"039"]))
        out.append((f"gen{k}", f))
    return out


def shipped_files():
    out = []
    for p in sorted(glob.glob(os.path.join(REPO, "tests", "data", "APK", "*.dex"))):
        out.append((os.path.basename(p), open(p, "rb").read()))
    return out


BASIC = bytes.fromhex(
    "6465780A30333500460A4882696E76616C6964696E76616C6964696E76616C69"
    "7000000070000000785634120000000000000000000000000000000000000000"
    "0000000000000000000000000000000000000000000000000000000000000000"
    "00000000000000000000000000000000")


def field_cases(ck: Check, name, base: bytes):
    """buffers in which the decisive fields take wrong (and boundary) values, with and without a recomputed
    checksum, alone and combined with corrupted later structures. -> list of (label, bytes)"""
    rng = ck.rng
    out = []
    add = lambda lab, b: out.append((f"{name}:{lab}", bytes(b)))  # noqa
    # magic: every byte position x every value (outside the checksummed region, nothing to recompute)
    for pos in range(8):
        for v in (range(256) if (ck.quick is False or pos in (0, 1, 2, 3, 7)) else (0, 0x30, 0x39, 0x41, 0xFF)):
            if v != base[pos]:
                b = bytearray(base); b[pos] = v; add(f"magic[{pos}]={v}", b)
    for m in (b"dex\n", b"dey\n", b"DEX\n", b"dex\r", b"cdex", b"PK\x03\x04", b"\x7fELF", b"dex\x00", b"\ndex"):
        for last in (0, 1, 0x30):
            add(f"magic={m!r}/{last}", m + base[4:7] + bytes([last]) + base[8:])
    # endian tag
    tags = [0x78563412, 0x12345678, 0, 0xFFFFFFFF, 0x12345679, 0x12345670, 0x02345678, 0x12355678, 0x12340678,
            0x78563413, 0x56781234, 0x34127856, 0x1234, 0x5678, 0x87654321, 0x12345678 ^ (1 << 31)]
    tags += [0x12345678 ^ (1 << k) for k in range(32)] + [0x78563412 ^ (1 << k) for k in range(0, 32, 5)]
    tags += [rng.randrange(1 << 32) for _ in range(20 if ck.quick else 300)]
    for t in tags:
        b = put32(base, 40, t)
        add(f"endian={t:#x}", b); add(f"endian={t:#x}+sum", with_checksum(b))
    # header size
    sizes = list(range(0x60, 0x80)) + [0, 1, 0x7000, 0x70000000, 0x170, 0x10070, 0x70 << 8, 0xFFFFFFFF, len(base)]
    sizes += [rng.randrange(1 << 32) for _ in range(20 if ck.quick else 300)]
    for s in sizes:
        b = put32(base, 36, s)
        add(f"header_size={s:#x}", b); add(f"header_size={s:#x}+sum", with_checksum(b))
    # type / proto counts (not among the four decisive fields of the statement; correspondence only)
    for off in (64, 72):
        for v in (65534, 65535, 65536, 65537, 0x10000000, 0xFFFFFFFF):
            add(f"count@{off}={v:#x}+sum", with_checksum(put32(base, off, v)))
    # checksum value
    good = u32(base, 8)
    for c in [0, 1, 0xFFFFFFFF, good ^ 1, good ^ 0x80000000, (good + 65521) & 0xFFFFFFFF, (good + 65536) & 0xFFFFFFFF,
              (good >> 16) | ((good & 0xFFFF) << 16), zlib.adler32(base), zlib.adler32(base[8:]), zlib.adler32(base[32:]),
              zlib.crc32(base[12:])] + [rng.randrange(1 << 32) for _ in range(20 if ck.quick else 300)]:
        add(f"checksum={c:#x}", put32(base, 8, c))
    # truncation / extension (the checksum covers the whole rest of the buffer)
    cuts = set(range(0, 120)) | {len(base) - 1, len(base) - 2, len(base) // 2} | \
        {rng.randrange(len(base)) for _ in range(10 if ck.quick else 100)}
    for n in sorted(c for c in cuts if 0 <= c < len(base)):
        add(f"cut@{n}", base[:n])
        if n < 0x70:
            add(f"cut@{n}+sum", with_checksum(base[:n]) if n >= 12 else base[:n])
    for extra in (b"\0", b"\xff", b"\0" * 65521, b"\xf1\xff"):   # 0xfff1 = 65521: low sum unchanged mod 65521 needs two bytes
        add(f"append{len(extra)}", base + extra)
    # several defects at once, and a wrong header in front of structures that a later stage would choke on:
    # the reported error must be the header's, and nothing after the header may have run
    junk_map = put32(base, 52, max(0x70, len(base) - 3))           # map list runs off the end of the buffer
    far_map = put32(base, 52, 0xFFFFFF00)
    for lab, b in (("junkmap", junk_map), ("farmap", far_map)):
        add(f"{lab}+sum", with_checksum(b))                        # header fine: a LATER stage raises
        for pos, v in ((0, 0x65), (3, 0x0B), (7, 1)):
            x = bytearray(with_checksum(b)); x[pos] = v; add(f"{lab}+sum+magic[{pos}]", x)
        add(f"{lab}+sum+endian", put32(with_checksum(b), 40, 0x78563412))
        add(f"{lab}+endian+sum", with_checksum(put32(b, 40, 0x12345670)))
        add(f"{lab}+hsize+sum", with_checksum(put32(b, 36, 0x74)))
        add(f"{lab}+nosum", b)
        add(f"{lab}+magic+endian+hsize", put32(put32(b"dfx\n" + b[4:], 40, 1), 36, 0))
    return out


def junk_cases(ck: Check):
    rng = ck.rng
    out = [("junk:empty", b""), ("junk:zeros8", b"\0" * 8), ("junk:zeros112", b"\0" * 112), ("junk:zeros4096", b"\0" * 4096),
           ("junk:ff112", b"\xff" * 112), ("junk:zip", b"PK\x03\x04" + b"\0" * 200), ("junk:elf", b"\x7fELF" + b"\x01" * 300),
           ("junk:text", b"<?xml version='1.0'?>" * 10), ("junk:magiconly", b"dex\n035\0" + b"\0" * 104),
           ("junk:magic+endian", put32(b"dex\n035\0" + b"\0" * 104, 40, 0x12345678))]
    for k in range(60 if ck.quick else 2000):
        n = rng.choice((rng.randrange(0, 112), rng.randrange(112, 400), 112, 111, 113))
        b = bytes(rng.randrange(256) for _ in range(n))
        if n >= 112 and k % 2:
            b = put32(b"dex\n035\0" + b[8:], 40, 0x12345678)
            if k % 4 == 1:
                b = with_checksum(put32(b, 36, 0x70))      # a header that passes, followed by rubbish
        out.append((f"junk:rand{k}", b))
    return out


# ------------------------------------------------------------------ sweeps (single-byte changes)
def _values(mode, old):
    if mode == "all":
        return [v for v in range(256) if v != old]
    if mode == "8":
        return sorted({old ^ 1, old ^ 0x80, (old + 1) % 256, (old - 1) % 256, 0, 0xFF, old ^ 0x10, 255 - old} - {old})
    return sorted({old ^ 1, old ^ 0xFF, (old + 1) % 256} - {old})


def _sweep_file(args):
    """worker (one file): the requested single-byte changes through the real DEX(...), the same through the
    model's driver, the oracle's demand on each. Returns a summary (counts, first mismatches, first failures)."""
    name, buf, offsets, mode, want_model, stream = args
    from harness.fw import quiet_androguard
    quiet_androguard()
    real = []
    bad = 0
    with Spy() as spy:
        b = bytearray(buf)
        for off in offsets:
            old = b[off]
            for v in _values(mode, old):
                b[off] = v
                c, accepted, parsed, stage = real_dex(bytes(b), spy, limit=2.0)
                real.append((off, v, c, accepted, parsed))
                bad += (off >= 8 and (c == "ok" or parsed))
            b[off] = old
            if bad >= 300:               # the violation is established; do not parse 10^5 corrupted files in full
                break
    out = {"name": name, "stream": stream, "n": len(real), "hist": {}, "mismatch": [], "nmismatch": 0,
           "fail": [], "nfail": 0, "nsearch": 0}
    if want_model and real:
        model = Driver("drv_C09").ask([f"base {hexs(buf)}"] + [f"mut {off} {v}" for off, v, *_ in real])[1:]
        for (off, v, c, *_), m in zip(real, model):
            if c != m:
                out["nmismatch"] += 1
                if len(out["mismatch"]) < 5:
                    out["mismatch"].append((f"{name}: mut {off} {v}", c, m))
    hist = out["hist"]
    small = {"hex": hexs(buf)} if len(buf) <= 4096 else {}
    for off, v, c, accepted, parsed in real:
        hist[c] = hist.get(c, 0) + 1
        if off < 8:
            continue                     # the magic: 'x'->'y' and the version digits are accepted; correspondence only
        out["nsearch"] += 1
        what = None
        if c == "ok":
            what = ("a single-byte change after the magic of an accepted DEX file is not rejected at the header"
                    + (" (DEX(...) returned normally)" if accepted else " (a later stage raised instead)"),
                    "rejected by HeaderItem", "accepted" if accepted else "header accepted, later error")
        elif parsed:
            what = ("structures were parsed before the corrupted file was rejected",
                    "no MapList before the header error", c)
        if what:
            out["nfail"] += 1
            if len(out["fail"]) < 3:
                out["fail"].append(({"kind": "mut", "file": name, "off": off, "val": v, **small}, *what))
    return out


def run_sweeps(ck: Check, pool, tasks):
    """tasks: list of _sweep_file argument tuples; biggest first so that the pool is balanced"""
    tasks = sorted(tasks, key=lambda t: -len(t[1]) * len(t[2]) * (255 if t[3] == "all" else 8))
    for r in pool.imap_unordered(_sweep_file, tasks):
        st = r["stream"]
        for rq, a, b in r["mismatch"]:
            ck.compare(st, [rq], [a], [b])
        extra = r["n"] - len(r["mismatch"])
        ck.corr_cases += extra
        ck.corr_streams[st] = ck.corr_streams.get(st, 0) + extra
        for case, what, exp, obs in r["fail"]:
            ck.fail(case, what, None, exp, obs)
        for _ in range(r["nfail"] - len(r["fail"])):      # counted, not listed
            ck.failures.append({"case": {"kind": "mut", "file": r["name"], "more": True}, "what": "more of the same",
                                "key": None, "expected": None, "observed": None})
        ck.cover(evaluations=r["n"], distinct=((r["name"], st, i) for i in range(r["nsearch"])),
                 dist={f"{st}:{k}": n for k, n in r["hist"].items()})


# ------------------------------------------------------------------ whole-buffer cases
def whole(ck: Check, drv, cases, chunk=4000):
    """cases: list of (label, bytes). HeaderItem and DEX(...) vs model; oracle on DEX(...). Returns the observations."""
    obs = []
    hist = {}
    for k in range(0, len(cases), chunk):
        part = cases[k:k + chunk]
        reqs, rh, po = [], [], []
        with Spy() as spy:
            for lab, b in part:
                reqs.append(f"hdr {hexs(b)}")
                rh.append(real_header(b))
                po.append(real_dex(b, spy))
        if drv is not None:
            model = drv.ask(reqs)
            labs = [c[0] + " " + r[:300] for c, r in zip(part, reqs)]
            ck.compare("hdr", labs, rh, [canon_model_hdr(m) for m in model])
            ck.compare("dex-api", labs, [o[0] for o in po], [m.split(" ")[0] if m.startswith("ok") else m for m in model])
        nontrivial = []
        for (lab, b), (c, accepted, parsed, stage) in zip(part, po):
            d = defects(b)
            key = "+".join(d) if d else "none"
            hist[key] = hist.get(key, 0) + 1
            if not d:
                continue                  # the oracle has no objection: the statement demands nothing
            if len(b) >= 0x70:
                nontrivial.append(hashlib.sha256(b).digest()[:10])
            case = {"kind": "buf", "label": lab,
                    **({"hex": hexs(b)} if len(b) <= 8192 else {"sha": hashlib.sha256(b).hexdigest()})}
            if c == "ok":
                ck.fail(case, f"a buffer with a wrong {' and '.join(d)} is not rejected at the header", None,
                        "an error raised by HeaderItem.__init__", "accepted" if accepted else "header accepted, later error")
            elif parsed:
                ck.fail(case, f"structures were parsed before the buffer with a wrong {' and '.join(d)} was rejected",
                        None, "no MapList before the header error", c)
        ck.cover(evaluations=len(part), distinct=nontrivial)
        obs += po
    ck.cover(dist={f"defect:{k}": n for k, n in hist.items()})
    return obs


def adler_stream(ck: Check, drv):
    rng = ck.rng
    bufs = [b"", b"\0", b"\xff", b"Wikipedia", b"\xff" * 5552, b"\xff" * 5553, b"\xff" * 65536, b"\0" * 70000,
            b"\xf0" * 257, bytes(range(256)) * 17]
    for _ in range(40 if ck.quick else 400):
        n = rng.choice((rng.randrange(0, 64), rng.randrange(64, 4096), rng.randrange(4096, 65536)))
        mode = rng.randrange(3)
        bufs.append(bytes(rng.randrange(256) for _ in range(n)) if mode == 0 else
                    bytes(rng.choice((0xFF, 0xFE, 0xFF, 0x00)) for _ in range(n)) if mode == 1 else
                    bytes([rng.randrange(256)]) * n)
    reqs = [f"adler {hexs(b)}" for b in bufs]
    real = [str(zlib.adler32(b)) for b in bufs]
    for b, r in zip(bufs, real):          # the definition, independently of zlib and of the model
        if len(b) <= 70000 and str(adler32_def(b)) != r:
            raise ToolFailure("zlib.adler32 disagrees with the RFC 1950 definition (oracle broken?)")
    if drv is not None:
        ck.compare("adler", [r[:200] for r in reqs], real, drv.ask(reqs))
    ck.cover(dist={"adler_buffers": len(bufs), "adler_max_len": max(len(b) for b in bufs)})


# ------------------------------------------------------------------ corpus
def corpus_cases():
    out = []
    for p in sorted(glob.glob(os.path.join(VERIF, "corpus", "C09", "*.json"))):
        for c in json.load(open(p)):
            out.append((f"corpus:{os.path.basename(p)}:{c['label']}", bytes.fromhex(c["hex"])))
    return out


# ------------------------------------------------------------------ run
def run(ck: Check):
    ck.run_gen("header")
    ck.prove(exes=["drv_C09"])
    try:
        drv = Driver("drv_C09")
    except ToolFailure:
        if not ck.p_errors:
            raise
        drv = None                      # the model no longer builds: P is broken, T cannot run, S runs deeper
        ck.notes.append("driver not built: correspondence skipped")
    deep = not ck.quick
    boost = ck.quick and bool(ck.p_errors)      # a broken obligation: search deeper, still inside the quick budget
    ck.rule = ("evaluation = one buffer given to DEX(...) (and HeaderItem). mut: every offset >= 8 x all 255 other byte values "
               "of generated small DEX files and Test.dex, 8 values per offset for the other small shipped files, sampled "
               "offsets of the two large shipped files; buf: wrong/boundary magic, endian tag, header size, checksum, "
               "truncations, combined defects in front of corrupted later structures, non-DEX junk. "
               "distinct non-trivial = distinct (file, offset, value) changes at offsets >= 8, plus distinct buffers of at "
               "least 112 bytes with at least one of the four decisive fields wrong")
    _dex()                               # import androguard before forking the workers
    pool = multiprocessing.Pool(min(16, os.cpu_count() or 2))
    try:
        # 0. corpus first
        cc = corpus_cases()
        if cc:
            whole(ck, drv, cc)
        adler_stream(ck, drv)
        ship = shipped_files()
        small = [(n, b) for n, b in ship if len(b) <= 4096]
        big = [(n, b) for n, b in ship if len(b) > 4096]
        gens = generated_files(ck, 40 if deep else 5 if boost else 3) + [("basic112", BASIC)]
        bases = gens + small
        # every base file must be a file the oracle has no objection to, and is accepted (else the sweeps are vacuous)
        with Spy() as spy:
            for n, b in bases + big:
                d = defects(b)
                c, accepted, parsed, stage = real_dex(b, spy)
                if d:
                    raise ToolFailure(f"base file {n} is not a valid DEX for the oracle: {d}")
                if drv is not None:
                    ck.compare("dex-api", [f"base {n}"], [c], [drv.ask([f"base {hexs(b)}", "mut 0 %d" % b[0]])[1]])
                if not accepted:
                    ck.notes.append(f"base file {n}: DEX(...) did not return normally ({c})")
        ck.cover(dist={"base_files": len(bases) + len(big), "base_sizes": sorted(len(b) for _, b in bases + big)})
        # 1. single-byte changes: every offset >= 8 x all 255 other values for the generated files and Test.dex
        #    (all small shipped files when deep/boosted), 8 values per offset for the rest, the 8 magic bytes of every
        #    base file (correspondence only), sampled offsets of the large shipped files
        wm = drv is not None
        tasks = []
        for n, b in gens:
            tasks.append((n, b, list(range(8, len(b))), "all", wm, "mut"))
        for n, b in small:
            tasks.append((n, b, list(range(8, len(b))), "all" if (n == "Test.dex" or deep or (boost and len(b) < 1000)) else "8", wm, "mut"))
        for n, b in bases:
            tasks.append((n, b, list(range(0, 8)), "all", wm, "mut-magic"))
        for n, b in big:
            if ck.quick and len(b) > 1_000_000:
                continue
            offs = sorted({8, 9, 11, 12, 31, 32, 36, 40, 43, 52, 64, 72, 111, 112, len(b) - 1, len(b) // 2}
                          | {ck.rng.randrange(12, len(b)) for _ in range(24 if ck.quick else 150)})
            tasks.append((n, b, offs, "3", wm, "mut"))
        run_sweeps(ck, pool, tasks)
        # 2. wrong fields, junk
        cases = []
        for n, b in [("basic112", BASIC)] + gens[:2] + [s for s in small if s[0] in ("Test.dex", "StringTests.dex")] + \
                (gens[2:10] + small if (deep or boost) else []):
            cases += field_cases(ck, n, b)
        cases += junk_cases(ck)
        obs = whole(ck, drv, cases)
        later = sum(1 for (lab, b), o in zip(cases, obs) if o[0] == "ok" and not o[1])
        ck.cover(dist={"header_accepted_later_stage_raised": later,
                       "header_accepted_and_parsed": sum(1 for o in obs if o[1])},
                 samples=_samples(cases, obs))
    finally:
        pool.close(); pool.join()
    ck.assumptions += [
        "HeaderItem is constructed at stream offset 0 (DEX._load on a fresh reader); self.offset = 0 in the model",
        "zlib.adler32 and struct's '<I' / '8sI20s20I' unpack are modelled (adler32 as the RFC 1950 fold, proved equal to the "
        "closed form; field reads as little-endian sums) and compared with the library on every run",
        "gen/header.py recognises the guards of HeaderItem.__init__ by shape; an unrecognised raising statement is a broken obligation",
    ]
    ck.notes.append("accepted without error, by design of the code and outside the statement's decisive fields: 'dey' for 'dex', "
                    "any three version bytes (warning), file_size different from the buffer (warning), SHA-1 signature not verified")


def _samples(cases, obs):
    """one sample per kind of oracle objection (and one accepted buffer)"""
    seen, out = set(), []
    for (lab, b), o in zip(cases, obs):
        d = defects(b) if len(b) <= 2048 else None
        if d is None:
            continue
        key = "+".join(d) or "none"
        if key not in seen and len(out) < 10:
            seen.add(key)
            out.append({"case": lab, "len": len(b), "head": hexs(b[:44]), "oracle_wrong": d, "DEX": o[0],
                        "returned_normally": o[1], "parsed_after_header": o[2]})
    return out


# ------------------------------------------------------------------ replay
def replay(ck: Check, rp):
    c = rp.get("case") or {}
    fd = rp.get("first_divergence")
    if fd:
        print("correspondence", fd.get("stream"), "request:", fd.get("request", "")[:400])
        print("  real :", fd.get("real")); print("  model:", fd.get("model"))
        return 0
    if rp.get("kind") == "broken-theorem":
        print("broken obligation:", rp.get("theorem")); print(json.dumps(rp.get("errors"), indent=1)[:3000])
        return 0
    if "hex" in c:
        buf = bytes.fromhex(c["hex"]) if c["hex"] != "-" else b""
    elif "file" in c:
        buf = open(os.path.join(REPO, "tests", "data", "APK", c["file"]), "rb").read()
    else:
        print("cannot rebuild the input of", c); return 2
    if c.get("kind") == "mut":
        print(f"base file {c['file']} ({len(buf)} bytes): oracle objections {defects(buf)}; byte {c['off']} "
              f"{buf[c['off']]:#04x} -> {c['val']:#04x}")
        b = bytearray(buf); b[c["off"]] = c["val"]; buf = bytes(b)
    with Spy() as spy:
        r = real_dex(buf, spy)
    print("input:", hexs(buf)[:240] + ("…" if len(buf) > 120 else ""), f"({len(buf)} bytes)")
    print("oracle: wrong fields =", defects(buf), "-> expected: rejected inside HeaderItem.__init__, nothing parsed")
    print("real DEX(...):", r[0], "| returned normally:", r[1], "| MapList constructed:", r[2], "| raised in header stage:", r[3])
    print("real HeaderItem:", real_header(buf)[:200])
    try:
        print("model:", Driver("drv_C09").ask([f"hdr {hexs(buf)}"])[0][:200])
    except ToolFailure as e:
        print("model: not available:", e)
    bad = (r[0] == "ok" or r[2]) and (bool(defects(buf)) or c.get("kind") == "mut")
    print("=> property", "VIOLATED" if bad else "holds", "on this input")
    return 1 if bad else 0
