"""C33 — APK Signing Block contents are reported as encoded (DESIGN.md section 6, C33).

Registered against the tree with fixes/C33-sigblock-sequences-v31.diff applied (defect D16).

P: gen/sigblock.py -> Gen/SigBlockConsts.lean; theorems of Props/C33.lean over Model/SigBlock.lean.
T: the real APK class (in-process) vs the compiled Lean model (drv_C33) on
     file    whole generated APKs (valid blocks, and byte/size-field mutations of them)
     value   one v2 / v3 value handed to parse_v2_signing_block / parse_v3_signing_block
     seq     parse_signatures_or_digests on generated and mutated byte strings
S: independent oracle = the generator's abstract description of the block (pairs, signers) against
   the public observations is_signed_v2/v3/v31, has_duplicate_apk_signature_ids,
   get_certificates_der_*, get_public_keys_der_* and the signer objects.
"""
import glob
import json
import os
import struct

from harness import sigblock as sb
from harness.fw import VERIF, Check, Driver, hexs
from harness.zipwriter import layout

# hand-modelled functions: a changed AST escalates the search (ck.pins_changed), it is not a verdict
PINS = [
    ("androguard/core/apk/__init__.py", "APK.read_uint32_le"),
    ("androguard/core/apk/__init__.py", "APK.parse_signatures_or_digests"),
    ("androguard/core/apk/__init__.py", "APK.parse_v2_v3_signature"),
    ("androguard/core/apk/__init__.py", "APK.parse_v2_signing_block"),
    ("androguard/core/apk/__init__.py", "APK.parse_v3_signing_block"),
    ("androguard/core/apk/__init__.py", "APK.is_signed_v2"),
    ("androguard/core/apk/__init__.py", "APK.is_signed_v3"),
    ("androguard/core/apk/__init__.py", "APK.is_signed_v31"),
    ("androguard/core/apk/__init__.py", "APK.has_duplicate_apk_signature_ids"),
    ("androguard/core/apk/__init__.py", "APK.get_certificates_der_v2"),
    ("androguard/core/apk/__init__.py", "APK.get_certificates_der_v3"),
    ("androguard/core/apk/__init__.py", "APK.get_certificates_der_v31"),
    ("androguard/core/apk/__init__.py", "APK.get_public_keys_der_v2"),
    ("androguard/core/apk/__init__.py", "APK.get_public_keys_der_v3"),
    ("androguard/core/apk/__init__.py", "APK.get_public_keys_der_v31"),
    ("androguard/core/apk/__init__.py", "APK.get_raw"),
    ("androguard/core/apk/__init__.py", "APKV2SignatureBlock"),
    ("androguard/core/apk/__init__.py", "APKV2Signer"),
    ("androguard/core/apk/__init__.py", "APKV3Signer"),
    ("androguard/core/apk/__init__.py", "APKV2SignedData"),
    ("androguard/core/apk/__init__.py", "APKV3SignedData"),
]

SCHEMES = (("v2", sb.ID_V2, False), ("v3", sb.ID_V3, True), ("v31", sb.ID_V31, True))


def _apk():
    from androguard.core import apk
    return apk


# ------------------------------------------------------------------ observing the real code
def err_name(e):
    apk = _apk()
    if isinstance(e, struct.error):
        return "struct"
    if isinstance(e, apk.BrokenAPKError):
        return "broken"
    if isinstance(e, OverflowError):
        return "overflow"
    return "other:" + type(e).__name__


def algseq(xs):
    return ",".join(f"{a}:{hexs(bytes(d))}" for a, d in xs)


def show_signer(s, v3):
    sd = s.signed_data
    m = f"{sd.minSDK},{sd.maxSDK}" if v3 else "-"
    M = f"{s.minSDK},{s.maxSDK}" if v3 else "-"
    return ("S[d=" + algseq(sd.digests) + "|c=" + ",".join(hexs(bytes(c)) for c in sd.certificates) +
            "|a=" + hexs(bytes(sd.additional_attributes)) + "|m=" + m + "|sd=" + hexs(bytes(sd._bytes)) +
            "|M=" + M + "|s=" + algseq(s.signatures) + "|k=" + hexs(bytes(s.public_key)) +
            "|b=" + hexs(bytes(s._bytes)) + "]")


def fresh(raw: bytes, stats=None):
    """a real APK object on these bytes. Files the zip reader (apkInspector) rejects still have a
    defined parse_v2_v3_signature; for those the object is set up as __init__ would have."""
    apk = _apk()
    try:
        return apk.APK(raw, raw=True, skip_analysis=True)
    except Exception:  # noqa
        if stats is not None:
            stats["zip_reader_rejected"] = stats.get("zip_reader_rejected", 0) + 1
        a = apk.APK.__new__(apk.APK)
        a._APK__raw = raw
        a.filename = "raw"
        a._is_signed_v2 = a._is_signed_v3 = a._is_signed_v31 = None
        a._v2_blocks = []
        a._v2_signing_data = a._v3_signing_data = a._v31_signing_data = None
        return a


def flag_char(v):
    return "N" if v is None else ("1" if v else "0")


def observe_scheme(a, name, v3):
    getter = getattr(a, f"get_certificates_der_{name}")
    try:
        certs = getter()
    except Exception as e:  # noqa
        return "err:" + err_name(e), None
    data = getattr(a, f"_{name}_signing_data")
    keys = getattr(a, f"get_public_keys_der_{name}")()
    # the public getters must be the projections of the signer objects
    if certs != [c for s in data for c in s.signed_data.certificates] or keys != [s.public_key for s in data]:
        return "other:getter-projection", None
    return "ok" + "".join(show_signer(s, v3) for s in data), data


def observe_file(raw: bytes, stats=None):
    a = fresh(raw, stats)
    try:
        a.is_signed_v2()
        err = "-"
    except Exception as e:  # noqa
        err = err_name(e)
    flags = flag_char(a._is_signed_v2) + flag_char(a._is_signed_v3) + flag_char(a._is_signed_v31)
    line = (f"flags={flags} err={err} dup={'1' if a.has_duplicate_apk_signature_ids() else '0'} blocks=" +
            ",".join(f"{b.id}:{'1' if b.is_duplicate_id else '0'}:{hexs(bytes(b.data))}" for b in a._v2_blocks))
    for name, _, v3 in SCHEMES:
        line += f" {name}=" + observe_scheme(a, name, v3)[0]
    return line


def observe_value(value: bytes, v3: bool):
    apk = _apk()
    a = fresh(TINY)
    key = sb.ID_V3 if v3 else sb.ID_V2
    a._v2_blocks = [apk.APKV2SignatureBlock(key, False, value)]
    a._is_signed_v2, a._is_signed_v3, a._is_signed_v31 = (not v3), v3, False
    return observe_scheme(a, "v3" if v3 else "v2", v3)[0]


def observe_seq(a, data: bytes):
    try:
        return "ok " + algseq(a.parse_signatures_or_digests(data))
    except Exception as e:  # noqa
        return "err:" + err_name(e)


TINY = layout([("a", b"x", False)])["bytes"]


# ------------------------------------------------------------------ generation
def gen_case(rng):
    """abstract description of one APK: zip entries, ordered id-value pairs, and for each scheme the
    signers of every pair carrying that id (in order)"""
    entries = [(rng.choice(["AndroidManifest.xml", "classes.dex", "res/a.png", "lib/x.so", "META-INF/X.SF"]) + str(i),
                sb.rand_bytes(rng, 0, 60), rng.random() < 0.5) for i in range(rng.randint(1, 3))]
    shape = rng.random()
    if shape < 0.06:
        return {"entries": entries, "pairs": None}
    present = [s for s in SCHEMES if rng.random() < 0.55]
    if shape < 0.25:
        present = [SCHEMES[2]] + [s for s in present if s[0] == "v2"]      # v3.1 without v3
    pairs = []
    for name, id_, v3 in present:
        nsign = rng.choice([1, 1, 2, 3, 0]) if rng.random() < 0.9 else 0
        signers = [sb.rand_signer(rng, v3) for _ in range(nsign)]
        pairs.append({"id": id_, "scheme": name, "signers": signers, "value": sb.encode_value(signers, v3)})
    for _ in range(rng.choice([0, 0, 1, 1, 2, 3])):
        id_ = rng.choice([sb.ID_PADDING, sb.ID_STAMP, rng.randrange(2 ** 32), 0, 0xFFFFFFFF])
        if id_ in (sb.ID_V2, sb.ID_V3, sb.ID_V31):
            continue
        pairs.append({"id": id_, "scheme": None, "signers": None, "value": sb.rand_bytes(rng, 0, 40)})
    if pairs and rng.random() < 0.35:
        # duplicate ids: a second, DIFFERENT pair with an id already present
        for _ in range(rng.choice([1, 1, 2])):
            p = rng.choice(pairs)
            if p["scheme"]:
                v3 = p["scheme"] != "v2"
                signers = [sb.rand_signer(rng, v3) for _ in range(rng.randint(1, 2))]
                pairs.append({"id": p["id"], "scheme": p["scheme"], "signers": signers,
                              "value": sb.encode_value(signers, v3)})
            else:
                pairs.append({"id": p["id"], "scheme": None, "signers": None, "value": sb.rand_bytes(rng, 0, 20)})
    rng.shuffle(pairs)
    return {"entries": entries, "pairs": pairs}


def build(case):
    blk = None if case["pairs"] is None else sb.encode_block([(p["id"], p["value"]) for p in case["pairs"]])
    return layout(case["entries"], blk)


def expectation(case):
    """what the property demands, from the abstract description only"""
    pairs = case["pairs"] or []
    ids = [p["id"] for p in pairs]
    exp = {"dup": len(ids) != len(set(ids)), "signers": {}}
    for name, id_, _ in SCHEMES:
        exp[name] = id_ in ids
        first = next((p for p in pairs if p["id"] == id_), None)
        exp["signers"][name] = [sb.signer_to_json(s) for s in first["signers"]] if first else []
    return exp


def judge(raw: bytes, exp):
    """run the real code on `raw`, compare with the expectation; returns list of (what, expected, observed)"""
    apk = _apk()
    bad = []
    try:
        a = apk.APK(raw, raw=True, skip_analysis=True)
    except Exception as e:  # noqa
        return [("a well-formed archive cannot be opened", "APK object", type(e).__name__)]
    for name, _, v3 in SCHEMES:
        try:
            got = bool(getattr(a, f"is_signed_{name}")())
        except Exception as e:  # noqa
            got = "raises " + type(e).__name__
        if got != exp[name]:
            bad.append((f"is_signed_{name} does not reflect the presence of a {name} block", exp[name], got))
    got = bool(a.has_duplicate_apk_signature_ids())
    if got != exp["dup"]:
        bad.append(("duplicate ids not flagged exactly", exp["dup"], got))
    for name, _, v3 in SCHEMES:
        want = [sb.signer_from_json(s) for s in exp["signers"][name]]
        try:
            certs = getattr(a, f"get_certificates_der_{name}")()
            keys = getattr(a, f"get_public_keys_der_{name}")()
        except Exception as e:  # noqa
            bad.append((f"{name} block is well formed but reading it raises", "signers", type(e).__name__))
            continue
        wc = [c for s in want for c in s["certs"]]
        if [bytes(c) for c in certs] != wc:
            bad.append((f"{name} certificates are not those of the first {name} block",
                        [c.hex() for c in wc], [bytes(c).hex() for c in certs]))
        wk = [s["pubkey"] for s in want]
        if [bytes(k) for k in keys] != wk:
            bad.append((f"{name} public keys are not those of the first {name} block",
                        [k.hex() for k in wk], [bytes(k).hex() for k in keys]))
        data = getattr(a, f"_{name}_signing_data")
        if len(data) != len(want):
            bad.append((f"{name}: number of signers", len(want), len(data)))
            continue
        for i, (s, w) in enumerate(zip(data, want)):
            sd = s.signed_data
            obs = {"digests": [(x, bytes(y)) for x, y in sd.digests], "attrs": bytes(sd.additional_attributes),
                   "sigs": [(x, bytes(y)) for x, y in s.signatures]}
            for k, label in (("digests", "digests"), ("sigs", "signatures"), ("attrs", "additional attributes")):
                if obs[k] != w[k]:
                    bad.append((f"{name} signer {i}: {label} differ from the encoded ones",
                                repr(w[k])[:300], repr(obs[k])[:300]))
            if v3:
                o4 = (sd.minSDK, sd.maxSDK, s.minSDK, s.maxSDK)
                w4 = (w["min_sdk"], w["max_sdk"], w["signer_min_sdk"], w["signer_max_sdk"])
                if o4 != w4:
                    bad.append((f"{name} signer {i}: SDK bounds", list(w4), list(o4)))
    return bad


def mutate(rng, lay):
    """malformed stream: perturb the signing block / EOCD of a valid file"""
    raw = bytearray(lay["bytes"])
    lo = lay["block_offset"] if lay["block_offset"] is not None else max(0, lay["central_offset"] - 8)
    hi = lay["central_offset"]
    kind = rng.randrange(10)
    if kind == 0 and hi > lo:                      # flip one byte inside the block
        i = rng.randrange(lo, hi)
        raw[i] ^= 1 << rng.randrange(8)
    elif kind == 1 and hi > lo:                    # overwrite a u32 with an extreme
        i = rng.randrange(lo, max(lo + 1, hi - 4))
        raw[i:i + 4] = struct.pack("<I", rng.choice([0, 1, 3, 4, 5, 0xFFFFFFFF, 0x7FFFFFFF, rng.randrange(64)]))
    elif kind == 2 and lay["block_offset"] is not None:   # pair size field: small / huge
        raw[lo + 8:lo + 16] = struct.pack("<Q", rng.choice([0, 1, 3, 4, 2 ** 63 + 3, 2 ** 63 + 4, 2 ** 64 - 1, 12, 2 ** 40]))
    elif kind == 3 and hi >= 24:                   # size_of_block at the end
        raw[hi - 24:hi - 16] = struct.pack("<Q", rng.choice([0, 8, 2 ** 63 - 8, 2 ** 63 - 7, 2 ** 64 - 1, hi, hi - 8, hi - 7,
                                                             rng.randrange(0, hi + 40)]))
    elif kind == 4:                                # EOCD offset of central directory
        e = lay["eocd_offset"]
        raw[e + 16:e + 20] = struct.pack("<I", rng.choice([0, 1, hi - 1, hi + 1, len(raw), len(raw) - 3, 2 ** 32 - 1, 20, 23, 24]))
    elif kind == 5 and hi > lo:                    # delete a byte of the block, keep the offsets (shifts the magic)
        i = rng.randrange(lo, hi)
        del raw[i]
    elif kind == 6:                                # truncate the file / append a comment-like tail
        if rng.random() < 0.5:
            del raw[rng.randrange(max(1, len(raw) - 40), len(raw)):]
        else:
            raw += sb.rand_bytes(rng, 1, 30)
    elif kind == 7 and hi > lo + 12:               # both size fields consistent but wrong
        v = struct.pack("<Q", rng.choice([24, 25, hi - lo, hi - lo - 9, 36]))
        raw[lo:lo + 8] = v
        raw[hi - 24:hi - 16] = v
    elif kind == 9:                                # archive comment holding a second EOCD signature
        fake = b"PK\x05\x06" + struct.pack("<HHHHII", 0, 0, 1, 1, rng.randrange(200),
                                            rng.choice([hi, lo, 0, rng.randrange(len(raw) + 30)])) + b"\x00\x00"
        tail = sb.rand_bytes(rng, 0, 6) + fake + (sb.rand_bytes(rng, 1, 5) if rng.random() < 0.3 else b"")
        e = lay["eocd_offset"]
        raw[e + 20:e + 22] = struct.pack("<H", len(tail))
        raw += tail
    else:                                          # a few random bytes anywhere in block..end
        for _ in range(rng.randint(1, 3)):
            i = rng.randrange(lo, len(raw))
            raw[i] = rng.randrange(256)
    return bytes(raw)


def case_to_json(case, raw, exp):
    return {"file": raw.hex(), "expect": exp,
            "pairs": [[p["id"], p["scheme"] or "other", len(p["value"])] for p in (case["pairs"] or [])]}


# ------------------------------------------------------------------ the check
def run_corpus(ck: Check):
    n = 0
    for path in sorted(glob.glob(os.path.join(VERIF, "corpus", "C33", "*.json"))):
        c = json.load(open(path))
        raw = bytes.fromhex(c["file"])
        for what, e, o in judge(raw, c["expect"]):
            ck.fail({"file": c["file"], "expect": c["expect"], "corpus": os.path.basename(path)}, what, None, e, o)
        n += 1
    return n


def run(ck: Check):
    import logging
    logging.disable(logging.WARNING)          # apkInspector warns through the root logger on malformed zips
    rng = ck.rng
    ck.pins_changed(PINS)
    big = not ck.quick
    esc = ck.quick and ck.escalated             # a modelled function changed: 4x sizes in the quick tier (not a verdict)
    ck.run_gen("sigblock")
    ck.prove(exes=["drv_C33"])
    drv = Driver("drv_C33")
    ck.rule = ("files: generated zips (1-3 entries) with an APK Signing Block built by harness/sigblock.py from an abstract "
               "description (0-3 of v2/v3/v3.1 each with 0-3 signers, 0-3 digests/signatures/certificates, SDK bounds, "
               "attributes; 0-3 unknown pairs; duplicate ids; shuffled order; 19% v3.1 without v3; 6% no block); "
               "distinct = distinct file bytes; non-trivial = file with a signing block")
    ncorpus = run_corpus(ck)
    nvalid = 20000 if big else 6000 if esc else 1500
    stats = {}
    dist = {"no_block": 0, "with_v2": 0, "with_v3": 0, "with_v31": 0, "v31_without_v3": 0, "duplicate_ids": 0,
            "unknown_pairs": 0, "signers_total": 0, "multi_digest_lists": 0, "corpus_witnesses": ncorpus}
    reqs, real, samples, distinct = [], [], [], []
    lays = []
    for i in range(nvalid):
        case = gen_case(rng)
        lay = build(case)
        raw = lay["bytes"]
        exp = expectation(case)
        lays.append(lay)
        pairs = case["pairs"]
        if pairs is None:
            dist["no_block"] += 1
        else:
            distinct.append(raw)
            ids = [p["id"] for p in pairs]
            dist["with_v2"] += sb.ID_V2 in ids
            dist["with_v3"] += sb.ID_V3 in ids
            dist["with_v31"] += sb.ID_V31 in ids
            dist["v31_without_v3"] += sb.ID_V31 in ids and sb.ID_V3 not in ids
            dist["duplicate_ids"] += exp["dup"]
            dist["unknown_pairs"] += sum(1 for p in pairs if p["scheme"] is None)
            for p in pairs:
                for s in p["signers"] or []:
                    dist["signers_total"] += 1
                    dist["multi_digest_lists"] += (len(s["digests"]) > 1) + (len(s["sigs"]) > 1)
        # S: oracle on the real code
        for what, e, o in judge(raw, exp):
            ck.fail(case_to_json(case, raw, exp), what, None, e, o)
        # T: same file through the model
        reqs.append("file " + hexs(raw))
        real.append(observe_file(raw, stats))
        if i in (3, 700):
            samples.append({"pairs": [[hex(p["id"]), p["scheme"], len(p["value"])] for p in (pairs or [])],
                            "file_bytes": len(raw), "observed": real[-1][:160]})
    ck.cover(evaluations=nvalid, distinct=(("f", hash(r)) for r in distinct), samples=samples, dist=dist)
    model = drv.ask(reqs)
    ck.compare("file-valid", reqs, real, model)

    # malformed files: correspondence only (the property says nothing about them)
    nmal = 30000 if big else 10000 if esc else 2500
    reqs, real = [], []
    errs = {}
    for i in range(nmal):
        raw = mutate(rng, lays[rng.randrange(len(lays))])
        reqs.append("file " + hexs(raw))
        line = observe_file(raw, stats)
        k = line.split(" ")[1] + "/" + line.split(" ")[0]
        errs[k] = errs.get(k, 0) + 1
        real.append(line)
    model = drv.ask(reqs)
    ck.compare("file-mutated", reqs, real, model)
    ck.cover(dist={"mutated_files": nmal, "mutated_outcomes": dict(sorted(errs.items())), **stats})

    # values and sequences handed to the inner parsers directly
    nval = 20000 if big else 6000 if esc else 1500
    reqs, real = [], []
    a = fresh(TINY)
    outcomes = {}
    for i in range(nval):
        v3 = rng.random() < 0.5
        signers = [sb.rand_signer(rng, v3) for _ in range(rng.choice([0, 1, 1, 2, 3]))]
        val = bytearray(sb.encode_value(signers, v3))
        r = rng.random()
        if r < 0.6 and val:
            for _ in range(rng.randint(1, 2)):
                j = rng.randrange(len(val))
                if rng.random() < 0.5:
                    val[j] = rng.choice([0, 1, 4, 8, 0xFF, rng.randrange(256)])
                else:
                    del val[j]
                    if rng.random() < 0.7:       # keep the outer length consistent so the inner parser runs
                        val[0:4] = struct.pack("<I", max(0, len(val) - 4))
                if not val:
                    break
        elif r < 0.7:
            del val[rng.randrange(len(val) + 1):]
        val = bytes(val)
        reqs.append(("value3 " if v3 else "value2 ") + hexs(val))
        o = observe_value(val, v3)
        outcomes[o.split("S[")[0][:12]] = outcomes.get(o.split("S[")[0][:12], 0) + 1
        real.append(o)
        seq = bytearray(sb.encode_alg_seq(sb.rand_alg_seq(rng, 0, 4)))
        if seq and rng.random() < 0.6:
            j = rng.randrange(len(seq))
            if rng.random() < 0.5:
                seq[j] = rng.choice([0, 3, 7, 8, 0xFF, rng.randrange(256)])
            else:
                del seq[j:j + rng.randint(1, 3)]
        reqs.append("seq " + hexs(bytes(seq)))
        real.append(observe_seq(a, bytes(seq)))
    model = drv.ask(reqs)
    ck.compare("value-seq", reqs, real, model)
    ck.cover(dist={"inner_values": nval, "inner_value_outcomes": outcomes})
    ck.assumptions += [
        "struct.unpack('<I'/'<Q'/'<QI'/'<HHHHII') on exact-size input is the little-endian number; short input is struct.error",
        "io.BytesIO: read past EOF returns fewer bytes, read(negative) reads to EOF, seek clamps at 0, arguments outside ssize_t raise OverflowError (each exercised by the mutated-file correspondence)",
        "zip reading (apkInspector) is outside the model: the signing block is located from the raw bytes only",
        "registered against the tree with fixes/C33-sigblock-sequences-v31.diff applied",
    ]


def replay(ck: Check, rp):
    c = rp.get("case") or {}
    if "file" in c:
        raw = bytes.fromhex(c["file"])
        print("file of", len(raw), "bytes; pairs:", c.get("pairs"))
        print("observed:", observe_file(raw)[:2000])
        bad = judge(raw, c["expect"])
        for what, e, o in bad:
            print("FAIL:", what, "\n  expected:", e, "\n  observed:", o)
        if not bad:
            print("holds on this tree")
        return 1 if bad else 0
    fd = rp.get("first_divergence")
    if fd:
        rq = fd["request"]
        print("request:", rq[:200], "…")
        kind, h = rq.split(" ")
        data = bytes.fromhex(h) if h != "-" else b""
        now = (observe_file(data) if kind == "file" else
               observe_seq(fresh(TINY), data) if kind == "seq" else observe_value(data, kind == "value3"))
        print("real now :", now[:1500])
        print("real then:", fd.get("real", "")[:1500])
        print("model    :", fd.get("model", "")[:1500])
    else:
        print(json.dumps(rp, indent=1)[:3000])
    return 0
