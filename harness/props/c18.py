"""C18 — the decompiler's dominator tree (DESIGN.md section 6, C18).
T: real dom_lt (through Graph.immediate_dominators) on real Graph + Node objects vs the Lean model AgVerif.DomLT:
   the returned dict AND the DFS numbering (observed as the order in which dom_lt asks the graph for successors).
   The driver also runs the kernel-verified certificate checker `checkDomTree` on the model's answer: every
   correspondence case is certified (theorem domLT_certified), an uncertified answer counts as a broken obligation.
S: oracle = dominance by its definition in plain Python: d dominates v iff v is unreachable once d is removed."""
import json
import os

from harness import graphgen
from harness.fw import VERIF, Check, Driver
from harness import graphhist
from harness.graphsweep import HISTORY_NOTE, NPROC, history_tasks, large_tasks, short_diff, sweep

CMD = "dom"
CMD_LARGE = "domq"          # same model without the O(n^3) certificate check (graphs with thousands of nodes)
EXE = "drv_C18"
MODULE = "harness.props.c18"
# hand-modelled functions: a changed AST is not a verdict, it escalates the search (ck.pins_changed)
PINS = [("androguard/decompiler/graph.py", "dom_lt"), ("androguard/decompiler/graph.py", "Graph.all_sucs"),
        ("androguard/decompiler/graph.py", "Graph.immediate_dominators")]


# ---------------------------------------------------------------- real code
def real_dom(G):
    """returns (reply, dom list) with dom[i] = '-' (no key) | 'N' (None) | index"""
    try:
        g, nodes = graphgen.build_real(G)
        idx = {x: i for i, x in enumerate(nodes)}
        calls = []
        orig = g.all_sucs

        def recording_all_sucs(node):          # dom_lt calls graph.all_sucs(v) exactly once per vertex, in DFS preorder
            calls.append(idx[node])
            return orig(node)

        g.all_sucs = recording_all_sucs
        d = g.immediate_dominators()
        dom = []
        for x in nodes:
            if x not in d:
                dom.append("-")
            elif d[x] is None:
                dom.append("N")
            else:
                dom.append(str(idx[d[x]]))
        extra = [k for k in d if k not in idx]
        if extra:
            return "other:extra-keys", None
    except RecursionError:
        return "recursion", None
    except KeyError:
        return "err", None
    except Exception as e:  # noqa
        return "other:" + type(e).__name__, None
    return "ok %s|%s" % (",".join(dom), ",".join(map(str, calls))), dom


def canon_model(reply: str) -> str:
    # fields 3.. of the model's reply (dfnum, parent, cert) are internal to the model
    return "|".join(reply.split("|")[:2])


def certified(reply: str):
    if not reply.startswith("ok ") or "|cert=" not in reply:
        return None                      # `domq` replies (large graphs) carry no certificate verdict
    return reply.endswith("|cert=1")


# ---------------------------------------------------------------- independent oracle
def idom_by_definition(G):
    """{v: immediate dominator} for every reachable v != entry, straight from the definition"""
    n, entry = G[0], G[1]
    reach = graphgen.reachable(G)
    without = {d: graphgen.reachable(G, avoid=d) for d in reach}
    res = {}
    for v in reach:
        if v == entry:
            continue
        sdom = [d for d in reach if d != v and v not in without[d]]
        cands = [d for d in sdom if all(d2 == d or d not in without[d2] for d2 in sdom)]
        res[v] = cands
    return reach, res


def idom_by_dataflow(G):
    """for graphs with thousands of nodes: the dominator SETS as the maximal solution of
    Dom(entry) = {entry}, Dom(v) = {v} ∪ ⋂_{p → v} Dom(p)  (bit vectors = Python integers), then the immediate
    dominator of v = the strict dominator whose own set is the largest (the dominators of v form a chain).
    Independent of Lengauer-Tarjan and of the Lean model.  Rooted graphs only."""
    n, entry = G[0], G[1]
    preds = [[] for _ in range(n)]
    for u in range(n):
        for v in graphgen.all_sucs(G, u):
            preds[v].append(u)
    # any fair order works; a DFS preorder converges quickly
    order, seen, todo = [], {entry}, [entry]
    while todo:
        u = todo.pop()
        order.append(u)
        for v in graphgen.all_sucs(G, u):
            if v not in seen:
                seen.add(v)
                todo.append(v)
    full = (1 << n) - 1
    dom = [full] * n
    dom[entry] = 1 << entry
    changed = True
    while changed:
        changed = False
        for v in order:
            if v == entry:
                continue
            new = full
            for p in preds[v]:
                new &= dom[p]
            new |= 1 << v
            if new != dom[v]:
                dom[v] = new
                changed = True
    size = [d.bit_count() for d in dom]
    res = {}
    for v in order:
        if v == entry:
            continue
        x = dom[v] & ~(1 << v)
        want, found = size[v] - 1, []
        while x:
            low = x & -x
            d = low.bit_length() - 1
            x ^= low
            if size[d] == want:
                found.append(d)
        res[v] = found
    return set(order), res


def oracle(G, reply, dom, desc=None, case=None):
    n, entry = G[0], G[1]
    case = case or ({"large": desc} if desc else {"graph": graphgen.encode(G)})
    if not graphgen.is_rooted(G):
        return []
    if dom is None:
        return [dict(case=case, what="dom_lt raises on a rooted graph", key=None, expected="ok", observed=reply)]
    out = []
    if dom[entry] != "N":
        out.append(dict(case=case, what="the entry has an immediate dominator", key=None, expected="None", observed=dom[entry]))
    reach, res = idom_by_definition(G) if n <= 400 else idom_by_dataflow(G)
    if n > 400:
        # spot check of the dataflow oracle against the definition: removing idom(v) must disconnect v
        import random
        rng = random.Random("spot/%s" % (desc,))
        for v in rng.sample([x for x in range(n) if x != entry], 12):
            if len(res[v]) == 1 and v in graphgen.reachable(G, avoid=res[v][0]):
                raise AssertionError("oracle: dataflow idom of %d does not dominate it (%r)" % (v, case))
    for v in range(n):
        if v == entry:
            continue
        exp = res[v]
        if len(exp) != 1:
            raise AssertionError("oracle: immediate dominator not unique for %r node %d: %r" % (case, v, exp))
        if dom[v] != str(exp[0]):
            out.append(dict(case=dict(case, node=v), what="the computed immediate dominator is not the one the definition gives",
                            key=None, expected=exp[0], observed=dom[v]))
    return out[:3]


def evaluate(G, desc=None):
    reply, dom = real_dom(G)
    fails = oracle(G, reply, dom, desc)
    f = graphgen.features(G)
    tags = [k for k in ("rooted", "self_loop", "catch", "dup_suc") if f[k]]
    tags.append("n<=5" if f["n"] <= 5 else "n<=40" if f["n"] <= 40 else "n<=100" if f["n"] <= 100 else "n>100")
    if f["rooted"] and f["n"] >= 3:
        tags.append("nontrivial")
        if dom is not None:
            edge = {(u, v) for u in range(G[0]) for v in graphgen.all_sucs(G, u)}
            if any(dom[v] not in ("N", "-") and (int(dom[v]), v) not in edge for v in range(G[0])):
                tags.append("idom_not_a_pred")
    return reply, fails, tags


# ---------------------------------------------------------------- histories on one Graph object
def canon_model_hist(reply: str) -> str:
    # in a history only the returned dict is compared: a memoised answer legitimately does not re-run the DFS
    return reply.split("|")[0]


def hist_query(g, kind, case):
    if kind != "idom":
        return None
    try:
        d = g.immediate_dominators()
        G, idx, dangling = graphhist.read_off(g)
        extra = sorted(getattr(k, "name", "?") for k in d if k not in idx)
        dom = ["-" if x not in d else "N" if d[x] is None else str(idx[d[x]]) if d[x] in idx else "gone:" + d[x].name
               for x in g.nodes]
        reply = "ok " + ",".join(dom)
        if extra:
            reply += " +keys-of-removed-nodes:" + ",".join(extra)
        if dangling:
            reply += " +dangling-edges:" + ",".join(dangling)
    except RecursionError:
        G, idx, _ = graphhist.read_off(g)
        reply, dom = "recursion", None
    except KeyError:
        G, idx, _ = graphhist.read_off(g)
        reply, dom = "err", None
    fails = []
    if graphgen.is_rooted(G):
        if dom is not None and reply != "ok " + ",".join(dom):
            fails.append(dict(case=case, what="the returned dict mentions nodes that are no longer in the graph", key=None,
                              expected="keys = current nodes", observed=reply[-200:]))
        else:
            fails = oracle(G, reply, dom, case=case)
    return {"request": CMD + " " + graphgen.encode(G), "real": reply, "fails": fails,
            "tags": ["history_rooted_query"] if graphgen.is_rooted(G) else ["history_unrooted_query"]}


# ---------------------------------------------------------------- corpus / tasks
def corpus_graphs():
    d = os.path.join(VERIF, "corpus", "C18")
    out = []
    if os.path.isdir(d):
        for fn in sorted(os.listdir(d)):
            if fn.endswith(".json"):
                for item in json.load(open(os.path.join(d, fn))):
                    out.append((item.get("name", fn), graphgen.decode(item["graph"])))
    return out


def exhaustive_tasks(max_n, chunks_last):
    tasks = []
    for n in range(1, max_n + 1):
        total = 1 << (n * n)
        k = chunks_last if n == max_n else 1
        if n == max_n - 1 and total >= 1 << 16:
            k = 8
        step = (total + k - 1) // k
        for lo in range(0, total, step):
            tasks.append({"kind": "exh", "n": n, "lo": lo, "hi": min(total, lo + step), "module": MODULE})
    return tasks


def run(ck: Check):
    import time
    ck.pins_changed(PINS)
    esc = getattr(ck, "escalated", False)
    t0 = time.time()
    ck.prove(exes=[EXE])
    t_prove = time.time() - t0
    Driver(EXE)
    ck.rule = ("graphs = real Graph objects with real Node objects (stub subclass), edges added with add_edge/add_catch_edge; "
               "exhaustive: every digraph (self loops included) on 1..4 labelled nodes with entry 0 (thorough: 1..5, 2^25 graphs); "
               "random: six families (G(n,p), rooted+extra edges, structured reducible, irreducible, ladder, Tarjan-like chains) "
               "up to 300 nodes with catch edges, duplicate successors, unreachable nodes. "
               "distinct = distinct graph; non-trivial = rooted with at least 3 nodes (only rooted graphs are judged by the oracle)")
    tasks = [{"kind": "list", "graphs": corpus_graphs(), "module": MODULE}]
    tasks += exhaustive_tasks(4 if ck.quick else 5, 16 if ck.quick else 256)
    if ck.quick and esc:
        # a modelled function changed: every 64th five-node digraph on top of the quick scope
        tasks += [{"kind": "exh", "n": 5, "lo": lo, "hi": lo + (1 << 14), "module": MODULE} for lo in range(0, 1 << 25, 1 << 20)]
    ltasks, limit = large_tasks(MODULE, esc or not ck.quick)
    nhist = 480 if ck.quick and not esc else 2000 if ck.quick else 4000
    tasks = ltasks + history_tasks(MODULE, "C18/%d" % ck.seed, nhist) + tasks
    ck.notes.append(HISTORY_NOTE + "; %d histories" % nhist)
    nrand = 960 if ck.quick and not esc else 4000 if ck.quick else 16000
    per = nrand // 32
    tasks += [{"kind": "random", "seed": "C18/%d/%d" % (ck.seed, i), "count": per, "max_n": 300, "module": MODULE}
              for i in range(32)]
    t0 = time.time()
    tags, total = sweep(ck, "dom", tasks, NPROC)
    ck.notes.append("wall: proof leg (lake build under the shared lock + axiom audit) %.1fs, correspondence+search sweep on %d processes %.1fs"
                    % (t_prove, NPROC, time.time() - t0))
    ck.rule += ("; large-size stream (always): %d named graphs (family, n, seed) of six families with edges into the entry, sizes around "
                "half the recursion limit androguard sets (%d), 3000 and limit+100, compared with the model without the O(n^3) "
                "certificate (domlt_correct covers it) and judged by an independent bit-vector dataflow oracle spot-checked against the "
                "definition; DFS depths exercised are listed in input_distribution.large_graphs (graphs whose DFS depth exceeds "
                "limit-400 are skipped: the recursive code raises RecursionError there)" % (len(ltasks), limit))
    ck.cover(dist=dict({k: v for k, v in sorted(tags.items())}, recursion_limit_set_by_androguard=limit,
                       large_graphs=sorted(total["large_info"]),
                       model_answers_certified_by_checkDomTree=total["certified"], model_answers_uncertified=total["uncertified"]))
    ck.notes.append("domlt_correct (Lengauer-Tarjan correctness of the model for all well-formed graphs: total, returns the dominator tree) "
                    "is proved in Lean; the per-case run of the verified checker on the model's answer is kept as a redundant cross-check "
                    "(domLT_always_certified proves it can never reject)")
    ck.assumptions.append("Python dict/set are modelled as functions / insertion-ordered duplicate-free lists; the driver enumerates "
                          "pred[w] and bucket[pw] in insertion order (CPython: hash order) - domlt_order_independent proves the returned dict "
                          "is the same for every enumeration order, so this is not an assumption about the algorithm, only about the driver")
    ck.notes.append("unrooted graphs are compared model-vs-code and certified, but not judged by the oracle: the property speaks of rooted graphs")


def replay_history(c):
    if "history" in c:
        seed, index = c["history"]["seed"], int(c["history"]["index"])
    else:
        kv = dict(t.split("=") for t in c["request"].split(" ")[2:5])
        seed, index = kv["seed"], int(kv["index"])
    fam, G0, ops = graphhist.generate(seed, index)
    print("start graph:", fam, graphgen.encode(G0)[:300])
    import sys
    rc = 0
    for rec in graphhist.run(sys.modules[__name__], seed, index):
        model = canon_model_hist(Driver(EXE).ask([rec["request"]])[0])
        print("query %d after [%s]" % (rec["query"], "; ".join(graphhist.show_ops(ops[:rec["query"] + 1]))))
        print("   current graph:", rec["request"][:200])
        print("   real :", rec["real"][:200]); print("   model:", model[:200])
        for f in rec["fails"]:
            print("   oracle:", f["what"], "node", f["case"].get("node"), "expected", f["expected"], "observed", f["observed"])
            rc = 1
    return rc


def replay(ck: Check, rp):
    c = rp.get("case") or rp.get("first_divergence", {})
    print("replay", json.dumps(c))
    if "history" in c or " history seed=" in c.get("request", ""):
        return replay_history(c)
    desc = c.get("large")
    rq = c.get("request", "")
    if not desc and " large family=" in rq:
        kv = dict(t.split("=") for t in rq.split(" ")[2:])
        desc = {"family": kv["family"], "n": int(kv["n"]), "seed": kv["seed"]}
    gs = None if desc else (c.get("graph") or " ".join(rq.split(" ")[1:]))
    if desc or gs:
        G = graphgen.large_graph(desc["family"], int(desc["n"]), desc["seed"]) if desc else graphgen.decode(gs)
        reply, dom = real_dom(G)
        model = canon_model(Driver(EXE).ask([(CMD_LARGE if desc else CMD) + " " + graphgen.encode(G)])[0])
        a, b = short_diff(reply, model)
        print("real :", a if reply != model else a[:200])
        print("model:", b if reply != model else "(identical)")
        if graphgen.is_rooted(G) and G[0] <= 60:
            print("by definition:", {v: d for v, d in sorted(idom_by_definition(G)[1].items())})
        for f in oracle(G, reply, dom, desc):
            print("oracle:", f["what"], "node", f["case"].get("node"), "expected", f["expected"], "observed", f["observed"])
            return 1
    return 0
