"""C30 — locale qualifiers round-trip through the configuration encoding (DESIGN.md §6 C30).

P: gen/locale.py -> Gen/LocaleConsts.lean; Props/C30.lean (+ drv_C30).
T: real ARSCResTableConfig._unpack_language_or_region / _pack_language_or_region /
   set_language_and_region (through the keyword constructor) / get_language_and_region (through the
   file parser and through the keyword constructor) vs the Lean model AgVerif.Locale.
S: oracle = AOSP ResTable_config packing written on a 16-bit field view (shares nothing with the
   model): for every language and every region of the property's domain, the configuration built
   from the AOSP-encoded word reports the string, and the string encodes to the word.
   A second S/T stream ('history') drives ONE configuration object - parsed from a binary ResTable_config or
   keyword-constructed - through a seeded sequence of set_language_and_region / direct `.locale` writes /
   queries: after every step the reported string must be the one most recently encoded and must re-encode
   to the current word (the model is a pure function of the word, hence history-independent).
   A third stream ('siblings') parses small resources.arsc files (harness/arscwriter.py) whose packages have
   several type chunks with equal and with different ResTable_configs, re-targets the configuration of some
   chunks with the public setter / `.locale` writes and queries ALL chunks: an untouched chunk must keep
   reporting the locale its own bytes encode, a touched one its most recent value.
The model and theorems describe the code with fixes/C30-pack-three-letter-locale.diff applied."""
import io
import itertools
import json
import os
import struct

from harness.fw import VERIF, Check, Driver

PINS = [
    ("androguard/core/axml/__init__.py", "ARSCResTableConfig.__init__"),
    ("androguard/core/axml/__init__.py", "ARSCResTableConfig._unpack_language_or_region"),
    ("androguard/core/axml/__init__.py", "ARSCResTableConfig._pack_language_or_region"),
    ("androguard/core/axml/__init__.py", "ARSCResTableConfig.set_language_and_region"),
    ("androguard/core/axml/__init__.py", "ARSCResTableConfig.get_language_and_region"),
    ("androguard/core/axml/__init__.py", "ARSCResTableConfig.get_qualifier"),
    ("androguard/core/axml/__init__.py", "ARSCResTableConfig.get_config_name_friendly"),
    ("androguard/core/axml/__init__.py", "ARSCResType.__init__"),
    ("androguard/core/axml/__init__.py", "ARSCParser.__init__"),
    ("androguard/core/axml/__init__.py", "PackageContext.__init__"),
]

LOWER = [chr(c) for c in range(97, 123)]
UPDIG = [chr(c) for c in range(65, 91)] + [chr(c) for c in range(48, 58)]


def _axml():
    from androguard.core import axml
    return axml


# ----------------------------------------------------------------- canonical forms
def enc(s: str) -> str:
    return ",".join(str(ord(c)) for c in s) if s else "."


def dec(t: str) -> str:
    return "" if t == "." else "".join(chr(int(x)) for x in t.split(","))


def canon(f):
    try:
        return f()
    except Exception as e:  # noqa
        return "other:" + type(e).__name__


class Real:
    def __init__(self):
        self.axml = _axml()
        self.cfg = self.axml.ARSCResTableConfig(None)

    def unpack(self, c0, c1, base):
        return canon(lambda: enc(self.cfg._unpack_language_or_region([c0, c1], base)))

    def pack(self, s, base):
        def f():
            try:
                r = self.cfg._pack_language_or_region(s, base)
            except TypeError:
                # the unfixed code has no base parameter
                r = self.cfg._pack_language_or_region(s)
            return f"{r[0]} {r[1]}"
        return canon(f)

    def set(self, s):
        return canon(lambda: str(self.axml.ARSCResTableConfig(None, locale=s).locale))

    def from_file(self, word):
        """a ResTable_config of size 16 as it stands in a resources.arsc"""
        return self.axml.ARSCResTableConfig(io.BytesIO(struct.pack("<IIII", 16, 0, word, 0)))

    def get_file(self, word):
        return canon(lambda: enc(self.from_file(word).get_language_and_region()))

    def get_kw(self, word):
        return canon(lambda: enc(self.axml.ARSCResTableConfig(None, locale=word).get_language_and_region()))


# ----------------------------------------------------------------- independent oracle (AOSP)
def aosp_pack(code: str, base: int):
    """ResTable_config::packLanguageOrRegion seen as one big-endian 16-bit field:
    1 ttttt sssss fffff.  Domain: two characters, or three characters in base..base+31."""
    if code == "":
        return (0, 0)
    if len(code) == 2:
        return (ord(code[0]), ord(code[1]))
    f, s, t = (ord(ch) - base for ch in code)
    assert all(0 <= v < 32 for v in (f, s, t))
    bits = (1 << 15) + (t << 10) + (s << 5) + f
    return divmod(bits, 256)


def aosp_word(lang: str, region: str) -> int:
    l0, l1 = aosp_pack(lang, ord("a"))
    r0, r1 = aosp_pack(region, ord("0"))
    return int.from_bytes(bytes([l0, l1, r0, r1]), "little")


def dir_name(lang: str, region: str) -> str:
    return lang + "-r" + region if region else lang


def oracle_case(ck: Check, real: Real, lang: str, region: str):
    """the three demands of the property for one (language, region)"""
    word = aosp_word(lang, region)
    text = dir_name(lang, region)
    case = {"lang": enc(lang), "region": enc(region)}
    try:
        got = real.from_file(word).get_language_and_region()
    except Exception as e:  # noqa
        got = "exception " + type(e).__name__
    if got != text:
        ck.fail(case, "configuration read from a file reports a different language/region string",
                None, text, got)
        return False
    try:
        c2 = real.axml.ARSCResTableConfig(None, locale=text)
        w2, back = c2.locale, c2.get_language_and_region()
    except Exception as e:  # noqa
        w2, back = "exception " + type(e).__name__, None
    if w2 != word:
        ck.fail(case, "encoding the reported string does not give the same configuration",
                None, f"locale=0x{word:08x}", w2 if not isinstance(w2, int) else f"locale=0x{w2:08x}")
        return False
    if back != text:
        ck.fail(case, "string -> configuration -> string changes the locale", None, text, back)
        return False
    return True


def packed_codes(base):
    rng32 = range(32)
    return ["".join(chr(base + v) for v in t) for t in itertools.product(rng32, repeat=3)]


def domain():
    langs2 = [a + b for a in LOWER for b in LOWER]
    langs3 = packed_codes(97)                 # includes all 26^3 lowercase codes
    regs2 = [a + b for a in UPDIG for b in UPDIG]
    regs3 = packed_codes(48)                  # includes all 10^3 UN M.49 codes and 'A'..'O' triples
    return langs2, langs3, regs2, regs3



# ----------------------------------------------------------------- histories on one object
CFG_SIZES = (16, 28, 32, 36, 48, 52, 64)


def config_blob(size: int, word: int) -> bytes:
    """a binary ResTable_config of `size` bytes whose only non-zero field is the locale word"""
    return struct.pack("<III", size, 0, word) + b"\0" * (size - 12)


def make_origin(real: Real, origin):
    kind = origin[0]
    if kind == "parsed":
        return real.axml.ARSCResTableConfig(io.BytesIO(config_blob(origin[1], origin[2])))
    if kind == "kw-str":
        return real.axml.ARSCResTableConfig(None, locale=dec(origin[1]))
    if kind == "kw-int":
        return real.axml.ARSCResTableConfig(None, locale=origin[1])
    return real.axml.ARSCResTableConfig(None)


def text_of_word(word, table):
    return "\x00\x00" if word == 0 else table[word]


def run_history(real: Real, origin, ops, table, trace=None):
    """Executes the history on one real object.  Oracle: `word` is the word most recently encoded (by the
    origin, a set or a write), `table[word]` the string that encodes to it.  Returns None or
    (step index, what, expected, observed).  `trace` collects (request for the model, real reply) pairs."""
    try:
        cfg = make_origin(real, origin)
    except Exception as e:  # noqa
        return (-1, "constructing the configuration raises", "an object", type(e).__name__)
    word = origin[2] if origin[0] == "parsed" else origin[1] if origin[0] == "kw-int" else 0
    if origin[0] == "kw-str":
        word = aosp_word(*split_text(dec(origin[1])))
    for i, op in enumerate(ops):
        try:
            if op[0] == "set":
                text = dec(op[1])
                cfg.set_language_and_region(text)
                word = aosp_word(*split_text(text))
                if trace is not None:
                    trace.append((f"set {op[1]}", str(cfg.locale)))
                if cfg.locale != word:
                    return (i, "set_language_and_region stores a different word", f"0x{word:08x}", f"0x{cfg.locale:08x}")
            elif op[0] == "write":
                cfg.locale = word = op[1]
            else:
                want = text_of_word(word, table)
                if op[0] == "get":
                    got = cfg.get_language_and_region()
                    if trace is not None:
                        trace.append((f"get {cfg.locale}", enc(got)))
                else:
                    got = cfg.get_qualifier() if op[0] == "qual" else cfg.get_config_name_friendly()
                    want = "" if word == 0 else want
                if got != want:
                    return (i, f"{op[0]}: the reported locale is not the one most recently encoded", want, got)
                if op[0] == "get":
                    again = real.axml.ARSCResTableConfig(None, locale=got).locale
                    if again != cfg.locale or cfg.locale != word:
                        return (i, "re-encoding the reported string does not give the current word",
                                f"0x{word:08x}", f"re-encoded 0x{again:08x}, .locale 0x{cfg.locale:08x}")
        except Exception as e:  # noqa
            return (i, f"{op[0]} raises", "no exception", type(e).__name__)
    return None


def split_text(text: str):
    if text == "\x00\x00":
        return ("", "")
    l, _, r = text.partition("-r")
    return (l, r)


def shrink_history(real, origin, ops, table):
    bad = run_history(real, origin, ops, table)
    ops = ops[: bad[0] + 1] if bad and bad[0] >= 0 else ops
    i = 0
    while i < len(ops) - 1:
        cand = ops[:i] + ops[i + 1:]
        if run_history(real, origin, cand, table):
            ops = cand
        else:
            i += 1
    return ops


def history_stream(ck: Check, real: Real, drv, pairs):
    rng = ck.rng
    deep = (not ck.quick) or getattr(ck, "escalated", False)
    n = 60000 if deep else 4000
    pool = [pairs[rng.randrange(len(pairs))] for _ in range(400)] + [("fil", ""), ("fil", "PH"), ("es", "419"), ("en", "US"), ("fr", "FR"), ("en", "")]
    table = {aosp_word(l, r): dir_name(l, r) for l, r in pool}
    words = sorted(table) + [0, 0]
    texts = [enc(t) for t in table.values()] + [enc("\x00\x00")]
    dist = {"hist_parsed": 0, "hist_kw": 0, "hist_ops": 0, "hist_mutations": 0, "hist_queries": 0}
    trace, nbad, distinct = [], 0, set()
    for _ in range(n):
        k = rng.random()
        if k < 0.55:
            origin = ["parsed", rng.choice(CFG_SIZES), rng.choice(words)]
        elif k < 0.75:
            origin = ["kw-str", rng.choice(texts)]
        elif k < 0.9:
            origin = ["kw-int", rng.choice(words)]
        else:
            origin = ["kw-none"]
        ops = []
        for _ in range(rng.randrange(1, 13)):
            c = rng.random()
            if c < 0.28:
                ops.append(["set", rng.choice(texts)])
            elif c < 0.42:
                ops.append(["write", rng.choice(words)])
            elif c < 0.75:
                ops.append(["get"])
            elif c < 0.9:
                ops.append(["qual"])
            else:
                ops.append(["friendly"])
        if ops[-1][0] in ("set", "write"):
            ops.append(["get"])
        dist["hist_parsed" if origin[0] == "parsed" else "hist_kw"] += 1
        dist["hist_ops"] += len(ops)
        dist["hist_mutations"] += sum(1 for o in ops if o[0] in ("set", "write"))
        dist["hist_queries"] += sum(1 for o in ops if o[0] not in ("set", "write"))
        distinct.add(("h", json.dumps([origin, ops])))
        bad = run_history(real, origin, ops, table, trace)
        if bad and nbad < 5:
            nbad += 1
            small = shrink_history(real, origin, ops, table)
            b2 = run_history(real, origin, small, table) or bad
            used = {o[1] for o in small if o[0] == "write"} | ({origin[2]} if origin[0] == "parsed" else {origin[1]} if origin[0] == "kw-int" else set())
            used |= {aosp_word(*split_text(dec(o[1]))) for o in small if o[0] == "set"}
            ck.fail({"history": {"origin": origin, "ops": small, "table": {str(w): enc(table[w]) for w in sorted(used) if w in table}}, "step": b2[0]},
                    "one configuration object, re-targeted and queried: " + b2[1], None, b2[2], b2[3])
    reqs = [t[0] for t in trace]
    ck.compare("locale-history", reqs, [t[1] for t in trace], drv.ask(reqs))
    ck.cover(evaluations=n, distinct=distinct, dist=dist,
             samples=[{"history": "parsed(fr-rFR) ; set('fil') ; get", "expect": "fil"}])
    ck.notes.append("history stream: objects parsed from bytes and keyword-constructed, <= 13 operations each; the model "
                    "(pure functions of the locale word) is history-independent, so any dependence of a reply on earlier "
                    "operations or on the object's origin is a divergence")


# ----------------------------------------------------------------- sibling chunks of a parsed table
def sibling_table(rng, pool):
    """a small table: 1-2 packages, 2-4 types, 2-5 chunks per type, locales drawn from a small pool so that
    chunks of different types (and sometimes of the same type) carry EQUAL configurations.
    Returns (arsc bytes, chunks) with chunks = [(package, type, language, region, only_locale)] in file order."""
    from harness import arscwriter as W
    locs = [("", "")] + [pool[rng.randrange(len(pool))] for _ in range(rng.randrange(2, 5))]
    pkgs, chunks = [], []
    for pi in range(rng.choice((1, 1, 2))):
        pname = f"com.verif.p{pi}"
        types = []
        for tname in rng.sample(["string", "layout", "drawable", "color", "dimen", "bool"], rng.randrange(2, 5)):
            tcs = []
            for _ in range(rng.randrange(2, 6)):
                l, r = rng.choice(locs)
                extra = rng.random() < 0.2
                cfg = W.Config(language=l, region=r, sdk=rng.choice((21, 26)) if extra else 0)
                tcs.append(W.TypeChunk(cfg, {0: W.Entry(key=f"k_{tname}", value=W.Raw(W.TYPE_INT_DEC, rng.randrange(1000)))}))
                chunks.append((pname, tname, l, r, not extra))
            types.append(W.ResType(tname, 1, tcs))
        pkgs.append(W.Package(0x7F - pi, pname, types))
    data = W.encode_arsc(W.ResTable(pkgs), config_size=rng.choice((28, 36, 48, 52, 64)),
                         global_utf8=rng.random() < 0.5, type_utf8=rng.random() < 0.5, key_utf8=rng.random() < 0.5)
    return data, chunks


def parsed_chunk_configs(real: Real, data: bytes):
    arsc = real.axml.ARSCParser(data)
    out = []
    for pname in arsc.get_packages_names():
        for x in arsc.packages[pname]:
            if isinstance(x, real.axml.ARSCResType):
                out.append((pname, x.get_type(), x))
    return arsc, out


def run_siblings(real: Real, data: bytes, chunks, ops, trace=None):
    """Oracle state: one (word, text) per chunk, initially what the generator encoded into that chunk's
    ResTable_config; a set/write changes the state of the addressed chunk only.
    Returns None or (step, what, expected, observed)."""
    try:
        arsc, got = parsed_chunk_configs(real, data)
    except Exception as e:  # noqa
        return (-1, "parsing the table raises", "a table", type(e).__name__)
    if [(p, t) for p, t, _ in got] != [(c[0], c[1]) for c in chunks]:
        return (-1, "the parsed type chunks are not the generated ones", [(c[0], c[1]) for c in chunks], [(p, t) for p, t, _ in got])
    state = [(aosp_word(c[2], c[3]), dir_name(c[2], c[3]) if c[2] else "\x00\x00") for c in chunks]
    for i, op in enumerate(ops):
        try:
            if op[0] == "set":
                text = dec(op[2])
                got[op[1]][2].config.set_language_and_region(text)
                state[op[1]] = (aosp_word(*split_text(text)), text)
            elif op[0] == "write":
                got[op[1]][2].config.locale = op[2]
                state[op[1]] = (op[2], dec(op[3]))
            else:
                for j, (pname, tname, rt) in enumerate(got):
                    word, want = state[j]
                    rep = rt.config.get_language_and_region()
                    if trace is not None:
                        trace.append((f"get {word}", enc(rep)))
                    if rep != want:
                        return (i, f"chunk {j} ({pname} {tname}/{dir_name(chunks[j][2], chunks[j][3]) or 'default'}) reports a locale "
                                   "that is neither encoded in its ResTable_config nor assigned to it", want, rep)
                    if chunks[j][4]:
                        q, wq = rt.config.get_qualifier(), ("" if word == 0 else want)
                        if q != wq:
                            return (i, f"chunk {j} ({pname} {tname}) get_qualifier", wq, q)
        except Exception as e:  # noqa
            return (i, f"{op[0]} raises", "no exception", type(e).__name__)
    return None


def siblings_stream(ck: Check, real: Real, drv, pairs):
    rng = ck.rng
    deep = (not ck.quick) or getattr(ck, "escalated", False)
    n = 6000 if deep else 400
    pool = [pairs[rng.randrange(len(pairs))] for _ in range(40)] + [("fil", "PH"), ("es", "419"), ("de", "AT"), ("fr", "CA"), ("en", "")]
    pool = [(l, r) for l, r in pool if all(32 < ord(ch) < 127 for ch in l + r)]     # the writer takes ASCII codes
    dist = {"sib_tables": 0, "sib_chunks": 0, "sib_equal_config_pairs": 0, "sib_mutations": 0, "sib_queries": 0}
    trace, nbad, distinct = [], 0, set()
    for _ in range(n):
        data, chunks = sibling_table(rng, pool)
        ops = [["query"]]
        for _ in range(rng.randrange(1, 6)):
            j = rng.randrange(len(chunks))
            l, r = rng.choice(pool)
            if rng.random() < 0.7:
                ops.append(["set", j, enc(dir_name(l, r))])
            else:
                ops.append(["write", j, aosp_word(l, r), enc(dir_name(l, r))])
            ops.append(["query"])
        dist["sib_tables"] += 1
        dist["sib_chunks"] += len(chunks)
        keyed = [(c[0], c[2], c[3], c[4]) for c in chunks]
        dist["sib_equal_config_pairs"] += sum(keyed.count(k) - 1 for k in set(keyed) if k[3])
        dist["sib_mutations"] += sum(1 for o in ops if o[0] != "query")
        dist["sib_queries"] += sum(1 for o in ops if o[0] == "query") * len(chunks)
        distinct.add(("s", data, json.dumps(ops)))
        bad = run_siblings(real, data, chunks, ops, trace)
        if bad and nbad < 3:
            nbad += 1
            small = ops[: bad[0] + 1] if bad[0] >= 0 else ops
            i = 0
            while i < len(small) - 1:
                cand = small[:i] + small[i + 1:]
                if run_siblings(real, data, chunks, cand):
                    small = cand
                else:
                    i += 1
            b2 = run_siblings(real, data, chunks, small) or bad
            ck.fail({"siblings": {"hex": data.hex(), "chunks": [list(c) for c in chunks], "ops": small}, "step": b2[0]},
                    "type chunks of one parsed table: " + b2[1], None, b2[2], b2[3])
    reqs = [t[0] for t in trace]
    ck.compare("locale-siblings", reqs, [t[1] for t in trace], drv.ask(reqs))
    ck.cover(evaluations=n, distinct=distinct, dist=dist,
             samples=[{"siblings": "string/de-rAT and layout/de-rAT parsed; set(string/de-rAT, 'fr-rCA'); query all", "expect": "layout/de-rAT still de-rAT"}])
    ck.notes.append("siblings stream: every type chunk of a parsed table is judged against the locale encoded in its own "
                    "ResTable_config (or its own most recent assignment); whether chunks share objects is not judged")

# ----------------------------------------------------------------- run
def corpus_cases():
    d = os.path.join(VERIF, "corpus", "C30")
    out = []
    if os.path.isdir(d):
        for n in sorted(os.listdir(d)):
            if n.endswith(".json"):
                out += json.load(open(os.path.join(d, n)))["cases"]
    return out


def run(ck: Check):
    real = Real()
    ck.pins_changed(PINS)
    ck.run_gen("locale")
    # tie by translation: AgVerif.Gen.PyLocale is the statement-by-statement translation (gen/py2lean.py) of
    # _unpack_language_or_region / _pack_language_or_region; Props/C30.lean proves gen_unpack_eq / gen_pack_eq
    ck.run_gen("py2lean_selftest")    # translator self-test: the subset, construct by construct, against CPython
    ck.run_gen("py2lean_c30")
    ck.prove(exes=["drv_C30"])
    drv = Driver("drv_C30")
    rng = ck.rng
    ck.rule = ("S: every language (26^2 two-letter + 32^3 packed, which contain all 26^3 lowercase) x a few regions, "
               "every region (36^2 + 32^3 packed, containing all 10^3 digit codes) x a few languages, default locale; "
               "distinct = distinct (language, region); non-trivial = not the default locale. "
               "T: all 2x65536 unpack inputs, pack/set on code and non-code strings, get on boundary/random words")

    # ---- S: corpus first
    ncorp = 0
    for c in corpus_cases():
        oracle_case(ck, real, dec(c["lang"]), dec(c["region"]))
        ncorp += 1
    # default locale
    try:
        d_get = real.from_file(0).get_language_and_region()
        d_set = real.axml.ARSCResTableConfig(None, locale="\x00\x00").locale
    except Exception as e:  # noqa
        d_get, d_set = "exception " + type(e).__name__, None
    if d_get != "\x00\x00" or d_set != 0:
        ck.fail({"lang": enc("\x00\x00"), "region": ".", "default": True}, "default locale does not round-trip",
                None, ["\\x00\\x00", 0], [d_get, d_set])

    langs2, langs3, regs2, regs3 = domain()
    kr = 3 if ck.quick else 24
    kl = 3 if ck.quick else 24
    pairs = []
    for l in langs2 + langs3:
        pairs.append((l, ""))
        for _ in range(kr):
            pairs.append((l, rng.choice(regs2) if rng.random() < 0.5 else rng.choice(regs3)))
    for r in regs2 + regs3:
        for _ in range(kl):
            pairs.append((rng.choice(langs2) if rng.random() < 0.5 else rng.choice(langs3), r))
    bad = 0
    dist = {"lang2": 0, "lang3": 0, "region_none": 0, "region2": 0, "region3": 0}
    for l, r in pairs:
        dist["lang2" if len(l) == 2 else "lang3"] += 1
        dist["region_none" if not r else ("region2" if len(r) == 2 else "region3")] += 1
        if bad < 20 and not oracle_case(ck, real, l, r):
            bad += 1
    ck.cover(evaluations=len(pairs) + ncorp + 1, distinct=set(pairs),
             samples=[{"locale": dir_name(l, r), "word": "0x%08x" % aosp_word(l, r)}
                      for l, r in (pairs[0], pairs[len(pairs) // 2], pairs[-1], ("fil", "PH"), ("es", "419"))],
             dist=dict(dist, corpus=ncorp))

    # ---- S/T: histories on one object
    history_stream(ck, real, drv, pairs)
    siblings_stream(ck, real, drv, pairs)

    # ---- T: correspondence
    reqs, rr = [], []
    for base in (97, 48):
        for c0 in range(256):
            for c1 in range(256):
                reqs.append(f"unpack {c0} {c1} {base}")
                rr.append(real.unpack(c0, c1, base))
    ck.compare("locale-unpack", reqs, rr, drv.ask(reqs))

    odd = ["", "a", "abcd", "ab-", "a-b", "\x00\x00", "\x00", "é", "éé", "ééé", "ăb", "ab€", "€€€", "AAA", "   ",
           "00", "000", "zzz", "ZZZ", "-r", "a\x7f", "\x7f\x7f\x7f", "\x80\x80\x80", "a\x80", "ÿÿ", "ÿÿÿ"]
    strs = set(odd)
    strs.update(langs2); strs.update(regs2)
    strs.update(rng.sample(langs3, 6000 if ck.quick else 32768))
    strs.update(rng.sample(regs3, 6000 if ck.quick else 32768))
    alpha = "az09AZ-r{\x00~é"
    for n in (1, 2, 3, 4):
        for _ in range(1500):
            strs.add("".join(rng.choice(alpha) for _ in range(n)))
    strs = sorted(strs)
    reqs, rr = [], []
    for s in strs:
        for base in (97, 48):
            reqs.append(f"pack {enc(s)} {base}")
            rr.append(real.pack(s, base))
    ck.compare("locale-pack", reqs, rr, drv.ask(reqs))

    sets = set(odd)
    sets.update(dir_name(l, r) for l, r in pairs[:: max(1, len(pairs) // (40000 if ck.quick else 400000))])
    sets.update(["en-rUS-rX", "en-US", "en_US", "--r", "-r-r", "en-r", "-rUS", "a-r", "-r", "en-r-", "en--rUS",
                 "fil-rPH", "fil-r419", "en-rrUS", "en-rUSA", "e-rUS", "en-rU", "ab-rcd-ref", "-r-rUS"])
    salpha = "-raU0\x00f"
    for n in range(0, 6):
        for t in itertools.product(salpha, repeat=n):
            sets.add("".join(t))
    for _ in range(3000 if ck.quick else 100000):
        sets.add("".join(rng.choice(salpha + "enS1{é") for _ in range(rng.randrange(0, 10))))
    sets = sorted(sets)
    reqs = [f"set {enc(s)}" for s in sets]
    rr = [real.set(s) for s in sets]
    ck.compare("locale-set", reqs, rr, drv.ask(reqs))

    words = {0, 1, 0x80, 0x8000, 0xFF, 0xFFFF, 0xFFFFFFFF, 0x80000000, 0x00800000, 0x0000ad05, 0x05ad, 0x24a47365,
             0x53556e65, 0x2d2d2d2d, 0x722d722d, 0x00720000, 0x2d000000, 0x00002d61, 0x0000612d, 0x55530000}
    words.update(aosp_word(l, r) for l, r in pairs[:: max(1, len(pairs) // (20000 if ck.quick else 200000))])
    for _ in range(20000 if ck.quick else 400000):
        k = rng.random()
        if k < 0.4:
            words.add(rng.getrandbits(32))
        elif k < 0.7:
            words.add(rng.getrandbits(16) | (rng.choice((0, 0x80, 0x41, 0x30)) << 16) | (rng.getrandbits(8) << 24))
        else:
            words.add(int.from_bytes(bytes(rng.choice((0, 0x2d, 0x72, 0x61, 0x80, 0xff, 0x7f, rng.getrandbits(8))) for _ in range(4)), "little"))
    words = sorted(words)
    reqs = [f"get {w}" for w in words]
    model = drv.ask(reqs)
    ck.compare("locale-get-file", reqs, [real.get_file(w) for w in words], model)
    ck.compare("locale-get-kw", reqs, [real.get_kw(w) for w in words], model)
    big = [2 ** 32, 2 ** 32 + 0x6e65, 2 ** 40 + 0x05ad, 2 ** 33 + 0x53550000]
    reqs = [f"get {w}" for w in big]
    ck.compare("locale-get-kw", reqs, [real.get_kw(w) for w in big], drv.ask(reqs))
    ck.cover(dist={"corr_unpack": 131072, "corr_pack": 2 * len(strs), "corr_set": len(sets), "corr_get": 2 * len(words)})
    ck.assumptions.append("Python str / ord / chr / str.split are modelled on lists of code points; "
                          "struct.unpack('<I') of the locale field is modelled as the 32-bit word itself")
    ck.assumptions.append("tie by translation (_unpack_/_pack_language_or_region): gen/py2lean.py reads the Python subset it "
                          "documents correctly (int = Int, str/list = list of ints, & | << >> as in Model/PyInt.lean, "
                          "IndexError/ValueError = none); declared parameter types char_in: list of ints / str, char_base: int")
    ck.notes.append("model and theorems describe the tree with fixes/C30-pack-three-letter-locale.diff applied")


def replay(ck: Check, rp):
    real = Real()
    c = rp.get("case") or rp.get("first_divergence") or {}
    print("replay", {k: v for k, v in c.items() if k not in ("history", "siblings")})
    if "siblings" in c:
        sb = c["siblings"]
        chunks = [tuple(x) for x in sb["chunks"]]
        for j, ch in enumerate(chunks):
            print(f"  chunk {j}: {ch[0]} {ch[1]} locale {dir_name(ch[2], ch[3]) or 'default'!r}")
        for i, op in enumerate(sb["ops"]):
            print(f"  step {i}:", op[0], ("chunk %d <- %r" % (op[1], dec(op[2] if op[0] == "set" else op[3]))) if op[0] != "query" else "all chunks")
        bad = run_siblings(real, bytes.fromhex(sb["hex"]), chunks, sb["ops"])
        if bad:
            print(f"FAILS at step {bad[0]}: {bad[1]}; expected {bad[2]!r}, observed {bad[3]!r}")
            return 1
        print("property holds on this history")
        return 0
    if "history" in c:
        h = c["history"]
        table = {int(w): dec(t) for w, t in h["table"].items()}
        print("origin:", h["origin"])
        for i, op in enumerate(h["ops"]):
            print(f"  step {i}: {op[0]}", repr(dec(op[1])) if op[0] == "set" else ("0x%08x" % op[1] if op[0] == "write" else ""))
        bad = run_history(real, h["origin"], h["ops"], table)
        if bad:
            print(f"FAILS at step {bad[0]}: {bad[1]}; expected {bad[2]!r}, observed {bad[3]!r}")
            return 1
        print("property holds on this history")
        return 0
    if "lang" in c:
        lang, region = dec(c["lang"]), dec(c["region"])
        if c.get("default"):
            print("default locale: get(0) =", repr(real.from_file(0).get_language_and_region()),
                  " set('\\x00\\x00') =", real.set("\x00\x00"))
            return 0
        word, text = aosp_word(lang, region), dir_name(lang, region)
        print(f"AOSP: {text!r} <-> locale word 0x{word:08x}")
        print("real get(word)      :", repr(dec(real.get_file(word))) if not real.get_file(word).startswith("other") else real.get_file(word))
        w2 = real.set(text)
        print("real set(text)      :", w2 if w2.startswith("other") else "0x%08x" % int(w2))
        ok = oracle_case(ck, real, lang, region)
        print("property holds on this case:", ok)
        return 0 if ok else 1
    if "request" in c:
        rq = c["request"].split()
        drv = Driver("drv_C30")
        if rq[0] == "unpack":
            r = real.unpack(int(rq[1]), int(rq[2]), int(rq[3]))
        elif rq[0] == "pack":
            r = real.pack(dec(rq[1]), int(rq[2]))
        elif rq[0] == "set":
            r = real.set(dec(rq[1]))
        else:
            r = [real.get_file(int(rq[1])), real.get_kw(int(rq[1]))]
        print("real :", r)
        print("model:", drv.ask([c["request"]])[0])
    return 0
