"""C36 — concurrent sessions on one database get distinct identifiers (DESIGN.md section 6, C36).

P: Props/C36.lean over Model/Session.lean (old protocol refuted, retry protocol = the code with
   fixes/C36-session-id-retry.diff proved for all N and all schedules).
T: every interleaving of the (read, insert) steps of 2 and 3 sessions (6 and 90) is replayed against
   the REAL `Session()` constructor in separate processes on a scratch SQLite database, using hook H1
   (fixes/hook-H1-session.diff: a process announces the count it read and waits to be released).
   The observed step outcomes (counted k / ok k / retry / fail k), final rows and re-count numbers are
   compared with the Lean model's trace of the same effective schedule (drv_C36).
   A process whose insert was rejected re-counts at once (it does not wait for the scheduler), so the
   effective schedule has that session's next read right after its failed insert; pending sessions
   are then released in ascending or descending order (both are run).
S: oracle on the real outcome only: every constructor returned, identifiers pairwise distinct, and the
   rows of table `session` are exactly the b old ones plus the new identifiers.

When hook H1 is not in the tree under test this raises ToolFailure (exit 2): without it no
interleaving can be forced and nothing can be concluded.
"""
import glob
import json
import multiprocessing
import os
import shutil
import sqlite3
import tempfile
import time

from harness.fw import REPO, VERIF, Check, Driver, ToolFailure

STEP_TIMEOUT = 60.0

# hand-modelled functions (normalised-AST hashes in gen/pins.json; a change escalates the search, no verdict)
PINS = [("androguard/session.py", "Session.__init__"), ("androguard/misc.py", "get_default_session")]


def tool_failure(msg):
    """`./check` runs harness.fw as __main__, so the ToolFailure its main() catches is __main__.ToolFailure,
    a different class object from harness.fw.ToolFailure; raise the one that is caught (exit 2)."""
    import sys
    cls = getattr(sys.modules.get("__main__"), "ToolFailure", None)
    return (cls if isinstance(cls, type) and issubclass(cls, Exception) else ToolFailure)(msg)


def interleavings(n):
    """all orderings of the multiset {0,0,1,1,…,n-1,n-1}: (2n)!/2^n"""
    out = []

    def go(prefix, left):
        if not any(left):
            out.append(tuple(prefix)); return
        for i in range(n):
            if left[i]:
                left[i] -= 1; prefix.append(i)
                go(prefix, left)
                prefix.pop(); left[i] += 1
    go([], [2] * n)
    return out


def hook_present():
    import androguard.session as S
    return hasattr(S, "_verif_h1")


# ------------------------------------------------------------------ real processes
def _child(url, sync, name, via, cwd):
    """runs in a forked process: create one session, report, exit"""
    try:
        if sync:
            os.environ["ANDROGUARD_VERIF"] = "1"
            os.environ["ANDROGUARD_VERIF_SYNC_DIR"] = sync
            os.environ["ANDROGUARD_VERIF_SYNC_NAME"] = name
            os.environ["ANDROGUARD_VERIF_SYNC_TIMEOUT"] = str(STEP_TIMEOUT * 4)
        else:
            os.environ.pop("ANDROGUARD_VERIF_SYNC_DIR", None)
        try:
            if via == "misc":
                # androguard.misc.get_default_session(): Session() on ./androguard.db
                os.chdir(cwd)
                from androguard import misc
                from androguard.core import androconf
                androconf.CONF["SESSION"] = None
                s = misc.get_default_session()
            else:
                from androguard.session import Session
                s = Session(db_url=url)
            r = {"ok": s.session_id}
        except BaseException as e:  # noqa
            r = {"err": type(e).__name__, "msg": str(e)[:300]}
        if sync:
            tmp = os.path.join(sync, name + ".result.tmp")
            with open(tmp, "w") as f:
                json.dump(r, f)
            os.rename(tmp, os.path.join(sync, name + ".result"))
    finally:
        os._exit(0)


def _fork(*a):
    pid = os.fork()
    if pid == 0:
        _child(*a)
    return pid


def _wait_any(sync, names, pids=()):
    """wait until one of the files exists; returns its name"""
    t0 = time.time()
    while True:
        for n in names:
            if os.path.exists(os.path.join(sync, n)):
                return n
        if time.time() - t0 > STEP_TIMEOUT:
            return None
        time.sleep(0.003)


def run_real(case):
    """case: {N, b, base:[…], policy:'asc'|'desc', via:'session'|'misc'}
    returns {canon, eff, outcomes:{i: id|None}, rows, errors, tool_failure}"""
    N, b, base, policy, via = case["N"], case["b"], list(case["base"]), case.get("policy", "asc"), case.get("via", "session")
    root = "/dev/shm" if os.path.isdir("/dev/shm") and os.access("/dev/shm", os.W_OK) else None
    d = tempfile.mkdtemp(prefix="c36-", dir=root)
    sync = os.path.join(d, "sync")
    os.mkdir(sync)
    dbfile = os.path.join(d, "androguard.db")
    url = "sqlite:///" + dbfile
    pids, res = [], {"tool_failure": None}
    try:
        for k in range(b):                       # the b sessions already in the database, one after the other
            pid = _fork(url, None, f"pre{k}", via, d)
            os.waitpid(pid, 0)
        old_rows = []
        if b and os.path.exists(dbfile):
            con = sqlite3.connect(dbfile, timeout=30)
            try:
                old_rows = [r[0] for r in con.execute("select id from session order by id")]
            finally:
                con.close()
        res["old_rows"] = old_rows
        state = {i: "idle" for i in range(N)}
        attempt = {i: 0 for i in range(N)}
        counted = {i: None for i in range(N)}
        result = {i: None for i in range(N)}
        eff, trace = [], []
        queue = list(base)

        def pending():
            return [i for i in range(N) if state[i] == "counted"]

        while True:
            if queue:
                i = queue.pop(0)
            else:
                p = pending()
                if not p:
                    break
                i = p[0] if policy == "asc" else p[-1]
            name = f"s{i}"
            if state[i] == "idle":
                pids.append(_fork(url, sync, name, via, d))
                got = _wait_any(sync, [f"{name}.counted.0", f"{name}.result"])
                if got is None:
                    res["tool_failure"] = f"session {i}: no count announced within {STEP_TIMEOUT}s"; break
                eff.append(i)
                if got.endswith(".result"):     # never reached the hook (constructor failed before the count)
                    result[i] = json.load(open(os.path.join(sync, got)))
                    state[i] = "failed"; trace.append("err:" + result[i].get("err", "?")); continue
                counted[i] = int(open(os.path.join(sync, got)).read())
                state[i] = "counted"; trace.append(f"c{counted[i]}")
            elif state[i] == "counted":
                a = attempt[i]
                open(os.path.join(sync, f"{name}.release.{a}"), "w").close()
                got = _wait_any(sync, [f"{name}.result", f"{name}.counted.{a + 1}"])
                if got is None:
                    res["tool_failure"] = f"session {i}: insert did not finish within {STEP_TIMEOUT}s"; break
                eff.append(i)
                if got.endswith(".result"):
                    result[i] = json.load(open(os.path.join(sync, got)))
                    if "ok" in result[i]:
                        state[i] = "done"; trace.append(f"ok{result[i]['ok']}")
                    else:
                        state[i] = "failed"
                        trace.append(f"fail{counted[i]}" if result[i]["err"] == "IntegrityError" else "err:" + result[i]["err"])
                else:                           # rejected insert, the process has already re-counted
                    attempt[i] = a + 1
                    counted[i] = int(open(os.path.join(sync, got)).read())
                    trace.append("retry"); eff.append(i); trace.append(f"c{counted[i]}")
            else:
                eff.append(i); trace.append("-")
        rows = None
        if os.path.exists(dbfile):
            con = sqlite3.connect(dbfile, timeout=30)
            try:
                rows = [r[0] for r in con.execute("select id from session order by id")]
            except sqlite3.Error as e:
                rows = "sqlite:" + str(e)
            finally:
                con.close()
        pcs = []
        for i in range(N):
            if state[i] == "done":
                pcs.append(f"done{result[i]['ok']}")
            elif state[i] == "failed":
                pcs.append(f"failed{counted[i]}")
            elif state[i] == "counted":
                pcs.append(f"counted{counted[i]}")
            else:
                pcs.append("idle")
        res.update(eff=eff, trace=trace, rows=rows, result=result,
                   outcomes={i: (result[i] or {}).get("ok") for i in range(N)},
                   errors={i: result[i] for i in range(N) if result[i] and "err" in result[i]},
                   canon=" ".join(trace) + " | ids " + (",".join(map(str, rows)) if isinstance(rows, list) and rows else "-" if rows == [] else str(rows))
                   + " | pc " + " ".join(pcs) + " | retries " + ",".join(str(attempt[i]) for i in range(N)))
        return res
    finally:
        for i in range(N):                       # let anything still blocked go, then reap
            for a in range(0, 16):
                try:
                    open(os.path.join(sync, f"s{i}.release.{a}"), "w").close()
                except OSError:
                    pass
        t0 = time.time()
        for pid in pids:
            while True:
                try:
                    r, _ = os.waitpid(pid, os.WNOHANG)
                except ChildProcessError:
                    break
                if r:
                    break
                if time.time() - t0 > 10:
                    try:
                        os.kill(pid, 9)
                    except OSError:
                        pass
                time.sleep(0.002)
        shutil.rmtree(d, ignore_errors=True)


def _worker(case):
    try:
        return run_real(case)
    except Exception as e:  # noqa
        return {"tool_failure": f"{type(e).__name__}: {e}"}


def gap_probe(limit=6.0):
    """Outside the property's quantifier (it needs a deleted row or a foreign writer), recorded as a note only:
    on a table whose ids have a gap ({0, 2}) the count (2) names a taken id for ever — model: gap_livelocks.
    Returns a sentence describing what the real constructor does within `limit` seconds."""
    root = "/dev/shm" if os.path.isdir("/dev/shm") and os.access("/dev/shm", os.W_OK) else None
    d = tempfile.mkdtemp(prefix="c36-gap-", dir=root)
    dbfile = os.path.join(d, "androguard.db")
    url = "sqlite:///" + dbfile
    pid = None
    try:
        for k in range(3):
            os.waitpid(_fork(url, None, f"pre{k}", "session", d), 0)
        con = sqlite3.connect(dbfile, timeout=30)
        con.execute("delete from session where id = 1"); con.commit()
        before = [r[0] for r in con.execute("select id from session order by id")]
        con.close()
        out = os.path.join(d, "probe.result")
        pid = os.fork()
        if pid == 0:
            try:
                os.environ.pop("ANDROGUARD_VERIF_SYNC_DIR", None)
                try:
                    from androguard.session import Session
                    r = {"ok": Session(db_url=url).session_id}
                except BaseException as e:  # noqa
                    r = {"err": type(e).__name__}
                with open(out + ".tmp", "w") as f:
                    json.dump(r, f)
                os.rename(out + ".tmp", out)
            finally:
                os._exit(0)
        t0 = time.time()
        while time.time() - t0 < limit and not os.path.exists(out):
            time.sleep(0.01)
        if os.path.exists(out):
            r = json.load(open(out))
            return f"table with an id gap {before}: Session() returned {r} (no livelock on this tree)"
        os.kill(pid, 9)
        con = sqlite3.connect(dbfile, timeout=30)
        after = [r[0] for r in con.execute("select id from session order by id")]
        con.close()
        return (f"table with an id gap {before} (a row deleted by another writer): the real Session() did not return within {limit:.0f}s "
                f"and was killed, rows afterwards {after} — the livelock of theorem gap_livelocks is real; outside the property "
                "(databases written only by this code stay dense: dense_invariant)")
    except Exception as e:  # noqa
        return f"gap probe could not run: {type(e).__name__}: {e}"
    finally:
        if pid:
            try:
                os.kill(pid, 9)
            except OSError:
                pass
            try:
                os.waitpid(pid, 0)
            except OSError:
                pass
        shutil.rmtree(d, ignore_errors=True)


def warm_up():
    """trigger SQLAlchemy's / dataset's lazy imports once in the parent so that forked children are fast"""
    from androguard.session import Session
    d = tempfile.mkdtemp(prefix="c36-warm-")
    try:
        os.environ.pop("ANDROGUARD_VERIF_SYNC_DIR", None)
        s = Session(db_url="sqlite:///" + os.path.join(d, "w.db"))
        s.db.close()
    finally:
        shutil.rmtree(d, ignore_errors=True)


# ------------------------------------------------------------------ oracle (real outcome only)
def oracle(ck, case, r):
    N, b = case["N"], case["b"]
    ids = [r["outcomes"][i] for i in range(N)]
    problems = []
    if any(v is None for v in ids):
        problems.append("a session was not created: " + json.dumps(r["errors"] or {i: "did not finish" for i in range(N) if ids[i] is None}))
    got = [v for v in ids if v is not None]
    if len(set(got)) != len(got):
        problems.append(f"two sessions received the same identifier: {ids}")
    if len(r.get("old_rows", [])) != b:
        problems.append(f"the {b} sessions created beforehand left rows {r.get('old_rows')}")
    if isinstance(r["rows"], list):
        if sorted(r["rows"]) != sorted(list(r.get("old_rows", [])) + got) or len(set(r["rows"])) != len(r["rows"]):
            problems.append(f"rows of table session {r['rows']} are not the old rows {r.get('old_rows')} plus the new identifiers {got}")
    else:
        problems.append(f"table session unreadable: {r['rows']}")
    if problems:
        ck.fail(dict(case, effective_schedule=r["eff"]), "; ".join(problems), None,
                expected=f"{N} sessions created with pairwise distinct identifiers, table session has {b + N} rows",
                observed=r["canon"])
    return not problems


def cases_for(ck: Check):
    cs = []
    two, three = interleavings(2), interleavings(3)
    assert len(two) == 6 and len(three) == 90
    for b in (0, 1, 3):
        for s in two:                               # at most one session is pending after the base: one release order
            cs.append({"N": 2, "b": b, "base": list(s), "policy": "asc", "via": "session"})
    for s in two:
        cs.append({"N": 2, "b": 0, "base": list(s), "policy": "asc", "via": "misc"})
    for s in three:
        cs.append({"N": 3, "b": 0, "base": list(s), "policy": "asc", "via": "session"})
    desc = [s for s in three if overlaps(s)]
    extra = [(2, s) for s in three]
    if ck.quick:
        desc = ck.rng.sample(desc, 30)
        extra = ck.rng.sample(extra, 10)
    else:
        extra += [(5, s) for s in three]
    for s in desc:
        cs.append({"N": 3, "b": 0, "base": list(s), "policy": "desc", "via": "session"})
    for b, s in extra:
        cs.append({"N": 3, "b": b, "base": list(s), "policy": ck.rng.choice(("asc", "desc")), "via": "session"})
    # adversarial family: the victim (session 0) is parked between count and insert while rival r runs to
    # completion, r = 1..m, so the victim loses the race m times in a row (N = m+1 sessions); this is the
    # schedule on which a loop with a bounded number of attempts gives up (bounded_retry_refuted)
    deep = (not ck.quick) or getattr(ck, "escalated", False)
    for m in (range(1, 8) if deep else (5, 6)):
        cs.append({"N": m + 1, "b": 0 if m % 2 else 2, "base": victim_schedule(m), "policy": "asc", "via": "session",
                   "family": f"victim-loses-{m}"})
    if deep:
        for n in (6, 7):
            for _ in range(25):
                sched = [i for i in range(n) for _ in (0, 1)]
                ck.rng.shuffle(sched)
                cs.append({"N": n, "b": ck.rng.choice((0, 1)), "base": sched, "policy": ck.rng.choice(("asc", "desc")),
                           "via": "session", "family": f"random-{n}"})
    if not ck.quick:
        four = interleavings(4)                     # 2520
        for s in ck.rng.sample(four, 300):
            cs.append({"N": 4, "b": 1, "base": list(s), "policy": ck.rng.choice(("asc", "desc")), "via": "session"})
    return cs


def victim_schedule(m):
    """0 | 1 1 0 | 2 2 0 | … | m m 0 : each `0` after the first is the victim's (rejected) insert; the
    process re-counts at once, which the runner records as the next read"""
    out = [0]
    for r in range(1, m + 1):
        out += [r, r, 0]
    return out


def overlaps(base):
    """independent of the model: does some session read between another one's read and insert"""
    seen = {}
    for i in base:
        seen[i] = seen.get(i, 0) + 1
        if seen[i] == 1 and any(v == 1 for k, v in seen.items() if k != i):
            return True
    return False


def run(ck: Check):
    ck.pins_changed(PINS)
    ck.run_gen("sessionloop")
    ck.prove(exes=["drv_C36"])
    if not hook_present():
        raise tool_failure(f"hook H1 (fixes/hook-H1-session.diff) is not applied to {REPO}/androguard/session.py: "
                          "interleavings of real processes cannot be forced, no verdict")
    warm_up()
    ck.rule = ("all 6 interleavings of 2 sessions (b=0,1,3, and through misc.get_default_session) and all 90 of 3 sessions "
               "(b=0, ascending release order; descending order and b=2 on a seeded sample; thorough: all of them, b=5, and 300 of "
               "the 2520 interleavings of 4 sessions); adversarial family 'victim loses m times in a row' with m+1 sessions "
               "(always m=5,6; thorough or escalated: m=1..7 and 25 seeded interleavings each of 6 and 7 sessions); "
               "distinct = distinct (N, b, effective schedule, entry point); non-trivial = some read falls between another "
               "session's read and insert (the schedules on which the unfixed code fails)")
    corpus = []
    for p in sorted(glob.glob(os.path.join(VERIF, "corpus", "C36", "*.json"))):
        c = json.load(open(p))
        corpus.append({k: c[k] for k in ("N", "b", "base", "policy", "via", "family") if k in c})
    cases = corpus + cases_for(ck)
    ctx = multiprocessing.get_context("fork")
    t_replay = time.time()
    with ctx.Pool(min(8, os.cpu_count() or 2)) as pool:
        results = pool.map(_worker, cases, chunksize=4)
    ck.notes.append(f"replaying {len(cases)} schedules in real processes took {time.time() - t_replay:.1f}s")
    drv = Driver("drv_C36")
    reqs, reals, nontrivial, dist, samples, seen_nret = [], [], set(), {}, [], set()
    for c, r in zip(cases, results):
        if r.get("tool_failure"):
            raise tool_failure(f"C36 schedule {c}: {r['tool_failure']}")
        oracle(ck, c, r)
        reqs.append(f"session retry {c['N']} {c['b']} " + (",".join(map(str, r["eff"])) or "-"))
        reals.append(r["canon"])
        ov = overlaps(c["base"])
        key = (c["N"], c["b"], tuple(r["eff"]), c.get("via", "session"))
        if ov:
            nontrivial.add(key)
        k = c.get("family") or f"N{c['N']}:{'overlap' if ov else 'sequential'}"
        dist[k] = dist.get(k, 0) + 1
        nret = sum(1 for t in r["trace"] if t == "retry")
        dist[f"retries={nret}"] = dist.get(f"retries={nret}", 0) + 1
        if len(samples) < 5 and nret not in seen_nret:
            seen_nret.add(nret)
            samples.append({"case": c, "real": r["canon"]})
    model = drv.ask(reqs)
    ck.compare("session", reqs, reals, model)
    ck.cover(evaluations=len(cases), distinct=nontrivial, samples=samples, dist=dict(dist, corpus=len(corpus)))
    ck.assumptions.append("SQLite executes one INSERT / one SELECT COUNT atomically and enforces the primary key; dataset/SQLAlchemy are "
                          "modelled, not verified")
    ck.assumptions.append("the table's primary keys are dense (exactly 0..rows-1) when the sessions start: proved to be an invariant of this "
                          "code (dense_invariant) and an explicit hypothesis of retry_ok_on_dense_table; databases also modified by other "
                          "writers (deleted rows, foreign inserts) are outside the claim — there the loop never ends (gap_livelocks)")
    ck.notes.append(gap_probe())
    ck.partial.append("the replay forces interleavings only at hook H1's sync point (between the count and the insert statement); "
                      "schedules finer than that — e.g. another process committing inside a non-atomic insert helper such as "
                      "dataset's insert_ignore (SELECT then INSERT) — are outside the replay; the shape pin retry_loop_unbounded "
                      "(one table_session.insert inside try/except IntegrityError, gen/sessionloop.py) is what breaks on such a rewrite")
    ck.partial.append("OS-level timing is outside the model: SQLite busy time-outs under real parallel load and the lazy CREATE TABLE of "
                      "dataset when several processes hit a brand-new database at the same instant are reached by neither proof nor replay")


def replay(ck: Check, rp):
    if not hook_present():
        print("hook H1 is not applied to the tree under test")
        return 2
    warm_up()
    c = rp.get("case")
    if c is None and "first_divergence" in rp:
        d = rp["first_divergence"]
        print("correspondence:", d)
        return 0
    case = {k: c[k] for k in ("N", "b", "base", "policy", "via") if k in c}
    r = run_real(case)
    print("replay", case)
    print("real :", r.get("canon"), r.get("errors"))
    try:
        print("model:", Driver("drv_C36").ask([f"session retry {case['N']} {case['b']} " + ",".join(map(str, r["eff"]))])[0])
    except ToolFailure as e:
        print("model unavailable:", e)
    ok = oracle(ck, case, r)
    print("ok" if ok else "FAILS: " + ck.failures[-1]["what"])
    return 0 if ok else 1
