"""C01 — Dalvik instruction decoding is faithful for every operand encoding (DESIGN.md section 6, C01).

P: gen/opcodes.py -> Gen/Opcodes.lean; lake build AgVerif.Props.C01 (+ drv_C01); axiom audit.
T: real `get_instruction` / `get_optimized_instruction` / direct `Instruction<fmt>(cm, buf)` vs the compiled
   Lean model (drv_C01): class, OP, length, get_raw (or struct.error), get_operands, get_literals, get_ref_off,
   get_ref_kind, get_name — or the error kind.
S: oracle = harness/dalvik_spec.py (table-driven decoder written from the Dalvik specification, shares nothing
   with the model) judged on the real outputs: length, byte round trip, registers, literal, offset, index,
   mnemonic, rejection of unused opcodes and truncated instructions.
"""
import glob
import json
import os
import struct
from concurrent.futures import ThreadPoolExecutor
from multiprocessing import Pool

from harness import dalvik_spec as DS
from harness.fw import VERIF, Check, Driver, hexs

TAILS = [bytes.fromhex(t) for t in (
    "0000" * 4, "ffff" * 4, "0080" * 4, "ff7f" * 4, "ff00" * 4, "00ff" * 4)]   # units 0000 ffff 8000 7fff 00ff ff00
DEAD = ["20bc", "22cs", "35ms", "35mi", "3rms", "3rmi", "41c", "40sc", "52c", "5rc"]   # classes no DALVIK_OPCODES_FORMAT row uses
ALLFMT = ["10x", "12x", "11n", "11x", "10t", "20t", "20bc", "22x", "21t", "21s", "21h", "21c", "23x", "22b", "22t",
          "22s", "22c", "22cs", "30t", "32x", "31i", "31t", "31c", "35c", "35ms", "35mi", "3rc", "3rms", "3rmi",
          "51l", "41c", "40sc", "52c", "5rc", "45cc", "4rcc", "00x"]

# every hand-modelled class / function (Model/Insn.lean) + the sweep the instructions are reached through;
# a changed normalised-AST hash escalates the search (fw.pins_changed)
PINS = [
    ("androguard/core/dex/__init__.py", "Instruction"),
    ("androguard/core/dex/__init__.py", "Instruction10x"),
    ("androguard/core/dex/__init__.py", "Instruction12x"),
    ("androguard/core/dex/__init__.py", "Instruction11n"),
    ("androguard/core/dex/__init__.py", "Instruction11x"),
    ("androguard/core/dex/__init__.py", "Instruction10t"),
    ("androguard/core/dex/__init__.py", "Instruction20t"),
    ("androguard/core/dex/__init__.py", "Instruction20bc"),
    ("androguard/core/dex/__init__.py", "Instruction22x"),
    ("androguard/core/dex/__init__.py", "Instruction21t"),
    ("androguard/core/dex/__init__.py", "Instruction21s"),
    ("androguard/core/dex/__init__.py", "Instruction21h"),
    ("androguard/core/dex/__init__.py", "Instruction21c"),
    ("androguard/core/dex/__init__.py", "Instruction23x"),
    ("androguard/core/dex/__init__.py", "Instruction22b"),
    ("androguard/core/dex/__init__.py", "Instruction22t"),
    ("androguard/core/dex/__init__.py", "Instruction22s"),
    ("androguard/core/dex/__init__.py", "Instruction22c"),
    ("androguard/core/dex/__init__.py", "Instruction22cs"),
    ("androguard/core/dex/__init__.py", "Instruction30t"),
    ("androguard/core/dex/__init__.py", "Instruction32x"),
    ("androguard/core/dex/__init__.py", "Instruction31i"),
    ("androguard/core/dex/__init__.py", "Instruction31t"),
    ("androguard/core/dex/__init__.py", "Instruction31c"),
    ("androguard/core/dex/__init__.py", "Instruction35c"),
    ("androguard/core/dex/__init__.py", "Instruction35ms"),
    ("androguard/core/dex/__init__.py", "Instruction35mi"),
    ("androguard/core/dex/__init__.py", "Instruction3rc"),
    ("androguard/core/dex/__init__.py", "Instruction3rms"),
    ("androguard/core/dex/__init__.py", "Instruction3rmi"),
    ("androguard/core/dex/__init__.py", "Instruction51l"),
    ("androguard/core/dex/__init__.py", "Instruction41c"),
    ("androguard/core/dex/__init__.py", "Instruction40sc"),
    ("androguard/core/dex/__init__.py", "Instruction52c"),
    ("androguard/core/dex/__init__.py", "Instruction5rc"),
    ("androguard/core/dex/__init__.py", "Instruction45cc"),
    ("androguard/core/dex/__init__.py", "Instruction4rcc"),
    ("androguard/core/dex/__init__.py", "Instruction00x"),
    ("androguard/core/dex/__init__.py", "get_instruction"),
    ("androguard/core/dex/__init__.py", "get_optimized_instruction"),
    ("androguard/core/dex/__init__.py", "DalvikPacker"),
    ("androguard/core/dex/__init__.py", "LinearSweepAlgorithm.get_instructions"),
    ("androguard/core/dex/__init__.py", "DCode.get_instructions"),
]

_R = {}


def _real():
    """androguard from the tree under test + a minimal ClassManager stand-in (as tests/test_dex.py does)"""
    if _R:
        return _R["dex"], _R["cm"]
    from androguard.core import dex

    class _Ref:
        def get_class_name(self): return "LC;"
        def get_name(self): return "m"
        def get_descriptor(self): return "()V"

    class CM:
        packer = dex.DalvikPacker(0x12345678)
        def get_odex_format(self): return False
        def get_method_ref(self, i): return _Ref()
        def get_string(self, i): return "s"
        def get_field(self, i): return ("LC;", "I", "f")
        def get_type(self, i): return "LT;"

    _R["dex"], _R["cm"] = dex, CM()
    return dex, _R["cm"]


def _build(req):
    """run the real constructor for one request; returns (instruction, None) or (None, canonical error)"""
    dex, cm = _real()
    w = req.split(" ")
    buf = bytearray.fromhex(w[-1]) if w[-1] != "-" else bytearray()
    try:
        if w[0] == "gi":
            if not buf:
                return None, "invalid"        # the sweep never calls get_instruction without a code unit; model: short
            return dex.get_instruction(cm, buf[0], buf), None
        if w[0] == "go":
            u = int.from_bytes(bytes(buf[:2]), "little")
            if u not in dex.DALVIK_OPCODES_OPTIMIZED:
                return None, "other:KeyError"
            return dex.get_optimized_instruction(cm, u, buf), None
        if w[0] == "cls":
            try:
                return getattr(dex, "Instruction" + w[1])(cm, buf), None
            except struct.error:
                return None, "invalid"       # what get_instruction makes of it
    except dex.InvalidInstruction:
        return None, "invalid"
    except Exception as e:  # noqa
        return None, "other:" + type(e).__name__
    return None, "bad-op"


def _ops(ins):
    try:
        ops = ins.get_operands()
    except (IndexError, KeyError):
        return "err"           # get_kind(): the table row of this OP has no kind / there is no row
    if ops is None:
        return "none"
    out = []
    for o in ops:
        k = int(o[0])
        if k == 0: out.append(f"r{o[1]}")
        elif k == 1: out.append(f"l{o[1]}")
        elif k == 3: out.append(f"o{o[1]}")
        elif k >= 0x100: out.append(f"k{k}:{o[1]}")
        else: out.append(f"?{k}:{o[1]}")
    return ",".join(out) if out else "[]"


def canon_real(req):
    ins, err = _build(req)
    if ins is None:
        return err
    try:
        raw = hexs(bytes(ins.get_raw()))
    except struct.error:
        raw = "err"
    lits = ins.get_literals()
    off = ins.get_ref_off() if hasattr(ins, "get_ref_off") else "-"
    try:
        ref = ins.get_ref_kind()
    except Exception as e:  # noqa
        ref = "-" if str(e) == "not implemented" else "other:" + type(e).__name__
    try:
        name = ins.get_name()
    except Exception:  # noqa
        name = "?"
    return (f"ok {type(ins).__name__[11:]} {ins.OP} len={ins.get_length()} raw={raw} ops={_ops(ins)} "
            f"lits={','.join(str(x) for x in lits) if lits else '[]'} off={off} ref={ref} name={name}")


def canon_model(reply, req):
    if reply.startswith("err "):
        k = reply[4:]
        if k in ("short", "pad", "count", "unused"):
            return "invalid"
        if k == "indexError":
            return "other:IndexError"
        if k == "noOpcode":
            return "other:KeyError"
        return "model-" + k
    return reply


# ------------------------------------------------------------------ oracle (specification) on the real outputs
def parse_ok(line):
    """'ok 35c 110 len=6 raw=… ops=… lits=… off=… ref=… name=…' -> dict"""
    head, name = line.split(" name=", 1)
    w = head.split(" ")
    d = {"cls": w[1], "OP": int(w[2]), "name": name}
    for kv in w[3:]:
        k, v = kv.split("=", 1)
        d[k] = v
    return d


def judge(req, real):
    """the property, stated with the specification decoder; returns (what, expected, observed) or None.
    Only `gi` requests (the public path, one of the 256 opcodes) are judged against the specification."""
    buf = bytes.fromhex(req.split(" ")[-1])
    sp = DS.decode(buf)
    st = sp["status"]
    if st == "unused":
        return None if real == "invalid" else ("unused opcode is not rejected as an invalid instruction", "invalid", real)
    if st == "short":
        return None if real == "invalid" else ("truncated instruction is not rejected", "invalid", real)
    if st == "badpad":
        return None                  # the statement says nothing about a non-zero must-be-zero byte
    if not real.startswith("ok "):
        if st == "undefined":
            return None              # A > 5: no meaning in the specification
        return ("valid instruction is rejected", "ok " + sp["fmt"], real)
    r = parse_ok(real)
    if int(r["len"]) != sp["length"]:
        return ("wrong instruction length", sp["length"], r["len"])
    if r["raw"] != sp["raw"].hex():
        return ("get_raw() does not reproduce the input bytes", sp["raw"].hex(), r["raw"])
    if st == "undefined":
        return None                  # length and round trip only
    if r["cls"] != sp["fmt"]:
        return ("decoded with the wrong format", sp["fmt"], r["cls"])
    if r["name"] != sp["name"]:
        return ("wrong mnemonic", sp["name"], r["name"])
    if r["ops"] != "none":           # 45cc / 4rcc: get_operands is unimplemented upstream (returns None); see attributes below
        regs = [int(o[1:]) for o in r["ops"].split(",") if o.startswith("r")]
        if regs != sp["regs"]:
            return ("wrong register operands", sp["regs"], regs)
        kinds = [o for o in r["ops"].split(",") if o.startswith("k")]
        if sp["idx"] is not None and (len(kinds) != 1 or int(kinds[0].split(":")[1]) != sp["idx"]):
            return ("wrong pool index operand", sp["idx"], kinds)
        lops = [int(o[1:]) for o in r["ops"].split(",") if o.startswith("l")]
        if sp["lit"] is not None and lops != [sp["lit"]]:
            return ("wrong literal operand", sp["lit"], lops)
        oops = [int(o[1:]) for o in r["ops"].split(",") if o.startswith("o")]
        if sp["off"] is not None and oops != [sp["off"]]:
            return ("wrong offset operand", sp["off"], oops)
    lit = None if r["lits"] == "[]" else [int(x) for x in r["lits"].split(",")]
    if (lit or None) != (None if sp["lit"] is None else [sp["lit"]]):
        return ("wrong literal (get_literals)", sp["lit"], lit)
    off = None if r["off"] == "-" else int(r["off"])
    if off != sp["off"]:
        return ("wrong branch offset (get_ref_off)", sp["off"], off)
    if sp["fmt"] not in ("45cc", "4rcc"):
        ref = None if r["ref"] == "-" else int(r["ref"])
        if ref != sp["idx"]:
            return ("wrong pool index (get_ref_kind)", sp["idx"], ref)
    return None


def judge_attrs(req):
    """45cc / 4rcc expose their fields only as attributes; compare those with the specification"""
    ins, err = _build(req)
    if ins is None:
        return None
    sp = DS.decode(bytes.fromhex(req.split(" ")[-1]))
    if sp["status"] != "ok":
        return None
    if sp["fmt"] == "45cc":
        got = ([ins.C, ins.D, ins.E, ins.F, ins.G][:ins.A], ins.BBBB, ins.HHHH)
    else:
        got = (list(range(ins.CCCC, ins.NNNN + 1)), ins.BBBB, ins.HHHH)
    exp = (sp["regs"], sp["idx"], sp["idx2"])
    return None if got == exp else ("wrong 45cc/4rcc attributes", exp, got)


# ------------------------------------------------------------------ generators
def gen_first_unit_sweep(ck):
    """all 256 opcodes x all 256 second bytes x fixed tails (+ seeded random tails)"""
    rng = ck.rng
    ntail = 1 if (ck.quick and not ck.escalated) else 24
    reqs = []
    for op in range(256):
        for b1 in range(256):
            head = bytes([op, b1])
            for j, t in enumerate(TAILS):
                if not (ck.quick and not ck.escalated) or (j + b1) % 2 == 0:          # quick: three of the six fixed tails, alternating
                    reqs.append("gi " + (head + t).hex())
            for _ in range(ntail):
                reqs.append("gi " + (head + rng.randbytes(8)).hex())
    return reqs


def gen_spec_valid(ck):
    """valid instructions from the specification-side generator (boundary and uniform field values)"""
    rng = ck.rng
    n = 60 if (ck.quick and not ck.escalated) else 1500
    reqs = []
    for op in sorted(DS.OPCODES):
        for i in range(n):
            reqs.append("gi " + (DS.random_insn(rng, op, boundary=(i % 2 == 0)) + rng.randbytes(rng.randrange(0, 3))).hex())
    return reqs


def gen_truncated(ck):
    rng = ck.rng
    reqs = ["gi -"]
    for op in range(256):
        full = bytes([op]) + rng.randbytes(9)
        for n in range(1, 10):
            reqs.append("gi " + full[:n].hex())
        z = bytes([op]) + bytes(9)
        for n in range(1, 10):
            reqs.append("gi " + z[:n].hex())
    return reqs


def gen_classes(ck):
    """every Instruction class constructed directly on arbitrary bytes (dead ODEX classes included) + ODEX table"""
    rng = ck.rng
    n = 400 if (ck.quick and not ck.escalated) else 20000
    reqs = []
    for f in ALLFMT:
        reqs.append(f"cls {f} -")
        for i in range(n):
            k = rng.choice((0, 1, 2, 3, 4, 5, 6, 7, 8, 9, 10, 10, 10, 10, 12))
            b = bytearray(rng.randbytes(k))
            if b and i % 3 == 0:
                b[0] = rng.choice(sorted(DS.OPCODES))
            if len(b) > 1 and i % 5 == 0:
                b[1] = rng.choice((0, 0x10, 0x50, 0x60, 0xf0, 0x01, 0xff))
            reqs.append(f"cls {f} {hexs(bytes(b))}")
    for u in range(0xf2ff, 0x10000, 0x100):
        for i in range(n // 4):
            k = rng.choice((2, 4, 7, 8, 9, 10, 10, 10, 12))
            reqs.append("go " + (u.to_bytes(2, "little") + rng.randbytes(k - 2)).hex())
        for t in TAILS:
            reqs.append("go " + (u.to_bytes(2, "little") + t).hex())
    return reqs


def _real_chunk(args):
    """worker: real outputs + the specification oracle's verdicts for one slice of requests"""
    reqs, judged = args
    from harness.fw import quiet_androguard
    quiet_androguard()
    real, fails = [], []
    for rq in reqs:
        rl = canon_real(rq)
        real.append(rl)
        if judged and rq.startswith("gi ") and rq != "gi -":
            v = judge(rq, rl)
            if v is None and (rl.startswith("ok 45cc") or rl.startswith("ok 4rcc")):
                v = judge_attrs(rq)
            if v is not None and len(fails) < 20:
                fails.append((rq, v))
    return real, fails


def real_all(reqs, judged, procs=14):
    if len(reqs) < 20000:
        return _real_chunk((reqs, judged))
    n = (len(reqs) + procs - 1) // procs
    chunks = [(reqs[i:i + n], judged) for i in range(0, len(reqs), n)]
    with Pool(procs) as p:
        out = p.map(_real_chunk, chunks)
    return [x for c in out for x in c[0]], [x for c in out for x in c[1]]


def corpus_cases():
    out = []
    for p in sorted(glob.glob(os.path.join(VERIF, "corpus", "C01", "*.json"))):
        out.append((os.path.basename(p), json.load(open(p))))
    return out


def run_stream(ck, drv, stream, reqs, judged=True):
    with ThreadPoolExecutor(1) as ex:            # the Lean model answers while the real code runs
        fut = ex.submit(drv.ask, reqs)
        real, fails = real_all(reqs, judged)
        model = [canon_model(m, r) for m, r in zip(fut.result(), reqs)]
    ck.compare(stream, reqs, real, model)
    fmts = {}
    for rl in real:
        k = rl.split(" ")[1] if rl.startswith("ok ") else rl
        fmts[k] = fmts.get(k, 0) + 1
    for rq, v in fails[:20]:
        ck.fail({"request": rq}, v[0], None, v[1], v[2])
    ck.cover(evaluations=len(reqs), distinct=set(reqs),
             samples=[{"request": reqs[i], "real": real[i]} for i in (0, len(reqs) // 2, len(reqs) - 1)],
             dist={f"{stream}:{k}": v for k, v in sorted(fmts.items())})


def _via_sweep_chunk(labels):
    from harness.fw import quiet_androguard
    from harness.props import c02
    quiet_androguard()
    out = []
    for lb in labels:
        rq, exp = c02.boundary_case(lb)
        rl = c02.canon_real(rq)
        v = c02.judge(rq, rl, exp)
        out.append(tuple(str(x)[:300] for x in v) if v else None)
    return out


def run_via_sweep(ck, full, procs=12):
    """the same instructions reached the way every caller reaches them — through LinearSweepAlgorithm — far into long
    code: an instruction of each length class (1, 2, 3, 5 units) at every even offset within +-12 bytes of 0x1000,
    0x2000, 0x3000 (nop and mixed sleds) and of 0x10000 must be yielded with the format table's length and re-encode
    to the input bytes.  Deterministic (cases shared with C02's boundary stream); leg S only."""
    labels = []
    for kind in ("u1", "u2", "u3", "u5"):
        for d in range(-12, 13, 2):
            labels.append(f"nop:{kind}:{d}:4096,8192,12288")
            labels.append(f"mix:{kind}:{d}:4096,8192,12288")
            labels.append(f"wide:{kind}:{d}:65536")
            if full:
                labels.append(f"mix:{kind}:{d}:65536")
    parts = [labels[k::procs] for k in range(procs)]
    with Pool(procs) as pool:
        res = pool.map(_via_sweep_chunk, parts)
    n = 0
    for part, vs in zip(parts, res):
        for lb, v in zip(part, vs):
            if v is not None and n < 10:
                n += 1
                ck.fail({"via_sweep": lb}, "reached through the linear sweep: " + v[0], None, v[1], v[2])
    ck.cover(evaluations=len(labels), distinct=set(labels), samples=[{"request": "via-sweep " + labels[0]}],
             dist={"via-sweep:programs": len(labels)})


def run(ck: Check):
    _real()
    ck.pins_changed(PINS)
    ck.run_gen("opcodes")
    ck.run_gen("py2lean_selftest")
    ck.run_gen("py2lean_insn")          # the 36 constructors translated from the source (theorem source_constructors_agree)
    ck.prove(exes=["drv_C01"])
    drv = Driver("drv_C01")
    ck.rule = ("requests: every opcode x every second byte (the whole first code unit) x six fixed tails (units 0000 ffff "
               "8000 7fff 00ff ff00) x seeded random tails; specification-generated valid instructions with boundary and "
               "uniform field values for each defined opcode; all truncations to 0..9 bytes per opcode; every Instruction "
               "class (incl. the ODEX classes no table row uses) constructed directly on random bytes; the ODEX table. "
               "distinct = distinct request line; all carry at least a full first code unit except the truncation stream")
    # corpus first
    creqs = [c["request"] for _, c in corpus_cases() if "request" in c]
    if creqs:
        run_stream(ck, drv, "corpus", creqs)
    if ck.failures and ck.quick:
        ck.notes.append("a corpus witness failed: the exhaustive first-unit stream is skipped in the quick tier")
    else:
        run_stream(ck, drv, "first-unit", gen_first_unit_sweep(ck))
    run_stream(ck, drv, "spec-valid", gen_spec_valid(ck))
    run_via_sweep(ck, (not ck.quick) or ck.escalated)
    # the same decoders behind a real DCode object, queried repeatedly: an unused opcode / bad pad byte / truncated
    # instruction must stay rejected and get_raw() must keep re-encoding to the input on every later query (C02's history stream)
    from harness.props import c02
    c02._real()
    c02.run_histories(ck, None, 3000 if ((not ck.quick) or ck.escalated) else 200)
    ck.notes.append("history stream (shared with C02): 3-10 queries on ONE DCode object over valid and invalid code; every answer "
                    "must equal that of a fresh DCode on the same bytes, i.e. a pure function of the bytes as in the Lean model")
    run_stream(ck, drv, "truncated", gen_truncated(ck))
    run_stream(ck, drv, "classes", gen_classes(ck), judged=False)
    ck.assumptions.append("struct.pack/unpack (little-endian standard sizes B b H h I i q) modelled as AgVerif.Insn.pack/unpack; "
                          "Python int &, >>, <<, | modelled in arithmetic normal form (compared on every case by the correspondence)")
    ck.notes.append("35c/35ms/35mi with A>5 and the ODEX-only classes are outside the specification: length and round trip only; "
                    "45cc/4rcc get_operands() returns None upstream (unimplemented), their fields are compared as attributes")
    ck.partial.append("fields_spec covers all 26 specification formats (35c under A<=5: the specification defines no register "
                      "list for A>5, see fields_spec_35c_needs_count); ODEX-only classes (3rms/3rmi/5rc drop the last register, "
                      "41c/40sc/52c, 20bc, 22cs, 35ms/35mi) are covered by length/round-trip theorems and the correspondence only")


def replay(ck: Check, rp):
    _real()
    c = rp.get("case") or rp.get("first_divergence") or {}
    rq = c.get("request")
    print("replay", c)
    if c.get("history"):
        from harness.props import c02
        return c02.replay(ck, rp)
    if c.get("via_sweep"):
        from harness.props import c02
        lb = c["via_sweep"]
        srq, exp = c02.boundary_case(lb)
        _, a, buf = c02.parse_req(srq)
        print(f"via-sweep case {lb}: LinearSweepAlgorithm.get_instructions over {len(buf)} bytes of valid code; expected "
              f"{len(exp)} items, last three at {[(o, r.hex()) for o, r in exp[-3:]]}")
        real = c02.canon_real(srq)
        print("real :", c02._shorten(real)[-300:])
        v = c02.judge(srq, real, exp)
        print("judge:", tuple(str(x)[:300] for x in v) if v else None)
    if rq:
        real = canon_real(rq)
        print("real :", real)
        try:
            print("model:", canon_model(Driver("drv_C01").ask([rq])[0], rq))
        except Exception as e:  # noqa
            print("model: (driver unavailable)", e)
        if rq.startswith("gi ") and rq != "gi -":
            sp = DS.decode(bytes.fromhex(rq.split(" ")[-1]))
            print("spec :", {k: (v.hex() if isinstance(v, bytes) else v) for k, v in sp.items() if k != "fields"})
            print("judge:", judge(rq, real))
    if "theorem" in rp:
        print("theorem:", rp["theorem"])
    return 0
