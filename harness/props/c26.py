"""C26 -- binary XML is converted to the XML tree it encodes (DESIGN.md section 6, C26).

P: Props/C26.lean over Model/Axml.lean (string pool, event machine, printer, _fix_name, _fix_value, format_value),
   Spec/Axml.lean (abstract tree, events, encoder of pool strings) and Spec/AxmlFile.lean (byte encoding of whole documents):
   axml_roundtrip = the printer on `encodeAxml E d` returns `treeOf d` for every well-formed document and encoding choice.
T: real AXMLPrinter / StringBlock / CPython decoders / _fix_value / format_value  vs  the compiled Lean model (drv_C26):
   random well-formed trees from the independent writer (UTF-8 / UTF-16 pools, narrow and wide length prefixes), hostile
   trees (names and values to repair, duplicate attributes, contradictory resource ids), structurally broken chunk
   sequences, byte-mutated files, the shipped AXML files and APK manifests.
   The specification encoder itself is tied to the code: `encodeAxml` (compiled, `spec` request) writes byte for byte what the
   independent writer writes for the generated documents it can express, and on those that satisfy `wfDoc` the real printer
   returns `treeOf` (streams spec-encoder, spec-tree).
S: oracle = the generator's tree (harness/axmlgen.expected), compared with get_xml_obj() and with a re-parse of get_xml().
"""
import glob
import io
import os
import re
import struct
import zipfile

from harness import axmlgen, axmlwriter as W
from harness.fw import REPO, Check, Driver

# the functions Model/Axml.lean transliterates (a changed AST escalates the search; it is not a verdict)
PINS = [("androguard/core/axml/__init__.py", "AXMLParser.__init__"), ("androguard/core/axml/__init__.py", "AXMLParser._do_next"),
        ("androguard/core/axml/__init__.py", "AXMLParser.nsmap"), ("androguard/core/axml/__init__.py", "AXMLParser.name"),
        ("androguard/core/axml/__init__.py", "AXMLParser.namespace"), ("androguard/core/axml/__init__.py", "AXMLParser.text"),
        ("androguard/core/axml/__init__.py", "AXMLParser.comment"),
        ("androguard/core/axml/__init__.py", "AXMLParser.getAttributeCount"), ("androguard/core/axml/__init__.py", "AXMLParser.getAttributeUri"),
        ("androguard/core/axml/__init__.py", "AXMLParser.getAttributeNamespace"), ("androguard/core/axml/__init__.py", "AXMLParser.getAttributeName"),
        ("androguard/core/axml/__init__.py", "AXMLParser.getAttributeValueType"), ("androguard/core/axml/__init__.py", "AXMLParser.getAttributeValueData"),
        ("androguard/core/axml/__init__.py", "AXMLParser.getAttributeValue"), ("androguard/core/axml/__init__.py", "AXMLParser._get_attribute_offset"),
        ("androguard/core/axml/__init__.py", "StringBlock.__init__"), ("androguard/core/axml/__init__.py", "StringBlock.getString"),
        ("androguard/core/axml/__init__.py", "StringBlock._decode8"), ("androguard/core/axml/__init__.py", "StringBlock._decode16"),
        ("androguard/core/axml/__init__.py", "StringBlock._decode_bytes"), ("androguard/core/axml/__init__.py", "StringBlock._decode_length"),
        ("androguard/core/axml/__init__.py", "AXMLPrinter.__init__"), ("androguard/core/axml/__init__.py", "AXMLPrinter._fix_name"),
        ("androguard/core/axml/__init__.py", "AXMLPrinter._fix_value"), ("androguard/core/axml/__init__.py", "AXMLPrinter._get_attribute_value"),
        ("androguard/core/axml/__init__.py", "AXMLPrinter._print_namespace"), ("androguard/core/axml/__init__.py", "format_value"),
        ("androguard/core/axml/__init__.py", "ARSCHeader.__init__")]

CORPUS = os.path.join(os.path.dirname(os.path.dirname(os.path.dirname(os.path.abspath(__file__)))), "corpus", "C26")


def cps(s):
    return "-" if not s else ".".join("%x" % ord(c) for c in s)


def split_tag(t):
    if t[:1] == "{":
        u, n = t[1:].split("}", 1)
        return u, n
    return "", t


def lx_tuple(el):
    """lxml element -> nested tuples (same shape as axmlgen.expected); comments are transparent"""
    u, n = split_tag(el.tag)
    attrs = tuple(sorted(((*split_tag(k), v) for k, v in el.attrib.items()),
                         key=lambda x: ([ord(c) for c in x[0]], [ord(c) for c in x[1]])))
    kids, pending = [], el.text or ""
    for ch in el:
        if isinstance(ch.tag, str):
            if pending:
                kids.append(("T", pending)); pending = ""
            kids.append(lx_tuple(ch))
        pending += ch.tail or ""
    if pending:
        kids.append(("T", pending))
    return ("E", n, u, attrs, tuple(kids))


def show(t):
    if t[0] == "T":
        return '"' + cps(t[1])
    return ("<" + cps(t[1]) + "," + cps(t[2]) + "".join(";%s,%s,%s" % (cps(a), cps(b), "*" if c is None else cps(c)) for a, b, c in t[3]) + ">"
            + "".join(show(k) for k in t[4]) + "</>")


def matches(exp, got):
    """expected tuple (with None wildcards for attribute values) against an observed tuple"""
    if exp[0] != got[0]:
        return False
    if exp[0] == "T":
        return exp[1] == got[1]
    if exp[1:3] != got[1:3] or len(exp[3]) != len(got[3]) or len(exp[4]) != len(got[4]):
        return False
    for (a, b, c), (x, y, z) in zip(exp[3], got[3]):
        if (a, b) != (x, y) or (c is not None and c != z):
            return False
    return all(matches(p, q) for p, q in zip(exp[4], got[4]))


def _axml():
    from androguard.core import axml
    return axml


def real_axml(data: bytes):
    axml = _axml()
    try:
        p = axml.AXMLPrinter(data)
        root = p.get_xml_obj()
        return "ok %d %s" % (1 if p.is_valid() else 0, "none" if root is None else show(lx_tuple(root))), p
    except RecursionError:
        return "exc RecursionError", None
    except Exception as e:  # noqa
        return "exc " + type(e).__name__, None


MARK = re.compile(r"f00([0-9a-f]{2})((?:\.3[0-9])+)\.f00ff")


def abstract_fmt(t, d):
    return _axml().format_value(t, d)


def resolve_marks(reply: str):
    """the model leaves float / dimension / fraction renderings abstract (`U+F00tt digits U+F00FF`): substitute the
    rendering of the real format_value (property C27 judges it).  None = the real rendering raised (outside C27's domain)."""
    bad = []

    def sub(m):
        t = int(m.group(1), 16)
        d = int("".join(chr(int(x, 16)) for x in m.group(2).split(".")[1:]))
        try:
            return cps(abstract_fmt(t, d))
        except Exception as e:  # noqa
            bad.append(type(e).__name__)
            return "?"
    out = MARK.sub(sub, reply)
    return None if bad else out


def real_sb(data: bytes):
    axml = _axml()
    buff = io.BufferedReader(io.BytesIO(data))
    try:
        h = axml.ARSCHeader(buff, expected_type=axml.RES_STRING_POOL_TYPE)
        sb = axml.StringBlock(buff, h)
    except Exception as e:  # noqa
        return "exc " + type(e).__name__
    out = ["ok", str(sb.stringCount)]
    for i in range(max(sb.stringCount, 0)):
        try:
            out.append(cps(sb.getString(i)))
        except Exception as e:  # noqa
            out.append("!" + type(e).__name__)
    return " ".join(out)


def real_fixval(s: str):
    axml = _axml()
    p = axml.AXMLPrinter.__new__(axml.AXMLPrinter)
    p.packerwarning = False
    try:
        return cps(p._fix_value(s))
    except Exception as e:  # noqa
        return "exc " + type(e).__name__


# ------------------------------------------------------------------ the file-level specification (Spec/AxmlFile.lean)
def spec_request(tree, utf8, wide):
    """the `spec` request of drv_C26 for a writer tree: the Lean specification encoder `encodeAxml` is asked for the bytes of the
    same document over the writer's pool.  None = outside what the specification's source documents express (a comment, an
    explicit raw value, a pool that holds one string twice -- the specification refers to strings by first occurrence)."""
    data, info = W.encode_axml_ex(tree, utf8=utf8, wide_lengths=wide)
    strings, ids = info["strings"], info["resource_map"]
    if len(set(strings)) != len(strings):
        return None
    toks = []

    def opt(x):
        return "!" if x is None else cps(x)

    def walk(e):
        if e.comment is not None:
            return False
        toks.extend(["E", "%x" % (e.line & 0xFFFFFFFF), cps(e.tag), opt(e.ns), "%x" % len(e.nsdecls)])
        for p_, u_ in e.nsdecls:
            toks.extend([cps(p_), cps(u_)])
        toks.append("%x" % len(e.attrs))
        for a in e.attrs:
            if a.raw is not None:
                return False
            v = a.value
            if v.type == W.TYPE_STRING and isinstance(v.data, str):
                toks.extend([opt(a.ns), cps(a.name), "ffffffff", "3", "0", cps(v.data)])
            else:
                toks.extend([opt(a.ns), cps(a.name), "ffffffff", "%x" % (v.type & 0xFF), "%x" % (int(v.data) & 0xFFFFFFFF), "-"])
        toks.append("%x" % len(e.children))
        for c in e.children:
            if isinstance(c, W.Text):
                toks.extend(["T", "%x" % (e.line & 0xFFFFFFFF), cps(c.text)])
            elif not walk(c):
                return False
        return True

    if not walk(tree):
        return None
    res = "none" if not ids else ",".join("%x" % (i & 0xFFFFFFFF) for i in ids)
    return "spec %d%d %s %s %s" % (utf8, wide, res, "|".join(cps(x) for x in strings) if strings else "~", "/".join(toks))


# ------------------------------------------------------------------ generators
def random_strings(rng, n):
    out = []
    for _ in range(n):
        r = rng.random()
        if r < 0.05:
            out.append("x" * rng.choice((0x7F, 0x80, 0x81, 0x7FFF, 0x8000, 0x8001, 40000)) if r < 0.012 else "é" * rng.choice((0x3F, 0x40, 0x7F, 0x80, 200)))
        else:
            out.append(axmlgen.legal_text(rng))
    return out


def mutate(rng, data: bytes):
    b = bytearray(data)
    r = rng.random()
    if r < 0.2 and len(b) > 12:
        return bytes(b[:rng.randrange(8, len(b))])
    if r < 0.3:
        return bytes(b) + bytes(rng.randrange(256) for _ in range(rng.choice((1, 4, 8, 24))))
    for _ in range(rng.choice((1, 1, 2, 3))):
        i = rng.randrange(len(b))
        b[i] = rng.choice((0, 1, 0xFF, 0x80, 0x7F, b[i] ^ (1 << rng.randrange(8)), rng.randrange(256)))
    return bytes(b)


def broken_structure(rng, utf8):
    """chunk sequences the writer's tree API cannot express: unbalanced / unknown / oddly sized chunks"""
    strings = ["a", "b", "urn:x", "p", "text", "", "name", "android", W.NS_ANDROID, "9x", "x:y"]
    NE = W.NO_ENTRY

    def st(name, ns=NE, attrs=()):
        body = struct.pack("<IIHHHHHH", ns, name, 0x14, 0x14, len(attrs), 0, 0, 0)
        for (ans, an, raw, ty, data) in attrs:
            body += struct.pack("<IIIHBBI", ans, an, raw, 8, 0, ty, data)
        return W._node(W.RES_XML_START_ELEMENT_TYPE, 1, NE, body)

    def en(name, ns=NE):
        return W._node(W.RES_XML_END_ELEMENT_TYPE, 1, NE, struct.pack("<II", ns, name))

    def tx(i):
        return W._node(W.RES_XML_CDATA_TYPE, 1, NE, struct.pack("<IHBBI", i, 8, 0, 0, 0))

    def nss(p, u, t=W.RES_XML_START_NAMESPACE_TYPE):
        return W._node(t, 1, NE, struct.pack("<II", p, u))

    pieces = {
        "st": lambda: st(rng.choice((0, 1, 5, 9, 10, 99)), rng.choice((NE, NE, 2, 5)),
                         [(rng.choice((NE, 8, 2)), rng.choice((0, 6, 10, 5)), rng.choice((NE, 4)), rng.choice((3, 0x10, 0x12, 1)), rng.choice((4, 0, 77)))
                          for _ in range(rng.choice((0, 0, 1, 2)))]),
        "en": lambda: en(rng.choice((0, 1, 5, 9))),
        "tx": lambda: tx(rng.choice((4, 5, 99, 0))),
        "ns": lambda: nss(rng.choice((3, 7, 5)), rng.choice((2, 8, 5))),
        "ne": lambda: nss(rng.choice((3, 7, 5)), rng.choice((2, 8, 5)), W.RES_XML_END_NAMESPACE_TYPE),
        "unk": lambda: W._node(rng.choice((0x105, 0x17F, 0x200, 0x0001)), 1, NE, bytes(rng.choice((0, 4, 8)))),
        "rm": lambda: struct.pack("<HHI", W.RES_XML_RESOURCE_MAP_TYPE, 8, 8 + 8) + struct.pack("<II", 0x01010003, 0x7F010000),
        "hs": lambda: struct.pack("<HHIII", W.RES_XML_END_ELEMENT_TYPE, 24, 32, 1, NE) + bytes(16),
        "cm": lambda: W._node(W.RES_XML_START_ELEMENT_TYPE, 1, rng.choice((4, 0, 99)), struct.pack("<IIHHHHHH", NE, 0, 0x14, 0x14, 0, 0, 0, 0)),
    }
    seq = [rng.choice(list(pieces)) for _ in range(rng.randrange(1, 9))]
    if rng.random() < 0.7:
        seq = ["st"] + seq
    body = W.encode_string_pool(strings, utf8, rng.random() < 0.3) + b"".join(pieces[k]() for k in seq)
    return struct.pack("<HHI", W.RES_XML_TYPE, 8, 8 + len(body)) + body, seq


def shipped_files():
    out = []
    for p in sorted(glob.glob(os.path.join(REPO, "tests/data/AXML/*.xml"))):
        out.append((os.path.relpath(p, REPO), open(p, "rb").read()))
    for p in sorted(glob.glob(os.path.join(REPO, "tests/data/APK/*.apk")) + glob.glob(os.path.join(REPO, "tests/data/AXML/*.apk"))):
        try:
            with zipfile.ZipFile(p) as z:
                for n in z.namelist():
                    if n == "AndroidManifest.xml" or (n.startswith("res/") and n.endswith(".xml")):
                        d = z.read(n)
                        if len(d) <= 60000:
                            out.append((os.path.relpath(p, REPO) + "!" + n, d))
        except Exception:  # noqa
            continue
    return out


# ------------------------------------------------------------------ the oracle on one well-formed tree
def judge(ck, tree, utf8, wide, data, reply, printer, case):
    """leg S: the real printer's tree must be the generator's tree"""
    exp = axmlgen.expected(tree, abstract_fmt)
    if not reply.startswith("ok 1 "):
        ck.fail(case, "well-formed document is rejected or raises", None, show(exp)[:300], reply[:300]); return False
    got = lx_tuple(printer.get_xml_obj())
    if not matches(exp, got):
        d = first_diff(exp, got, "/")
        if d is not None:
            ck.fail(case, "printed tree differs from the encoded tree: " + d[0], None, d[1], d[2]); return False
        ck.fail(case, "printed tree differs from the encoded tree (element structure, namespace, attribute or text)",
                None, show(exp)[:600], show(got)[:600]); return False
    return True


def first_diff(exp, got, path):
    """(what, expected, observed) for the first differing item, attribute by attribute"""
    if exp[0] != got[0]:
        return ("text chunk vs element at " + path, show(exp)[:200], show(got)[:200])
    if exp[0] == "T":
        return None if exp[1] == got[1] else ("text at " + path, repr(exp[1])[:200], repr(got[1])[:200])
    here = path + exp[1]
    if exp[1:3] != got[1:3]:
        return ("element name / namespace at " + path, repr(exp[1:3]), repr(got[1:3]))
    ea = {(a, b): c for a, b, c in exp[3]}
    ga = {(a, b): c for a, b, c in got[3]}
    for k in ea:
        if k not in ga:
            return ("attribute %r of <%s> is missing" % (k, here), repr(ea[k])[:200], "absent")
        if ea[k] is not None and ea[k] != ga[k]:
            return ("value of attribute %r of <%s> is not the string for its declared type" % (k, here), repr(ea[k])[:200], repr(ga[k])[:200])
    for k in ga:
        if k not in ea:
            return ("<%s> has an attribute %r that was not encoded" % (here, k), "absent", repr(ga[k])[:200])
    if len(exp[4]) != len(got[4]):
        return ("number of children of <%s>" % here, str(len(exp[4])), str(len(got[4])))
    for i, (x, y) in enumerate(zip(exp[4], got[4])):
        d = first_diff(x, y, here + "[%d]/" % i)
        if d is not None:
            return d
    return None


def judge_serialised(ck, tree, printer, case):
    from lxml import etree
    exp = axmlgen.expected(tree, abstract_fmt)
    try:
        again = etree.fromstring(printer.get_xml(pretty=False))
    except Exception as e:  # noqa
        ck.fail(case, "get_xml() of a well-formed document is not parseable XML", None, "parseable", type(e).__name__); return
    got = lx_tuple(again)
    if not matches(exp, got):
        ck.fail(case, "get_xml() re-parsed differs from the encoded tree", None, show(exp)[:600], show(got)[:600])


def case_of(seed_tag, idx, utf8, wide, data):
    return {"stream": seed_tag, "index": idx, "utf8": utf8, "wide": wide, "axml_hex": data.hex() if len(data) <= 6000 else None}


def corpus_cases():
    import json
    out = []
    for p in sorted(glob.glob(os.path.join(CORPUS, "*.json"))):
        out.append((os.path.basename(p), json.load(open(p))))
    return out


def tree_from_json(j):
    def val(v):
        return W.Val(v[0], v[1])
    return W.Element(j["tag"], j.get("ns"), [W.Attr(a.get("ns"), a["name"], val(a["value"]), a.get("res_id")) for a in j.get("attrs", [])],
                     [W.Text(c["text"]) if "text" in c else tree_from_json(c) for c in j.get("children", [])],
                     [tuple(x) for x in j.get("nsdecls", [])])


def run(ck: Check):
    rng = ck.rng
    ck.pins_changed(PINS)
    ck.run_gen("axmlconsts")
    ck.prove(exes=["drv_C26"])
    drv = Driver("drv_C26")
    sysattrs = axmlgen.sys_attrs(REPO)
    for p in axmlgen.PREFIXES:
        assert not any(n.startswith(p + "_") for n in sysattrs.values()), p
    ck.rule = ("well-formed stream: random trees (depth<=5, every Res_value type, system/app/no resource ids, namespaces, text chunks "
               "between children, comments) x {UTF-8,UTF-16} x {narrow,wide length prefix}; distinct = distinct file bytes; "
               "non-trivial = at least two elements or one attribute.  Other streams (correspondence only): hostile trees, "
               "broken chunk sequences, byte mutations, string pools, decoders, shipped files")
    unmodelled = {}

    def correspond(stream, datas, reals):
        reqs = ["axml " + d.hex() for d in datas]
        model = drv.ask(reqs)
        rq, a, b = [], [], []
        for d, r, m in zip(datas, reals, model):
            if m.startswith("exc unmodelled:"):
                unmodelled[m[4:]] = unmodelled.get(m[4:], 0) + 1
                continue
            m2 = resolve_marks(m)
            if m2 is None:
                unmodelled["unmodelled:c27-domain"] = unmodelled.get("unmodelled:c27-domain", 0) + 1
                continue
            rq.append("axml " + (d.hex() if len(d) < 4000 else d.hex()[:8000] + "...")); a.append(r); b.append(m2)
        ck.compare(stream, rq, a, b)

    # ---- corpus first
    for name, j in corpus_cases():
        tree = tree_from_json(j["tree"])
        for utf8 in (False, True):
            data = W.encode_axml(tree, utf8=utf8)
            reply, pr = real_axml(data)
            judge(ck, tree, utf8, False, data, reply, pr, {"corpus": name, "utf8": utf8, "axml_hex": data.hex()})
        ck.cover(evaluations=2)

    # ---- well-formed stream: T and S
    n_wf = 1500 if ck.quick else 60000
    if ck.quick and ck.escalated:
        n_wf = 6000
    datas, reals, dist = [], [], {"wf_utf8": 0, "wf_utf16": 0, "wf_wide": 0, "wf_elements": 0, "wf_attrs": 0, "wf_texts": 0, "wf_resid_attrs": 0}
    types_seen, distinct, samples, nser = set(), [], [], 0
    spec_reqs, spec_writer, spec_real = [], [], []
    for i in range(n_wf):
        tree = axmlgen.gen_tree(rng, max_depth=rng.choice((1, 2, 3, 4)), sysattrs=sysattrs)
        utf8, wide = rng.random() < 0.5, rng.random() < 0.3
        data = W.encode_axml(tree, utf8=utf8, wide_lengths=wide)
        reply, pr = real_axml(data)
        case = case_of("wf", i, utf8, wide, data)
        case["seed"] = ck.seed
        ok = judge(ck, tree, utf8, wide, data, reply, pr, case)
        if ok and i % 4 == 0:
            judge_serialised(ck, tree, pr, case); nser += 1
        datas.append(data); reals.append(reply)
        sr = spec_request(tree, utf8, wide)
        if sr is not None:
            spec_reqs.append(sr); spec_writer.append(data.hex()); spec_real.append(reply)
        st = axmlgen.tree_stats(tree)
        dist["wf_utf8" if utf8 else "wf_utf16"] += 1
        dist["wf_wide"] += wide
        dist["wf_elements"] += st["elements"]; dist["wf_attrs"] += st["attrs"]; dist["wf_texts"] += st["texts"]; dist["wf_resid_attrs"] += st["resid"]
        types_seen |= st["types"]
        if st["elements"] >= 2 or st["attrs"] >= 1:
            distinct.append(("wf", data))
        if i in (3, 700):
            samples.append({"axml_len": len(data), "utf8": utf8, "wide": wide, "real": reply[:160]})
    correspond("axml-wellformed", datas, reals)
    # the specification encoder of the theorems (Spec/AxmlFile.lean `encodeAxml`) writes the bytes the independent writer
    # writes; on the documents that satisfy the theorems' hypothesis `wfDoc` the real printer returns the tree `treeOf`
    sp = [r.split(" ") for r in drv.ask(spec_reqs)]
    short = [q if len(q) < 4000 else q[:4000] + "..." for q in spec_reqs]
    ck.compare("spec-encoder", short, ["ok " + h for h in spec_writer], [" ".join(r[:1] + r[2:3]) for r in sp])
    wf_idx = [k for k, r in enumerate(sp) if len(r) == 4 and r[1] == "1" and resolve_marks(r[3]) is not None]
    ck.compare("spec-tree", [short[k] for k in wf_idx], [spec_real[k] for k in wf_idx],
               ["ok 1 " + resolve_marks(sp[k][3]) for k in wf_idx])
    dist["spec_documents"] = len(spec_reqs)
    dist["spec_documents_wfDoc"] = sum(1 for r in sp if len(r) == 4 and r[1] == "1")
    dist["wf_value_types_seen"] = len(types_seen)
    dist["wf_reparsed_get_xml"] = nser
    ck.cover(evaluations=n_wf, distinct=distinct, samples=samples, dist=dist)

    # ---- attrExt layout: per-element attributeSize 20/24/28/36 (padding after each attribute) and non-zero idIndex / classIndex /
    # styleIndex; the tree a document denotes does not depend on them (S and T).  Typed values are judged attribute by attribute.
    n_l = (500 if not ck.escalated else 2500) if ck.quick else 20000
    datas, reals, ld = [], [], {"layout_documents": 0, "layout_mixed_sizes": 0, "layout_padded_multi_attr_elements": 0}
    for i in range(n_l):
        tree = axmlgen.vary_layout(rng, axmlgen.gen_tree(rng, max_depth=rng.choice((1, 2, 3)), sysattrs=sysattrs))
        utf8 = rng.random() < 0.5
        data = W.encode_axml(tree, utf8=utf8)
        reply, pr = real_axml(data)
        case = case_of("layout", i, utf8, False, data)
        case["seed"] = ck.seed
        judge(ck, tree, utf8, False, data, reply, pr, case)
        datas.append(data); reals.append(reply)
        sizes, padded = set(), [0]

        def walk(e):
            sizes.add(e.attr_size)
            padded[0] += e.attr_size != 20 and len(e.attrs) >= 2
            for c in e.children:
                if isinstance(c, W.Element):
                    walk(c)
        walk(tree)
        ld["layout_documents"] += 1; ld["layout_mixed_sizes"] += len(sizes) > 1; ld["layout_padded_multi_attr_elements"] += padded[0]
    correspond("axml-attr-layout", datas, reals)
    ck.cover(evaluations=n_l, distinct=[("layout", d) for d in datas], dist=ld)
    # attributeStart > 20 (a gap before the attribute array): the code never looks at attributeStart and reads the attributes
    # right behind attrExt; correspondence only (the model mirrors that), not judged
    datas, reals = [], []
    for i in range(n_l // 2):
        tree = axmlgen.vary_layout(rng, axmlgen.gen_tree(rng, max_depth=2, sysattrs=sysattrs), start_gap=True)
        data = W.encode_axml(tree, utf8=rng.random() < 0.5)
        datas.append(data); reals.append(real_axml(data)[0])
    correspond("axml-attribute-start", datas, reals)

    # ---- long strings: both length-prefix forms of both encodings (S and T)
    for k, n in enumerate((0x7F, 0x80, 0x7FFF, 0x8000, 0x8123, 0x10001)):      # 0x10001: non-zero high half of a wide UTF-16 prefix
        for utf8 in (False, True):
            if utf8 and n > 0x7FFF:
                continue
            tree = W.Element("a", None, [W.Attr(None, "v", W.S("y" * n))], [W.Text("z" * (n // 2))])
            data = W.encode_axml(tree, utf8=utf8)
            reply, pr = real_axml(data)
            judge(ck, tree, utf8, False, data, reply, pr, {"stream": "long", "n": n, "utf8": utf8})
            correspond("axml-long-strings", [data], [reply])
            ck.cover(evaluations=1, distinct=[("long", n, utf8)])

    # ---- hostile trees, broken structure, mutations: correspondence only
    n_h = 600 if ck.quick else 30000
    datas, reals = [], []
    for i in range(n_h):
        tree = axmlgen.gen_hostile_tree(rng, sysattrs=sysattrs)
        data = W.encode_axml(tree, utf8=rng.random() < 0.5, wide_lengths=rng.random() < 0.2)
        datas.append(data); reals.append(real_axml(data)[0])
    correspond("axml-hostile", datas, reals)
    datas, reals, kinds = [], [], {}
    for i in range(n_h):
        data, seq = broken_structure(rng, rng.random() < 0.5)
        datas.append(data); r = real_axml(data)[0]; reals.append(r)
        k = r.split(" ")[0] + (" " + r.split(" ")[1] if r.startswith("exc") else "")
        kinds[k] = kinds.get(k, 0) + 1
    correspond("axml-broken-structure", datas, reals)
    ck.cover(dist={"broken_structure_outcomes": kinds})
    datas, reals, kinds = [], [], {}
    for i in range(n_h):
        tree = axmlgen.gen_tree(rng, max_depth=2, sysattrs=sysattrs)
        data = mutate(rng, W.encode_axml(tree, utf8=rng.random() < 0.5))
        datas.append(data); r = real_axml(data)[0]; reals.append(r)
        k = " ".join(r.split(" ")[:2])
        kinds[k] = kinds.get(k, 0) + 1
    correspond("axml-mutated", datas, reals)
    ck.cover(dist={"mutated_outcomes": kinds})

    # ---- string pools
    n_p = 400 if ck.quick else 20000
    reqs, reals = [], []
    for i in range(n_p):
        strs, u8 = random_strings(rng, rng.randrange(0, 8)), rng.random() < 0.5
        if u8:
            strs = [x for x in strs if len(x.encode("utf-8")) <= 0x7FFF]
        pool = W.encode_string_pool(strs, u8, rng.random() < 0.3)
        if i % 2:
            pool = mutate(rng, pool)
        reqs.append("sb " + pool.hex()); reals.append(real_sb(pool))
    model = drv.ask(reqs)
    keep = [k for k, m in enumerate(model) if not m.startswith("exc unmodelled")]
    unmodelled["unmodelled:pool"] = len(model) - len(keep)
    ck.compare("string-pool", [reqs[k][:4000] for k in keep], [reals[k] for k in keep], [model[k] for k in keep])

    # ---- CPython decoders, _fix_value, format_value
    axml = _axml()
    reqs, reals = [], []
    for i in range(4000 if ck.quick else 200000):
        n = rng.randrange(0, 9)
        b = bytes(rng.choice((rng.randrange(256), rng.choice((0x41, 0x80, 0xBF, 0xC2, 0xE0, 0xED, 0xEF, 0xF0, 0xF4, 0xF5, 0xA0, 0x9F, 0x90, 0x8F))))
                  for _ in range(n))
        reqs.append("u8 " + (b.hex() or "-")); reals.append(cps(axml.StringBlock._decode_bytes(b, "utf-8", 0)))
        b = b"".join(struct.pack("<H", rng.choice((0x41, 0xD800, 0xDBFF, 0xDC00, 0xDFFF, 0xFEFF, 0xFFFE, 0xFFFF, rng.randrange(0x10000))))
                     for _ in range(rng.randrange(0, 5)))
        reqs.append("u16 " + (b.hex() or "-")); reals.append(cps(b.decode("utf-16-le", "replace")))
    ck.compare("decoders", reqs, reals, drv.ask(reqs))
    reqs, reals = [], []
    for i in range(3000 if ck.quick else 100000):
        s = "".join(rng.choice(axmlgen.VALUE_CHARS + axmlgen.HOSTILE_VALUES + ["퟿", "", "\U0010ffff", "\n"]) for _ in range(rng.randrange(0, 7)))
        reqs.append("fixval " + cps(s)); reals.append(real_fixval(s))
    ck.compare("fix-value", reqs, reals, drv.ask(reqs))
    reqs, reals = [], []
    for t in list(range(0, 0x22)) + [0x7F, 0xFF]:
        if t in (W.TYPE_FLOAT, W.TYPE_DIMENSION, W.TYPE_FRACTION):
            continue
        for d in axmlgen.BOUNDARY32 + [rng.getrandbits(32) for _ in range(20 if ck.quick else 2000)]:
            reqs.append(f"fmt {t} {d}"); reals.append(cps(axml.format_value(t, d)))
    ck.compare("format-value", reqs, reals, drv.ask(reqs))

    # ---- what lxml accepts as a namespace URI: the model's `safeUri` claims "certainly accepted"; whenever it says so lxml must
    # accept (as element namespace and in an nsmap); where the model says unsafe it reports `unmodelled:uri` and nothing is claimed
    from lxml import etree as _et
    uris, alpha = [], "abzAZ09./:-_"
    base = list(axmlgen.URIS) + ["http://schemas.androi:.com/apk/res/android", "http://a:80/b", "x://", "a:", "a:/b", "a/b:c", "http:///x"]
    for i in range(4000 if ck.quick else 150000):
        r = rng.random()
        if r < 0.3:
            u = list(rng.choice(base))
            for _ in range(rng.choice((1, 1, 2))):
                u[rng.randrange(len(u))] = rng.choice(alpha)
            u = "".join(u)
        else:
            u = rng.choice(("", "", "http://", "urn:", "a:", "x://a")) + "".join(rng.choice(alpha) for _ in range(rng.randrange(1, 9)))
        uris.append(u)
    uris += base
    reqs = ["safeuri " + cps(u) for u in uris]
    mod = drv.ask(reqs)
    rq, a, b = [], [], []
    for u, q, mm in zip(uris, reqs, mod):
        if mm != "safe":
            continue
        try:
            _et.Element("{%s}a" % u, nsmap={"p": u}); real = "safe"
        except ValueError:
            real = "rejected-by-lxml"
        rq.append(q); a.append(real); b.append(mm)
    ck.compare("lxml-uri", rq, a, b)
    ck.cover(dist={"uri_candidates": len(uris), "uri_model_safe": len(rq)})

    # ---- shipped files
    files = shipped_files()
    if not ck.quick or True:
        datas = [d for _, d in files]
        reals = [real_axml(d)[0] for d in datas]
        correspond("shipped-files", datas, reals)
        ck.cover(dist={"shipped_files": len(files)})
    ck.cover(dist={"unmodelled_skipped": unmodelled})
    ck.partial.append("axml_roundtrip (whole-file round trip for every well-formed document and encoding choice), pool_roundtrip, utf8/utf16 "
                      "round trips and chunk_events are proved about the model and the file-level specification Spec/AxmlFile.lean; what lxml "
                      "and CPython's codecs do is modelled (transcribed), so the agreement of the model with the real code on those parts "
                      "rests on the correspondence and the oracle")
    ck.assumptions.append("lxml (Element, set, text/tail, tostring), CPython's utf-8 / utf-16-le decoders with errors='replace', re and "
                          "str methods are modelled, not verified; float / dimension / fraction renderings are abstract here (C27)")
    ck.notes.append("model describes the tree with fixes/C26-text-chunks.diff and fixes/C26-utf16-bom.diff applied")
    ck.notes.append("namespace URIs: the model's safeUri (what lxml certainly accepts) requires `scheme:rest` with a non-empty authority "
                    "without ':' after '//' (lxml / libxml2 reject e.g. http://host:.com/); anything else is reported unmodelled:uri; the "
                    "stream lxml-uri ties the predicate to lxml (model safe => lxml accepts)")
    ck.notes.append("attribute value strings are proved against Spec/AxmlTree.lean (imports nothing): attr_value_spec, axml_roundtrip_spec "
                    "(documents without duplicate attributes); with duplicate attributes the expected tree of axml_roundtrip uses the code's own "
                    "overwrite policy; non-ASCII names, re-bound prefixes, comments and styles are outside the proved domain (tie only)")


def replay(ck: Check, rp):
    c = rp.get("case") or rp.get("first_divergence", {})
    print("replay", {k: (v if k != "axml_hex" else (v or "")[:80] + "...") for k, v in c.items()})
    data = None
    if c.get("axml_hex"):
        data = bytes.fromhex(c["axml_hex"])
    elif "request" in c and c["request"].startswith("axml ") and not c["request"].endswith("..."):
        data = bytes.fromhex(c["request"][5:])
    if data is not None:
        reply, _ = real_axml(data)
        print("real :", reply[:2000])
        m = Driver("drv_C26").ask(["axml " + data.hex()])[0]
        print("model:", (resolve_marks(m) or m)[:2000])
    if rp.get("expected"):
        print("expected:", rp["expected"])
        print("observed:", rp.get("observed"))
    if "request" in c:
        print("real:", c.get("real"), "\nmodel:", c.get("model"))
    return 0
