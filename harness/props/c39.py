"""C39 — API-level resources follow the documented fallback rule (DESIGN.md section 6, C39).

P: gen/apilevels.py -> Gen/ApiLevels.lean (directory listings, DEFAULT_API), Props/C39.lean.
T: real load_api_specific_resource_module / load_permissions / load_permission_mappings vs the
   Lean model (drv_C39) for every level -5..100 as int and as str (plus None, powers of two, seeded
   integers); the loaded JSON is identified by the file the code opened (recorded by shadowing
   `open` in the module's namespace) AND by comparing the returned dict with that file's content.
S: oracle = the rule as the property states it, in plain Python over its own directory listing,
   comparing the returned dict with the content of the level the rule selects.

The check describes the code WITH fixes/C39-api-level-zero.diff; on the unfixed tree the integer 0
(treated as "no level given") is reported as a failing input.
"""
import glob
import json
import os
import re

from harness.fw import REPO, VERIF, Check, Driver

RES = {"perm": "aosp_permissions", "map": "api_permission_mappings"}

# hand-modelled functions (normalised-AST hashes in gen/pins.json; a change escalates the search, no verdict)
PINS = [("androguard/core/api_specific_resources/__init__.py", "load_permissions"),
        ("androguard/core/api_specific_resources/__init__.py", "load_permission_mappings"),
        ("androguard/core/androconf.py", "load_api_specific_resource_module")]


class Real:
    def __init__(self):
        from androguard.core import androconf
        from androguard.core import api_specific_resources as asr
        self.androconf, self.asr = androconf, asr
        self.root = os.path.dirname(os.path.realpath(asr.__file__))
        self.opened = []
        real_open = open

        def recording_open(path, *a, **k):
            self.opened.append(os.fspath(path))
            return real_open(path, *a, **k)
        asr.open = recording_open          # module global shadows the builtin inside asr only
        self.cache = {}

    def content(self, path):
        if path not in self.cache:
            with open(path) as fp:
                self.cache[path] = json.load(fp)
        return self.cache[path]

    def identify(self, ret, permtype="permissions"):
        """canonical name of a returned dict: the file the code opened last, cross-checked by content"""
        if ret == {} and not self.opened:
            return "empty"
        if not self.opened:
            return "other:nothing-opened"
        path = self.opened[-1]
        d, name = os.path.split(path)
        m = re.fullmatch(r"permissions_(.*)\.json", name)
        kind = os.path.basename(d)
        if not m or os.path.realpath(os.path.dirname(d)) != self.root:
            return "other:opened " + path
        if kind == "aosp_permissions":
            if self.content(path).get(permtype) != ret:
                return "other:content-mismatch " + name
            return "empty" if ret == {} else f"perm {m.group(1)}"
        if kind == "api_permission_mappings":
            if self.content(path) != ret:
                return "other:content-mismatch " + name
            return "empty" if ret == {} else f"map {m.group(1)}"
        return "other:opened " + path

    def call(self, fn, *args, permtype="permissions"):
        self.opened.clear()
        try:
            ret = fn(*args)
        except RecursionError:
            return "err RecursionError", None
        except Exception as e:  # noqa
            return "err " + type(e).__name__, None
        return self.identify(ret, permtype), ret

    def module(self, res, api):
        return self.call(self.androconf.load_api_specific_resource_module, RES[res], api)


def token(api):
    if api is None:
        return "none"
    if isinstance(api, int):
        return f"i:{api}"
    return f"s:{api}"


def untoken(t):
    if t == "none":
        return None
    return int(t[2:]) if t.startswith("i:") else t[2:]


# ------------------------------------------------------------------ independent oracle
class Rule:
    """the property's rule over an independent reading of the two directories"""

    def __init__(self, repo, default):
        base = os.path.join(repo, "androguard", "core", "api_specific_resources")
        self.perm, self.maps = {}, {}
        for p in glob.glob(os.path.join(base, "aosp_permissions", "*.json")):
            m = re.fullmatch(r"permissions_([0-9]+)\.json", os.path.basename(p))
            if m:
                self.perm[int(m.group(1))] = p
        for p in glob.glob(os.path.join(base, "api_permission_mappings", "*.json")):
            m = re.fullmatch(r"permissions_([0-9]+)\.json", os.path.basename(p))
            if m:
                self.maps[int(m.group(1))] = p
        self.default = default

    def perm_level(self, n):
        """(level, case)"""
        av = sorted(self.perm)
        if n in self.perm:
            return n, "exact"
        below = [k for k in av if k < n]
        if below:
            return below[-1], ("above-range" if n > av[-1] else "gap")
        return av[0], "below-range"

    def map_level(self, n):
        if n in self.maps:
            return n, "exact"
        return self.default, "default"

    def data(self, res, level, permtype="permissions"):
        table = self.perm if res == "perm" else self.maps
        if level not in table:                  # no file even for the default level: nothing to load
            return {}
        with open(table[level]) as fp:
            j = json.load(fp)
        return j[permtype] if res == "perm" else j


class Conf:
    """a configuration: DEFAULT_API = value, put in force either through `CONF["DEFAULT_API"] = value`
    ("setitem": mutates the dict the singleton currently holds) or by giving the Configuration singleton a
    DIFFERENT backing dict ("swap": Configuration.instance = {…}, what mock.patch.object(Configuration,
    'instance', …) or an application installing its own settings does). Restored on exit."""

    def __init__(self, androconf, how, value):
        self.ac, self.how, self.value = androconf, how, value

    def __enter__(self):
        if self.how == "setitem":
            self.old = self.ac.CONF["DEFAULT_API"]
            self.ac.CONF["DEFAULT_API"] = self.value
        else:
            self.old = self.ac.Configuration.instance
            self.ac.Configuration.instance = dict(self.old, DEFAULT_API=self.value)
        return self

    def __exit__(self, *a):
        if self.how == "setitem":
            self.ac.CONF["DEFAULT_API"] = self.old
        else:
            self.ac.Configuration.instance = self.old


def configurations(ck, rule):
    """(how, value): every available mapping level, levels without a mapping file, as int and as str, both ways"""
    mapped = sorted(rule.maps)
    unmapped = [min(rule.perm), max(mapped) + 1 if max(mapped) + 1 not in rule.maps else max(rule.perm), 20]
    unmapped = [u for u in dict.fromkeys(unmapped) if u not in rule.maps]
    vals = list(mapped) + unmapped + [str(mapped[len(mapped) // 2]), str(mapped[-1]), str(unmapped[0])]
    return [(how, v) for v in vals for how in ("swap", "setitem")]


def config_requests(ck, rule):
    deep = (not ck.quick) or getattr(ck, "escalated", False)
    ints = list(range(-5, 101)) if deep else sorted(set(range(-5, 101, 4)) | set(rule.maps) | {k + 1 for k in rule.maps} | {0, 20, 100})
    out = [("map", None), ("perm", None)]
    for n in ints:
        out.append(("map", n))
    for n in sorted(set(rule.maps) | {0, 15, 20, 26, 100}):
        out.append(("map", str(n)))
    out += [("perm", 0), ("perm", "0"), ("perm", 20)]
    return out


def requests(ck: Check):
    ints = list(range(-5, 101))
    extra = set()
    for k in range(7, 70, 3):
        extra |= {2 ** k, -(2 ** k), 2 ** k - 1}
    for _ in range(60 if ck.quick and not getattr(ck, 'escalated', False) else 3000):
        extra.add(ck.rng.randrange(-10 ** 6, 10 ** 6))
        extra.add(ck.rng.randrange(-150, 250))
    if not ck.quick or getattr(ck, 'escalated', False):
        extra |= set(range(-1000, 1001))
    ints += sorted(extra - set(ints))
    out = [(res, None) for res in RES]
    for n in ints:
        for res in RES:
            out.append((res, n))
            out.append((res, str(n)))
    return out


def check_case(ck, real, rule, res, api, record=True, config=None):
    """oracle on one request against the real code; returns (case-name, ok)"""
    n = rule.default if api is None else int(api)
    canon, ret = real.module(res, api)
    level, case = rule.perm_level(n) if res == "perm" else rule.map_level(n)
    want = rule.data(res, level)
    ok = ret == want
    if not ok and record:
        what = {"perm": "permission data are not those of the level the fallback rule selects",
                "map": "permission mapping is neither the requested level's nor the default level's"}[res]
        case_d = {"resource": RES[res], "api": api, "api_type": type(api).__name__}
        if config is not None:
            case_d["config"] = {"how": config[0], "DEFAULT_API": config[1], "type": type(config[1]).__name__}
            what += f" (active configuration DEFAULT_API={config[1]!r}, set by {config[0]})"
        ck.fail(case_d, what, None, expected=f"{RES[res]}/permissions_{level}.json ({case})", observed=canon)
    return case, ok, canon, level


def run(ck: Check):
    ck.pins_changed(PINS)
    ck.run_gen("apilevels")
    ck.prove(exes=["drv_C39"])
    real = Real()
    default = real.androconf.CONF["DEFAULT_API"]
    rule = Rule(REPO, default)
    ck.rule = ("every level -5..100 as int and as str for both resources, None, ±2^k, seeded integers up to 10^6 "
               "(thorough: -1000..1000 and 3000 more); distinct = distinct (resource, argument); "
               "non-trivial = the requested level has no file (a fallback case); configurations: the sweep (thinned in quick) is "
               "repeated with DEFAULT_API = every mapping level, three levels without a mapping file, int and str, put in force both "
               "through CONF[...] = x and by swapping the Configuration singleton's backing dict")
    # corpus first
    cdir = os.path.join(VERIF, "corpus", "C39")
    ncorp = 0
    for p in sorted(glob.glob(os.path.join(cdir, "*.json"))):
        c = json.load(open(p))
        res = {v: k for k, v in RES.items()}[c["resource"]]
        api = c["api"]
        if c.get("config"):
            cfg = (c["config"]["how"], c["config"]["DEFAULT_API"])
            with Conf(real.androconf, *cfg):
                check_case(ck, real, Rule(REPO, int(cfg[1])), res, api, config=cfg)
        else:
            check_case(ck, real, rule, res, api)
        ncorp += 1
    reqs = requests(ck)
    lines, reals, dist, nontrivial = [], [], {}, []
    samples = []
    for res, api in reqs:
        case, ok, canon, level = check_case(ck, real, rule, res, api)
        key = f"{res}:{case}:{'none' if api is None else type(api).__name__}"
        dist[key] = dist.get(key, 0) + 1
        if case != "exact":
            nontrivial.append((res, token(api)))
        lines.append(f"module {res} {token(api)}")
        reals.append(canon)
        if len(samples) < 6 and case != "exact" and (len(samples) % 2 == 0) == isinstance(api, int):
            samples.append({"request": lines[-1], "real": canon, "rule": f"level {level} ({case})"})
    # the loaders called directly (int(), the recursion, the 'groups' table)
    direct = sorted({n for _, a in reqs if a is not None for n in [int(a)]})
    for n in direct:
        for api in (n, str(n)):
            lines.append(f"loadperm {token(api)}")
            reals.append(real.call(real.asr.load_permissions, api)[0])
            lines.append(f"loadmap {token(api)}")
            reals.append(real.call(real.asr.load_permission_mappings, api)[0])
        canon, ret = real.call(real.asr.load_permissions, n, "groups", permtype="groups")
        level, case = rule.perm_level(n)
        if ret != rule.data("perm", level, "groups"):
            ck.fail({"resource": "aosp_permissions", "api": n, "api_type": "int", "permtype": "groups"},
                    "permission groups are not those of the level the fallback rule selects", None,
                    expected=f"permissions_{level}.json ({case})", observed=canon)
    # the configurations dimension: the same rule under other active DEFAULT_API values
    clines, creals, nconf = [], [], 0
    confs = configurations(ck, rule)
    creqs = config_requests(ck, rule)
    for how, value in confs:
        crule = Rule(REPO, int(value))
        with Conf(real.androconf, how, value):
            for res, api in creqs:
                case, ok, canon, level = check_case(ck, real, crule, res, api, config=(how, value))
                clines.append(f"cmodule {int(value)} {res} {token(api)}")
                creals.append(canon)
                if case != "exact":
                    nontrivial.append((res, token(api), how, str(value)))
                key = f"conf:{how}:{res}:{case}"
                dist[key] = dist.get(key, 0) + 1
        nconf += 1
    if real.androconf.CONF["DEFAULT_API"] != default or real.androconf.Configuration.instance is not real.androconf.default_conf:
        ck.notes.append("configuration was not restored after the sweep (harness defect)")
    if samples is not None and clines:
        samples.append({"request": clines[len(clines) // 2], "real": creals[len(clines) // 2], "configuration": list(map(str, confs[len(confs) // 2]))})
    drv = Driver("drv_C39")
    model = drv.ask(lines)
    ck.compare("apilevel", lines, reals, model)
    ck.compare("apilevel-config", clines, creals, drv.ask(clines))
    ck.cover(evaluations=len(reqs) + 3 * len(direct) + ncorp + len(clines), distinct=nontrivial, samples=samples,
             dist=dict(dist, corpus=ncorp, direct_loader_levels=len(direct)))
    ck.assumptions.append("os.listdir/os.path.isfile/json.load and str()/int() on decimal strings are modelled, not verified "
                          "(directory listing regenerated each run; int(str(n)) = n is Int.toInt?_repr in the model)")
    ck.notes.append(f"DEFAULT_API={default}; permission levels {min(rule.perm)}..{max(rule.perm)} ({len(rule.perm)} files), "
                    f"mapping levels {sorted(rule.maps)}")


def replay(ck: Check, rp):
    real = Real()
    rule = Rule(REPO, real.androconf.CONF["DEFAULT_API"])
    c = rp.get("case") or {}
    if not c and "first_divergence" in rp:
        d = rp["first_divergence"]
        print("correspondence", d)
        w = d["request"].split()
        if w[0] == "module":
            print("real now:", real.module(w[1], untoken(w[2]))[0])
        return 0
    res = {v: k for k, v in RES.items()}[c["resource"]]
    api = c["api"]
    if c.get("config"):
        cfg = (c["config"]["how"], c["config"]["DEFAULT_API"])
        with Conf(real.androconf, *cfg):
            case, ok, canon, level = check_case(ck, real, Rule(REPO, int(cfg[1])), res, api, record=False)
    else:
        case, ok, canon, level = check_case(ck, real, rule, res, api, record=False)
    print(f"replay {c}: real -> {canon}; rule -> permissions_{level}.json ({case}); {'ok' if ok else 'FAILS'}")
    return 0 if ok else 1
