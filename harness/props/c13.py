"""C13 — cross references (DESIGN.md section 6, C13..C16; one model, one driver: drv_C13).
P: AgVerif.Props.C13 over Model/Xref.lean (+ generated opcode tests Gen/XrefOps.lean).
T: real androguard Analysis (programs assembled with harness/dexasm.py, shipped APKs, rename histories between
   Analysis.add and create_xref) vs the Lean model.
S: harness/xref_oracle.py — the property's comprehensions, computed from the program description."""
from harness.fw import Check
from harness import xref_common as X

# hand-modelled functions of AgVerif.Xref (read by tools/mkpins.py; same list as xref_common.PINS)
PINS = [("androguard/core/analysis/analysis.py", "Analysis.add"),
        ("androguard/core/analysis/analysis.py", "Analysis.create_xref"),
        ("androguard/core/analysis/analysis.py", "Analysis._create_xref"),
        ("androguard/core/analysis/analysis.py", "Analysis._resolve_method"),
        ("androguard/core/analysis/analysis.py", "Analysis._resolve_field"),
        ("androguard/core/analysis/analysis.py", "Analysis.get_call_graph"),
        ("androguard/core/analysis/analysis.py", "Analysis.get_field_analysis"),
        ("androguard/core/analysis/analysis.py", "Analysis.get_fields"),
        ("androguard/core/analysis/analysis.py", "Analysis.find_methods"),
        ("androguard/core/analysis/analysis.py", "ClassAnalysis.add_method"),
        ("androguard/core/analysis/analysis.py", "ClassAnalysis.add_field"),
        ("androguard/core/analysis/analysis.py", "ClassAnalysis.add_field_xref_read"),
        ("androguard/core/analysis/analysis.py", "ClassAnalysis.add_field_xref_write"),
        ("androguard/core/analysis/analysis.py", "ClassAnalysis.add_method_xref_to"),
        ("androguard/core/analysis/analysis.py", "ClassAnalysis.add_method_xref_from"),
        ("androguard/core/analysis/analysis.py", "ClassAnalysis.add_xref_to"),
        ("androguard/core/analysis/analysis.py", "ClassAnalysis.add_xref_from"),
        ("androguard/core/analysis/analysis.py", "ClassAnalysis.add_xref_new_instance"),
        ("androguard/core/analysis/analysis.py", "ClassAnalysis.add_xref_const_class"),
        ("androguard/core/analysis/analysis.py", "ClassAnalysis.get_field_analysis"),
        ("androguard/core/analysis/analysis.py", "MethodAnalysis.add_xref_to"),
        ("androguard/core/analysis/analysis.py", "MethodAnalysis.add_xref_from"),
        ("androguard/core/analysis/analysis.py", "MethodAnalysis.add_xref_read"),
        ("androguard/core/analysis/analysis.py", "MethodAnalysis.add_xref_write"),
        ("androguard/core/analysis/analysis.py", "MethodAnalysis.add_xref_new_instance"),
        ("androguard/core/analysis/analysis.py", "MethodAnalysis.add_xref_const_class"),
        ("androguard/core/analysis/analysis.py", "FieldAnalysis.add_xref_read"),
        ("androguard/core/analysis/analysis.py", "FieldAnalysis.add_xref_write"),
        ("androguard/core/analysis/analysis.py", "StringAnalysis.add_xref_from"),
        ("androguard/core/analysis/analysis.py", "REF_TYPE"),
        ("androguard/core/dex/__init__.py", "DEX.get_encoded_field_descriptor")]


def run(ck: Check):
    assert sorted(PINS) == sorted(X.PINS)
    X.run_property(ck, "C13")


def replay(ck: Check, rp):
    return X.replay_case(ck, rp, "C13")
