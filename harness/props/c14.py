"""C14 — cross references (DESIGN.md section 6, C13..C16; one model, one driver: drv_C13).
P: AgVerif.Props.C14 over Model/Xref.lean (+ generated opcode tests Gen/XrefOps.lean).
T: real androguard Analysis (programs assembled with harness/dexasm.py, shipped APKs) vs the Lean model.
S: harness/xref_oracle.py — the property's comprehensions, computed from the program description."""
from harness.fw import Check
from harness import xref_common as X


def run(ck: Check):
    X.run_property(ck, "C14")


def replay(ck: Check, rp):
    return X.replay_case(ck, rp, "C14")
