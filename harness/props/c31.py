"""C31 -- manifest queries report what the manifest declares (DESIGN.md section 6, C31).

P: Props/C31.lean over Model/Manifest.lean (queries on the abstract XML tree), Spec/Manifest.lean (ManifestModel + toXml), Spec/ManifestFull.lean
   (AppManifest: uses-sdk, maxSdkVersion, aliases, enabled flags, intent filters) and Spec/ManifestFile.lean (docOf: the AXML document; composition
   with C26 axml_roundtrip_norm in manifest_queries_on_file).
T: random manifest models -> harness/axmlwriter -> harness/zipwriter -> real APK(data, raw=True); every listed getter is compared
   with the Lean model (drv_C31 = Model/Axml.printAxml composed with Model/Manifest.analyse) on the same bytes.  A second stream
   of hostile manifests (bare attributes, wrong root, nested / namespaced tags, odd SDK strings) is correspondence only.
S: oracle = the generated manifest model record itself (Android's rules restated in plain Python below).
"""
import glob
import json
import os

from harness import axmlgen, axmlwriter as W
from harness.fw import REPO, Check, Driver

A = W.NS_ANDROID
# the functions Model/Manifest.lean transliterates (a changed AST escalates the search, it is not a verdict)
PINS = [("androguard/core/apk/__init__.py", "APK._apk_analysis"), ("androguard/core/apk/__init__.py", "APK._format_value"), ("androguard/core/apk/__init__.py", "APK.get_all_attribute_value"), ("androguard/core/apk/__init__.py", "APK.get_attribute_value"),
        ("androguard/core/apk/__init__.py", "APK.get_value_from_tag"), ("androguard/core/apk/__init__.py", "APK.find_tags"), ("androguard/core/apk/__init__.py", "APK.find_tags_from_xml"), ("androguard/core/apk/__init__.py", "APK.is_tag_matched"),
        ("androguard/core/apk/__init__.py", "APK._get_permission_maxsdk"), ("androguard/core/apk/__init__.py", "APK.get_main_activities"), ("androguard/core/apk/__init__.py", "APK.get_main_activity"),
        ("androguard/core/apk/__init__.py", "APK.get_activities"), ("androguard/core/apk/__init__.py", "APK.get_services"), ("androguard/core/apk/__init__.py", "APK.get_receivers"), ("androguard/core/apk/__init__.py", "APK.get_providers"),
        ("androguard/core/apk/__init__.py", "APK.get_libraries"), ("androguard/core/apk/__init__.py", "APK.get_features"), ("androguard/core/apk/__init__.py", "APK.get_permissions"), ("androguard/core/apk/__init__.py", "APK.get_package"),
        ("androguard/core/apk/__init__.py", "APK.get_androidversion_code"), ("androguard/core/apk/__init__.py", "APK.get_androidversion_name"), ("androguard/core/apk/__init__.py", "APK.get_min_sdk_version"),
        ("androguard/core/apk/__init__.py", "APK.get_target_sdk_version"), ("androguard/core/apk/__init__.py", "APK.get_max_sdk_version"), ("androguard/core/apk/__init__.py", "APK.get_effective_target_sdk_version")]
CORPUS = os.path.join(os.path.dirname(os.path.dirname(os.path.dirname(os.path.abspath(__file__)))), "corpus", "C31")
MAIN, LAUNCHER = "android.intent.action.MAIN", "android.intent.category.LAUNCHER"


def cps(s):
    return "-" if not s else ".".join("%x" % ord(c) for c in s)


def make_zip(entries):
    try:
        from harness.zipwriter import write_zip
        return write_zip([(n, d, c) for n, d, c in entries])
    except ImportError:
        import io, zipfile
        b = io.BytesIO()
        with zipfile.ZipFile(b, "w") as z:
            for n, d, c in entries:
                z.writestr(zipfile.ZipInfo(n), d, zipfile.ZIP_DEFLATED if c else zipfile.ZIP_STORED)
        return b.getvalue()


# ------------------------------------------------------------------ manifest model (the oracle's data)
PKGS = ["com.example.app", "org.x", "a.b.c.d", "app", "com.Ünï.app", "x1.y_2"]
CLASS_NAMES = [".Main", ".ui.Settings", "Main", "Launcher", "com.example.app.Main", "com.other.lib.Act", "a.B$C", ".a", "b", "Z9", "x.y"]
PERMS = ["android.permission.INTERNET", "android.permission.CAMERA", "android.permission.READ_CONTACTS", "com.example.app.permission.C2D",
         "com.vendor.PERM", "MY_PERMISSION", "WRITE", ".relative", "android.permission.WRITE_EXTERNAL_STORAGE"]
FEATURES = ["android.hardware.camera", "android.hardware.touchscreen", "android.software.leanback", "android.hardware.type.watch", "custom_feature",
            "nfc"]
LIBS = ["org.apache.http.legacy", "com.google.android.maps", "android.test.runner", "javax.obex", "vendorlib", ".lib"]


def gen_model(rng):
    m = {"package": rng.choice(PKGS), "version_code": rng.choice((None, 1, 42, 2 ** 31 - 1, 0, rng.randrange(1, 10 ** 6))),
         "version_name": rng.choice((None, "1.0", "2.3.4-beta", "7", "v é"))}     # "" is read as absent (`a or b` idiom): not judged
    m["uses_permissions"] = [(rng.choice(PERMS), rng.choice((None, None, None, 18, 22, 28))) for _ in range(rng.choice((0, 1, 2, 3, 5)))]
    if rng.random() < 0.3 and m["uses_permissions"]:
        m["uses_permissions"].append(rng.choice(m["uses_permissions"]))          # a permission requested twice

    def comp(kind, unique):
        name = rng.choice(CLASS_NAMES) if not unique else "u%d.%s" % (len(unique), rng.choice(("A", "B", ".C")).lstrip("."))
        return {"name": name}
    acts = []
    n_act = rng.choice((0, 1, 1, 2, 3, 4))
    used = set()
    for i in range(n_act + rng.choice((0, 0, 1))):
        alias = i >= n_act
        kind = rng.choice(("plain", "plain", "main", "main", "main-disabled", "only-main", "only-launcher", "split"))
        # an activity that takes part in the MAIN/LAUNCHER decision has a name of its own (two activities sharing a
        # name and each contributing half of the pair would be merged by name)
        name = rng.choice(CLASS_NAMES)
        if kind != "plain" or name in used:
            name = rng.choice(("", ".", "com.q.")) + "N%d" % i
        used.add(name)
        filters = []
        if kind in ("main", "main-disabled"):
            filters.append(([MAIN] + rng.choice(([], ["android.intent.action.VIEW"])), [LAUNCHER] + rng.choice(([], ["android.intent.category.DEFAULT"]))))
        elif kind == "only-main":
            filters.append(([MAIN], rng.choice(([], ["android.intent.category.DEFAULT"]))))
        elif kind == "only-launcher":
            filters.append((["android.intent.action.VIEW"], [LAUNCHER]))
        elif kind == "split":       # MAIN and LAUNCHER in different filters of one component
            filters.append(([MAIN], rng.choice(([], ["android.intent.category.DEFAULT"]))))
            filters.append((["android.intent.action.VIEW"], [LAUNCHER]))
        if rng.random() < 0.3:
            filters.append((["android.intent.action.SEND"], ["android.intent.category.DEFAULT"]))
            rng.shuffle(filters)
        enabled = False if kind == "main-disabled" else rng.choice((None, None, True))
        acts.append({"alias": alias, "name": name, "enabled": enabled, "filters": filters,
                     "target": rng.choice(CLASS_NAMES) if alias else None})
    m["activities"] = acts
    for k in ("services", "receivers", "providers"):
        m[k] = [rng.choice(CLASS_NAMES) for _ in range(rng.choice((0, 0, 1, 2, 3)))]
    m["uses_sdk"] = rng.choice((None, {"min": 21}, {"min": 16, "target": 33}, {"target": 28}, {"min": 1, "target": 10000, "max": 34},
                                {"min": rng.randrange(1, 36), "target": rng.randrange(1, 36)}, {"max": 30}, {}))
    m["features"] = [rng.choice(FEATURES + [None]) for _ in range(rng.choice((0, 0, 1, 2, 3)))]      # None: glEsVersion only
    m["libraries"] = [rng.choice(LIBS) for _ in range(rng.choice((0, 0, 1, 2)))]
    m["sdk_as_string"] = rng.random() < 0.2
    m["decoys"] = rng.random() < 0.5
    return m


def to_xml(m, rng, ids):
    """the AndroidManifest.xml a build tool would emit for the model"""
    def a(name, value, ns=A):
        return W.Attr(ns, name, value, ids.get(name) if ns == A else None)

    def sdkval(v):
        return W.S(str(v)) if m["sdk_as_string"] else W.I(v)
    root = W.Element("manifest", None, [], [], nsdecls=[("android", A)])
    if m["version_code"] is not None:
        root.attrs.append(a("versionCode", W.I(m["version_code"])))
    if m["version_name"] is not None:
        root.attrs.append(a("versionName", W.S(m["version_name"])))
    if m["package"] is not None:
        root.attrs.append(W.Attr(None, "package", W.S(m["package"])))
    top = []
    if m["uses_sdk"] is not None:
        e = W.Element("uses-sdk")
        for k, n in (("min", "minSdkVersion"), ("target", "targetSdkVersion"), ("max", "maxSdkVersion")):
            if k in m["uses_sdk"]:
                e.attrs.append(a(n, sdkval(m["uses_sdk"][k])))
        top.append(e)
    for name, mx in m["uses_permissions"]:
        e = W.Element("uses-permission", None, [a("name", W.S(name))])
        if mx is not None:
            e.attrs.append(a("maxSdkVersion", W.I(mx)))
        top.append(e)
    for f in m["features"]:
        e = W.Element("uses-feature")
        if f is None:
            e.attrs.append(a("glEsVersion", W.Hex(0x00020000)))
        else:
            e.attrs.append(a("name", W.S(f)))
            if rng.random() < 0.5:
                e.attrs.append(a("required", W.B(rng.random() < 0.5)))
        top.append(e)
    app = W.Element("application", None, [a("label", W.S("App"))] if rng.random() < 0.5 else [])
    for act in m["activities"]:
        e = W.Element("activity-alias" if act["alias"] else "activity", None, [a("name", W.S(act["name"]))])
        if act["enabled"] is not None:
            e.attrs.append(a("enabled", W.B(act["enabled"])))
        if act["alias"]:
            e.attrs.append(a("targetActivity", W.S(act["target"])))
        for actions, cats in act["filters"]:
            f = W.Element("intent-filter")
            f.children += [W.Element("action", None, [a("name", W.S(x))]) for x in actions]
            f.children += [W.Element("category", None, [a("name", W.S(x))]) for x in cats]
            e.children.append(f)
        if m["decoys"] and rng.random() < 0.3:
            e.children.append(W.Element("meta-data", None, [a("name", W.S("k")), a("value", W.S(MAIN))]))
        app.children.append(e)
    for tag, key in (("service", "services"), ("receiver", "receivers"), ("provider", "providers")):
        for n in m[key]:
            e = W.Element(tag, None, [a("name", W.S(n))])
            if tag == "provider":
                e.attrs.append(a("authorities", W.S("auth." + n.strip("."))))
            app.children.append(e)
    for n in m["libraries"]:
        app.children.append(W.Element("uses-library", None, [a("name", W.S(n))]))
    if m["decoys"]:
        app.children.append(W.Element("meta-data", None, [a("name", W.S("activity")), a("value", W.S("service"))]))
        if rng.random() < 0.3:
            app.children.append(W.Text("\n    "))
    top.append(app)
    rng.shuffle(top)
    root.children = top
    return root


def complete(pkg, name):
    """Android's rule for component class names (PackageParser.buildClassName)"""
    if not name or not pkg:
        return name
    if name[0] == ".":
        return pkg + name
    if "." not in name:
        return pkg + "." + name
    return name


def oracle(m):
    pkg = m["package"]
    o = {"pkg": pkg, "vc": None if m["version_code"] is None else str(m["version_code"]), "vn": m["version_name"],
         "perms": sorted(set(n for n, _ in m["uses_permissions"])),
         "uses": sorted(((n, mx) for n, mx in m["uses_permissions"]), key=lambda x: (x[0], x[1] is None, x[1] or 0)),
         "act": sorted(complete(pkg, a["name"]) for a in m["activities"] if not a["alias"]),
         "svc": sorted(complete(pkg, n) for n in m["services"]), "rcv": sorted(complete(pkg, n) for n in m["receivers"]),
         "prv": sorted(complete(pkg, n) for n in m["providers"]),
         "lib": sorted(m["libraries"]), "feat": sorted(f for f in m["features"] if f is not None)}
    # "main activity" in androguard's documented sense (the interpretation this property takes): a NAME under which an enabled
    # activity / alias declares the action MAIN and an enabled activity / alias declares the category LAUNCHER (Android's launcher
    # wants both in one filter; the notions differ only when they sit in different filters)
    live = [a for a in m["activities"] if a["enabled"] is not False]
    has_main = set(a["name"] for a in live if any(MAIN in ac for ac, _ in a["filters"]))
    has_launcher = set(a["name"] for a in live if any(LAUNCHER in ca for _, ca in a["filters"]))
    mains = sorted(set(complete(pkg, n) for n in has_main & has_launcher))
    o["mains"] = mains
    sdk = m["uses_sdk"] or {}
    o["min"], o["target"], o["max"] = (None if k not in sdk else str(sdk[k]) for k in ("min", "target", "max"))
    o["eff"] = sdk.get("target", sdk.get("min", 1))
    return o


# ------------------------------------------------------------------ the real code
def open_apk(apk_bytes):
    from androguard.core.apk import APK
    try:
        return APK(apk_bytes, raw=True), None
    except Exception as e:  # noqa
        return None, "exc " + type(e).__name__


def snapshot(a):
    """the judged queries on an APK object (none of them is supposed to change the object)"""
    def g(f):
        try:
            return f()
        except Exception as e:  # noqa
            return ("!", type(e).__name__)
    return {"pkg": g(a.get_package), "vc": g(a.get_androidversion_code), "vn": g(a.get_androidversion_name),
            "perms": g(lambda: list(a.get_permissions())), "uses": g(lambda: [list(x) for x in a.uses_permissions]),
            "act": g(a.get_activities), "svc": g(a.get_services),
            "rcv": g(a.get_receivers), "prv": g(a.get_providers), "lib": g(a.get_libraries), "feat": g(a.get_features),
            "mains": g(lambda: sorted(a.get_main_activities())), "main": g(a.get_main_activity), "min": g(a.get_min_sdk_version),
            "target": g(a.get_target_sdk_version), "max": g(a.get_max_sdk_version), "eff": g(a.get_effective_target_sdk_version)}


def observe(apk_bytes):
    a, err = open_apk(apk_bytes)
    if err:
        return None, err
    return snapshot(a), None


# ------------------------------------------------------------------ histories of read-only queries on one object
# queries that have nothing to do with the manifest (archive, signatures, DEX): not part of the history
NOT_MANIFEST = ("get_files", "get_raw", "get_dex", "get_all_dex", "get_file", "get_certificate", "get_public_keys", "get_signature",
                "is_signed", "get_filename", "is_multidex", "get_hash_algorithm")
# queries whose result is a fresh container on the unchanged code: a caller may do with it what it likes
FRESH = ("get_activities", "get_services", "get_receivers", "get_providers", "get_libraries", "get_features", "get_main_activities",
         "get_activity_aliases", "get_declared_permissions", "get_requested_third_party_permissions", "get_requested_aosp_permissions",
         "get_uses_implied_permission_list")


def readonly_queries():
    """every public `get_*` / `is_*` method of APK that can be called without arguments (reflection), manifest-related"""
    import inspect
    from androguard.core.apk import APK
    out = []
    for name, fn in inspect.getmembers(APK, inspect.isfunction):
        if not (name.startswith("get_") or name.startswith("is_")) or name.startswith(NOT_MANIFEST):
            continue
        params = list(inspect.signature(fn).parameters.values())[1:]
        if any(p.default is inspect.Parameter.empty and p.kind in (p.POSITIONAL_ONLY, p.POSITIONAL_OR_KEYWORD, p.KEYWORD_ONLY) for p in params):
            continue
        out.append(name)
    return sorted(out)


def call_query(a, name, m, rng, mutate):
    """one history step: call the query like a caller would (guarded), optionally spoil the returned container"""
    try:
        if name == "get_intent_filters@":
            acts = [x["name"] for x in m["activities"]] or ["none"]
            r = a.get_intent_filters(rng.choice(("activity", "activity-alias", "service")), rng.choice(acts))
        else:
            r = getattr(a, name)()
        if mutate and name in FRESH and isinstance(r, (list, set, dict)):
            r.clear()
        elif r is not None and not isinstance(r, (str, bytes, int, bool, list, set, dict, tuple)) and hasattr(r, "__next__"):
            for _ in r:          # generators are consumed
                pass
        return "ok"
    except Exception as e:  # noqa
        return "!" + type(e).__name__


def run_history(ck, m, ax, apk, hist, case, mutate, rng):
    """hist: list of query names. The judged queries are asked on the fresh object and after every step; since all of
    them are read-only, each answer must be the manifest's value at every point.  Returns (#steps, failed?)."""
    a, err = open_apk(apk)
    if err:
        ck.fail(case, "APK with a well-formed manifest cannot be analysed", None, "analysis", err)
        return 0, True
    done = []
    if judge(ck, m, snapshot(a), None, dict(case, history=[]), where="on the fresh object"):
        return 0, True
    for name in hist:
        outcome = call_query(a, name, m, rng, mutate)
        done.append(name)
        if judge(ck, m, snapshot(a), None, dict(case, history=list(done)), where="after " + " ".join(done[-3:]) + " (%s)" % outcome):
            return len(done), True
    return len(done), False


def canon(obs):
    def one(v):
        if isinstance(v, tuple) and v and v[0] == "!":
            return "!" + v[1]
        if v is None:
            return "None"
        if isinstance(v, int):
            return str(v)
        return cps(v)

    def lst(v):
        if isinstance(v, tuple) and v and v[0] == "!":
            return "!" + v[1]
        return "[" + " ".join(sorted(one(x) for x in v)) + "]"

    def uses(v):
        if isinstance(v, tuple) and v and v[0] == "!":
            return "!" + v[1]
        return "[" + " ".join(sorted(one(n) + "/" + one(mx) for n, mx in v)) + "]"
    return ("pkg=%s vc=%s vn=%s perms=%s uses=%s act=%s svc=%s rcv=%s prv=%s lib=%s feat=%s mains=%s main=%s min=%s target=%s max=%s eff=%s" % (
        one(obs["pkg"]), one(obs["vc"]), one(obs["vn"]), lst(obs["perms"]), uses(obs["uses"]), lst(obs["act"]), lst(obs["svc"]),
        lst(obs["rcv"]), lst(obs["prv"]), lst(obs["lib"]), lst(obs["feat"]), lst(obs["mains"]), one(obs["main"]), one(obs["min"]),
        one(obs["target"]), one(obs["max"]), one(obs["eff"])))


def judge(ck, m, obs, err, case, where=""):
    o = oracle(m)
    if err is not None:
        ck.fail(case, "APK with a well-formed manifest cannot be analysed", None, "analysis", err); return True
    bad = []

    def want(key, exp, got, as_sorted=False):
        if isinstance(got, tuple) and got and got[0] == "!":
            bad.append((key, exp, "raises " + got[1])); return
        if as_sorted:
            got = sorted(got, key=lambda x: (x is None, x)) if got is not None else got
        if got != exp:
            bad.append((key, exp, got))
    want("package", o["pkg"], obs["pkg"])
    want("versionCode", o["vc"], obs["vc"])
    want("versionName", o["vn"], obs["vn"])
    perms = obs["perms"]
    if isinstance(perms, list) and len(perms) != len(set(perms)):
        bad.append(("permissions-duplicates", "no duplicates", perms))
    want("permissions", o["perms"], perms, True)
    want("uses_permissions(maxSdkVersion)", [list(x) for x in o["uses"]],
         sorted(([n, mx] for n, mx in obs["uses"]), key=lambda x: (x[0], x[1] is None, x[1] or 0)) if isinstance(obs["uses"], list) else obs["uses"])
    for key, name in (("act", "activities"), ("svc", "services"), ("rcv", "receivers"), ("prv", "providers"), ("lib", "libraries"),
                      ("feat", "features")):
        want(name, o[key], obs[key], True)
    want("main activities", o["mains"], sorted(complete(m["package"], x) for x in obs["mains"]) if isinstance(obs["mains"], list) else obs["mains"])
    if not o["mains"]:
        want("main activity", None, obs["main"])
    elif len(o["mains"]) == 1:
        want("main activity", o["mains"][0], obs["main"])
    elif obs["main"] not in o["mains"]:
        bad.append(("main activity", "one of %r" % o["mains"], obs["main"]))
    want("minSdkVersion", o["min"], obs["min"]); want("targetSdkVersion", o["target"], obs["target"]); want("maxSdkVersion", o["max"], obs["max"])
    want("effective target SDK", o["eff"], obs["eff"])
    if bad:
        key, exp, got = bad[0]
        ck.fail(case, f"query '{key}' does not report what the manifest declares" + (" " + where if where else ""), None,
                repr(exp)[:400], repr(got)[:400])
        return True
    return False


# ------------------------------------------------------------------ hostile manifests (correspondence only)
def gen_hostile(rng, ids):
    m = gen_model(rng)
    root = to_xml(m, rng, ids)
    r = rng.random()
    if r < 0.08:
        root.tag = rng.choice(("Manifest", "manifests", "application"))
    elif r < 0.12:
        root.ns = A
    elif r < 0.2:
        root.attrs = [x for x in root.attrs if x.name != "package"]

    def walk(e, depth):
        for at in e.attrs:
            q = rng.random()
            if q < 0.1:
                at.ns, at.res_id = None, None                      # bare attribute
            elif q < 0.14:
                at.value = W.S(rng.choice(("", " 12 ", "+7", "-3", "1_0", "Q", "12a", "0x10", "١٢", "false", "False", "true", ".", "..", "a.", "٣")))
            elif q < 0.17:
                at.value = W.Val(rng.choice((W.TYPE_INT_DEC, W.TYPE_INT_HEX, W.TYPE_INT_BOOLEAN, W.TYPE_REFERENCE)), axmlgen.data32(rng))
        if rng.random() < 0.06 and e.attrs:
            d = e.attrs[rng.randrange(len(e.attrs))]
            e.attrs.append(W.Attr(None if d.ns else A, d.name, W.S(rng.choice(("dup", "", "x.y")))))
        if rng.random() < 0.05:
            e.ns = A                                                # <android:uses-permission ...>
        for c in list(e.children):
            if isinstance(c, W.Element):
                walk(c, depth + 1)
        if depth >= 1 and rng.random() < 0.08:
            e.children.append(W.Element(rng.choice(("uses-permission", "activity", "uses-sdk", "action", "service", "manifest", "uses-feature")),
                                        None, [W.Attr(A, "name", W.S(rng.choice(PERMS + CLASS_NAMES + [MAIN])), ids.get("name"))]))
    walk(root, 0)
    return root


def run(ck: Check):
    rng = ck.rng
    ck.pins_changed(PINS)
    big = (not ck.quick) or ck.escalated
    ck.run_gen("axmlconsts")
    ck.prove(exes=["drv_C31"])
    drv = Driver("drv_C31")
    sysattrs = axmlgen.sys_attrs(REPO)
    ids = {n: i for i, n in sysattrs.items()}
    ck.rule = ("random manifest models (package with / without dots, version code and name, 0-6 uses-permission with maxSdkVersion and "
               "repeats, 0-5 activities and aliases with MAIN/LAUNCHER filters and enabled flags, services, receivers, providers, uses-sdk "
               "variants, features, libraries, decoy elements) -> AXML (UTF-8 / UTF-16) -> zip -> APK(raw=True); distinct = distinct "
               "manifest bytes; non-trivial = at least one component or permission")
    skipped = {"unmodelled": 0, "ambiguous": 0}

    def correspond(stream, pairs):
        reqs = ["manifest " + ax.hex() for ax, _ in pairs]
        model = drv.ask(reqs)
        rq, a, b = [], [], []
        for (ax, real), mline in zip(pairs, model):
            if "unmodelled" in mline:
                skipped["unmodelled"] += 1; continue
            if "ambiguous" in mline:
                skipped["ambiguous"] += 1; continue
            rq.append("manifest " + ax.hex()); a.append(real); b.append(mline)
        ck.compare(stream, rq, a, b)

    # corpus first
    for p in sorted(glob.glob(os.path.join(CORPUS, "*.json"))):
        j = json.load(open(p))
        m = j["model"]
        m["uses_permissions"] = [tuple(x) for x in m["uses_permissions"]]
        for a in m["activities"]:
            a["filters"] = [tuple(f) for f in a["filters"]]
        ax = W.encode_axml(to_xml(m, rng, ids))
        obs, err = observe(make_zip([("AndroidManifest.xml", ax, True)]))
        judge(ck, m, obs, err, {"corpus": os.path.basename(p), "model": m})
        ck.cover(evaluations=1)

    n = 700 if ck.quick else 40000
    if ck.quick and ck.escalated:
        n = 3000
    pairs, distinct, samples, built = [], [], [], []
    dist = {"models": 0, "permissions": 0, "components": 0, "with_main": 0, "multi_main": 0, "no_uses_sdk": 0, "utf8": 0}
    for i in range(n):
        m = gen_model(rng)
        utf8 = rng.random() < 0.5
        ax = W.encode_axml(to_xml(m, rng, ids), utf8=utf8)
        entries = [("AndroidManifest.xml", ax, rng.random() < 0.7)]
        if rng.random() < 0.5:
            entries.insert(rng.randrange(2), ("classes.dex", b"dex\n035\x00" + bytes(8), False))
        apk = make_zip(entries)
        obs, err = observe(apk)
        case = {"stream": "models", "index": i, "seed": ck.seed, "model": m, "utf8": utf8}
        judge(ck, m, obs, err, case)
        pairs.append((ax, err if err else canon(obs)))
        built.append((m, utf8, ax, apk))
        o = oracle(m)
        dist["models"] += 1; dist["permissions"] += len(m["uses_permissions"]); dist["utf8"] += utf8
        dist["components"] += len(m["activities"]) + len(m["services"]) + len(m["receivers"]) + len(m["providers"])
        dist["with_main"] += bool(o["mains"]); dist["multi_main"] += len(o["mains"]) > 1; dist["no_uses_sdk"] += m["uses_sdk"] is None
        if m["uses_permissions"] or m["activities"] or m["services"]:
            distinct.append(ax)
        if i in (1, 2):
            samples.append({"model": {k: m[k] for k in ("package", "uses_permissions", "uses_sdk")}, "observed": canon(obs)[:300] if obs else err})
    correspond("manifest-models", pairs)
    ck.cover(evaluations=n, distinct=distinct, samples=samples, dist=dist)

    # ---- histories: every read-only query of APK that touches the manifest, in a seeded random order, twice, on ONE object;
    # the judged queries are asked on the fresh object and after every step and must always report the manifest's values
    queries = readonly_queries() + ["get_intent_filters@"]
    n_hist = (5000 if not ck.quick else 1000) if big else 250
    hd = {"history_objects": 0, "history_steps": 0, "history_with_label": 0, "history_no_label_with_launcher": 0,
          "history_several_launchers": 0, "history_mutating": 0, "history_queries": len(queries)}
    hfail = 0
    for i, (m, utf8, ax, apk) in enumerate(built[:n_hist]):
        hist = queries + queries
        rng.shuffle(hist)
        mutate = i % 2 == 1
        case = {"stream": "history", "index": i, "seed": ck.seed, "model": m, "utf8": utf8, "axml_hex": ax.hex(), "mutate_returned": mutate}
        steps, failed = run_history(ck, m, ax, apk, hist, case, mutate, rng)
        o = oracle(m)
        labelled = b"l\x00a\x00b\x00e\x00l\x00" in ax or b"label" in ax
        hd["history_objects"] += 1; hd["history_steps"] += steps; hd["history_with_label"] += labelled
        hd["history_no_label_with_launcher"] += (not labelled) and bool(o["mains"])
        hd["history_several_launchers"] += len(o["mains"]) > 1; hd["history_mutating"] += mutate
        hfail += failed
        if hfail >= 5:
            break
    ck.cover(evaluations=hd["history_steps"], dist=hd,
             samples=[{"history_queries": queries[:60]}])
    ck.notes.append("history stream: the Lean model's queries are pure functions of the XML tree, hence trivially independent of the call "
                    "history; the real object is asked every reflected get_*/is_* query twice in random order with the judged queries "
                    "after each step; on odd objects the containers returned by queries that build a fresh container on the unchanged "
                    "code are cleared by the caller")

    pairs = []
    kinds = {}
    for i in range(n):
        ax = W.encode_axml(gen_hostile(rng, ids), utf8=rng.random() < 0.5)
        obs, err = observe(make_zip([("AndroidManifest.xml", ax, True)]))
        line = err if err else canon(obs)
        pairs.append((ax, line))
        k = "exc" if err else ("vc-keyerror" if "vc=!KeyError" in line else "analysed")
        kinds[k] = kinds.get(k, 0) + 1
    correspond("manifest-hostile", pairs)
    ck.cover(dist={"hostile_outcomes": kinds})

    # _format_value and int() directly
    from androguard.core.apk import APK
    stub = APK.__new__(APK)
    reqs, real = [], []
    for pkg in [None, "", "com.x", "p"]:
        for v in ["", ".", ".A", "A", "a.B", "..", "A.", "é", ".é.x", "a b"] + [rng.choice(CLASS_NAMES) for _ in range(5)]:
            stub.package = pkg
            reqs.append("fmtval %s %s" % ("None" if pkg is None else cps(pkg), cps(v))); real.append(cps(stub._format_value(v)))
    ck.compare("format-value", reqs, real, drv.ask(reqs))
    reqs, real = [], []
    for s in ["", "0", "7", "-7", "+7", " 7", "7 ", "\t7\n", "1_0", "_1", "1_", "1__0", "+", "-", "+-1", "- 1", "0x10", "1e3", "007", "12a", "a", "1 2",
              "\x1c5\x1f", "\x0b8\x0c", "99999999999999999999", "-0"] + ["".join(rng.choice("0123456789_+- a") for _ in range(rng.randrange(1, 6))) for _ in range(300)]:
        try:
            r = str(int(s))
        except ValueError:
            r = "None ValueError"
        reqs.append("pyint " + cps(s)); real.append(r)
    ck.compare("python-int", reqs, real, drv.ask(reqs))
    ck.cover(dist={"skipped": skipped})
    ck.partial.append("the theorems go from the bytes of AndroidManifest.xml to the answers (manifest_queries_on_file: C26 printer model composed "
                      "with the query model, for every well-formed manifest of Spec/ManifestFull.AppManifest and every AXML encoding choice); that "
                      "those bytes are what apkInspector reads out of the archive, and that lxml / CPython's codecs behave like their models, is "
                      "covered by the correspondence and the oracle only")
    ck.notes.append("theorem domain: AppManifest.WF (non-empty names / values; MAIN and LAUNCHER under one component name sit in one filter), "
                    "AppManifest.fits (uint32 data) and C26's wfDoc for the chosen encoding (manifest_doc_wf spells it out; the canonical encoding "
                    "always satisfies it, manifest_queries_on_canonical_file); manifests outside it (hostile stream) are compared with the "
                    "model only")
    ck.assumptions.append("results that androguard produces by iterating a Python set of lxml elements are compared as sorted lists; "
                          "lxml findall/get and the zip reader (apkInspector) are modelled, not verified")
    ck.assumptions.append("interpretation: 'main activity' is androguard's documented notion: a name under which an enabled activity or alias declares the "
                          "action MAIN and an enabled activity or alias declares the category LAUNCHER (Android's launcher asks for both in one "
                          "filter; the notions differ only for MAIN and LAUNCHER in different filters, which the generator produces and the oracle "
                          "judges by the by-name notion; Lean: main_activities_of_model, main_name_vs_launcher_rule); "
                          "with several, any of them (androguard sorts); <uses-permission-sdk-23> is not a uses-permission")
    ck.notes.append("model describes the tree with fixes/C31-no-package-completion.diff (and the C26 fixes) applied")


def replay(ck: Check, rp):
    c = rp.get("case") or rp.get("first_divergence", {})
    if "history" in c and "axml_hex" in c:
        import random
        m = c["model"]
        m["uses_permissions"] = [tuple(x) for x in m["uses_permissions"]]
        for a in m["activities"]:
            a["filters"] = [tuple(f) for f in a["filters"]]
        apk = make_zip([("AndroidManifest.xml", bytes.fromhex(c["axml_hex"]), True)])
        a, err = open_apk(apk)
        print("history :", c["history"], "(returned containers cleared)" if c.get("mutate_returned") else "")
        print("oracle  :", oracle(m))
        print("fresh   :", err or snapshot(a))
        for name in c["history"]:
            print("  call", name, "->", call_query(a, name, m, random.Random(0), c.get("mutate_returned")))
        print("after   :", err or snapshot(a))
        print("expected:", rp.get("expected"), "\nobserved:", rp.get("observed"))
        return 0
    if "model" in c:
        import random
        sysattrs = axmlgen.sys_attrs(REPO)
        ids = {n: i for i, n in sysattrs.items()}
        m = c["model"]
        m["uses_permissions"] = [tuple(x) for x in m["uses_permissions"]]
        for a in m["activities"]:
            a["filters"] = [tuple(f) for f in a["filters"]]
        ax = W.encode_axml(to_xml(m, random.Random(0), ids), utf8=bool(c.get("utf8")))
        obs, err = observe(make_zip([("AndroidManifest.xml", ax, True)]))
        print("model   :", json.dumps(m)[:1500])
        print("oracle  :", oracle(m))
        print("observed:", err or obs)
    if "request" in c:
        ax = bytes.fromhex(c["request"].split(" ")[1])
        obs, err = observe(make_zip([("AndroidManifest.xml", ax, True)]))
        print("real :", err or canon(obs))
        print("model:", Driver("drv_C31").ask([c["request"]])[0])
    if rp.get("expected") is not None:
        print("expected:", rp["expected"], "\nobserved:", rp.get("observed"))
    return 0
