"""C23 — Java string literals denote exactly the original string (DESIGN.md section 6, C23).

P: AgVerif.Props.C23 (literal_denotes for ALL strings, by induction, against Spec/JavaLex).
T: real writer.string / Writer.visit_constant vs the Lean model (drv_C23 `jstr`), plus the two Python
   primitives the model contains (`'%x' % n`, `c.encode('unicode-escape')`).
S: independent oracle = javac + a Java program that prints the UTF-16 code units of every literal;
   expected = Python's own UTF-16 encoder (surrogatepass). Shares nothing with the model.
   End-to-end: a DEX with const-string methods (harness/dexasm) is decompiled with DvMethod.get_source
   and the literal found in the source is judged by the same oracle.
"""
import glob
import json
import os
import re
import shutil
import subprocess
import tempfile

from harness.fw import Check, Driver, ToolFailure, VERIF

PER_METHOD = 2000
PER_CLASS = 4000

# hand-modelled functions (Model/JavaString.lean); a changed AST escalates the search (ck.pins_changed)
PINS = [("androguard/decompiler/writer.py", "string"),
        ("androguard/decompiler/writer.py", "Writer.visit_constant")]


# ------------------------------------------------------------------ real code
def real_string(s: str):
    from androguard.decompiler import writer
    try:
        return writer.string(s)
    except Exception as e:  # noqa
        return e


def real_visit_constant(s: str):
    """the literal as Writer.visit_constant writes it for a const-string constant"""
    from androguard.decompiler import writer
    from androguard.decompiler.instruction import Constant
    w = writer.Writer(None, None)
    try:
        Constant(s, 'Ljava/lang/String;').visit(w)
        return str(w)
    except Exception as e:  # noqa
        return e


def cps(s) -> str:
    return ".".join("%x" % ord(c) for c in s) if s else "-"


def canon(out) -> str:
    if isinstance(out, Exception):
        return "other:" + type(out).__name__
    return cps(out)


def expected_units(s: str):
    """UTF-16 code units of a Python str — CPython's encoder, not the model's arithmetic"""
    b = s.encode("utf-16-be", "surrogatepass")
    return [int.from_bytes(b[i:i + 2], "big") for i in range(0, len(b), 2)]


# ------------------------------------------------------------------ javac oracle
MAIN = """
import java.io.*;
public class Main {
  public static void main(String[] a) throws Exception {
    PrintStream o = new PrintStream(new BufferedOutputStream(new FileOutputStream(a[0]), 1 << 20), false, "US-ASCII");
    int n = Integer.parseInt(a[1]);
    StringBuilder sb = new StringBuilder();
    for (int k = 0; k < n; k++) {
      Class<?> c = Class.forName("B" + k);
      int m = (Integer) c.getMethod("count").invoke(null);
      for (int j = 0; j < m; j++) {
        String[] ss = (String[]) c.getMethod("get" + j).invoke(null);
        for (String s : ss) {
          sb.setLength(0);
          if (s == null) { o.println("null"); continue; }
          if (s.length() == 0) sb.append('-');
          for (int i = 0; i < s.length(); i++) { if (i > 0) sb.append('.'); sb.append(Integer.toHexString(s.charAt(i))); }
          o.println(sb);
        }
      }
    }
    o.close();
  }
}
"""


def _encodable(lit: str):
    try:
        lit.encode("utf-8")
        return True
    except UnicodeEncodeError:
        return False


def _write_classes(d, lits):
    """lits: list of source texts (each expected to be one Java expression of type String), one per line.
    Returns (number of classes, {(class number, line number): position in lits})."""
    nclass = 0
    where = {}
    for base in range(0, len(lits), PER_CLASS):
        chunk = lits[base:base + PER_CLASS]
        lines = [f"public class B{nclass} {{"]
        nm = 0
        for mb in range(0, len(chunk), PER_METHOD):
            lines.append(f"  public static String[] get{nm}() {{ return new String[] {{")
            part = chunk[mb:mb + PER_METHOD]
            for k, lit in enumerate(part):
                lines.append(lit + ("," if k + 1 < len(part) else ""))
                where[(nclass, len(lines))] = base + mb + k
            lines.append("  }; }")
            nm += 1
        lines.append(f"  public static int count() {{ return {nm}; }}")
        lines.append("}")
        with open(os.path.join(d, f"B{nclass}.java"), "w", encoding="utf-8", newline="") as f:
            f.write("\n".join(lines) + "\n")
        nclass += 1
    with open(os.path.join(d, "Main.java"), "w") as f:
        f.write(MAIN)
    return nclass, where


def _javac(d, nclass, timeout):
    files = [f"B{k}.java" for k in range(nclass)] + ["Main.java"]
    try:
        p = subprocess.run(["javac", "-encoding", "UTF-8", "-nowarn", "-Xmaxerrs", "60", "-J-Xss64m", "-d", d] + files,
                           cwd=d, capture_output=True, text=True, timeout=timeout)
    except subprocess.TimeoutExpired:
        raise ToolFailure("javac timed out")
    except FileNotFoundError:
        raise ToolFailure("javac is not installed")
    return p.returncode == 0, p.stdout + p.stderr


def _java(d, nclass, timeout):
    out = os.path.join(d, "out.txt")
    try:
        p = subprocess.run(["java", "-cp", d, "Main", out, str(nclass)], cwd=d, capture_output=True, text=True,
                           timeout=timeout)
    except subprocess.TimeoutExpired:
        raise ToolFailure("java timed out")
    if p.returncode != 0:
        raise ToolFailure("java oracle program failed: " + p.stderr[-500:])
    return open(out).read().split("\n")[:-1]


def java_read(lits, strings=None, timeout=1500):
    """What Java says each source text denotes. Returns a list: list of units | ('reject', msg).
    A text that cannot be compiled is located by bisection (one javac run per step).
    strings: the original strings (only to route the javac-17 defect shape to jls_read)."""
    res = [None] * len(lits)
    todo = []
    for i, l in enumerate(lits):
        if not isinstance(l, str):
            res[i] = ("reject", "no literal was produced")
        elif strings is not None and JAVAC_BUG_SHAPE.search(strings[i]):
            res[i] = jls_read(l)
        elif not _encodable(l):
            res[i] = ("reject", "the literal contains an unpaired surrogate and cannot be stored in a source file")
        else:
            todo.append(i)

    def attempt(idx):
        d = tempfile.mkdtemp(prefix="c23-")
        try:
            n, where = _write_classes(d, [lits[i] for i in idx])
            ok, log = _javac(d, n, timeout)
            if not ok:
                bad = {}
                for m in re.finditer(r"^B(\d+)\.java:(\d+): error: (.*)$", log, re.M):
                    pos = where.get((int(m.group(1)), int(m.group(2))))
                    if pos is not None:
                        bad.setdefault(idx[pos], m.group(3))
                return None, log, bad
            lines = _java(d, n, timeout)
            if len(lines) != len(idx):
                raise ToolFailure(f"java oracle printed {len(lines)} lines for {len(idx)} literals")
            return lines, "", {}
        finally:
            shutil.rmtree(d, ignore_errors=True)

    # a literal with a raw line terminator is a compile-time error by JLS 3.10.5 (and would shift the line numbers
    # that locate rejected literals below)
    for i in list(todo):
        if any(c in lits[i] for c in "\n\r"):
            res[i] = ("reject", "raw line terminator inside the literal (JLS 3.10.5)")
            todo.remove(i)

    idx = todo
    for _round in range(6):
        if not idx:
            break
        lines, log, bad = attempt(idx)
        if lines is not None:
            for i, ln in zip(idx, lines):
                res[i] = [] if ln == "-" else ("null",) if ln == "null" else [int(x, 16) for x in ln.split(".")]
            idx = []
            break
        if not bad:
            if len(idx) == 1:
                res[idx[0]] = ("reject", log[-800:])
                idx = []
            break
        for i, msg in bad.items():
            res[i] = ("reject", "javac: " + msg)
        idx = [i for i in idx if i not in bad]
    for i in idx:       # javac kept rejecting the batch (a grossly broken escaper): enough failing inputs are already named
        res[i] = ("unknown", "in a batch that javac rejects; not isolated")
    return res


# ------------------------------------------------------------------ javac 17 defect, and a JLS reader for its shape
# javac 17 (the only Java compiler installed) deviates from JLS 3.3 on one input shape: after an UNPAIRED HIGH
# SURROGATE its reader looks one character ahead for a low surrogate and, when that character is a backslash,
# forgets to restore its "previous character was a backslash" flag; the parity of the following run of
# backslashes is then off by one, so `"\ud83d\\u0041"` (D83D, backslash, u, 0, 0, 4, 1 by the JLS) is rejected
# with "illegal escape character" (the same happens when the backslashes are followed by any character that
# is written as a unicode escape). Strings in which an unpaired high surrogate is immediately followed by a
# backslash are therefore judged by the small reader below
# (JLS 3.3 + 3.10.5 + 3.10.7 written from the text of the specification, independent of the Lean model)
# instead of javac; every other string is judged by javac.
JAVAC_BUG_SHAPE = re.compile("[\ud800-\udbff]\\\\")


def jls_read(src: str):
    """units denoted by `src` as exactly one string literal, or ('reject', why)"""
    hexd = "0123456789abcdefABCDEF"
    units, i, run = [], 0, 0               # run: contiguous raw backslashes just before position i
    while i < len(src):
        c = src[i]
        if c == "\\" and run % 2 == 0 and src[i + 1:i + 2] == "u":
            j = i + 1
            while src[j:j + 1] == "u":
                j += 1
            h = src[j:j + 4]
            if len(h) < 4 or any(x not in hexd for x in h):
                return ("reject", "malformed unicode escape")
            units.append(int(h, 16)); i = j + 4; run = 0
            continue
        units += expected_units(c)
        run = run + 1 if c == "\\" else 0
        i += 1
    if len(units) < 2 or units[0] != 0x22:
        return ("reject", "no opening quote")
    out, i = [], 1
    simple = {0x62: 8, 0x73: 0x20, 0x74: 9, 0x6e: 10, 0x66: 12, 0x72: 13, 0x22: 0x22, 0x27: 0x27, 0x5c: 0x5c}
    while True:
        if i >= len(units):
            return ("reject", "unterminated")
        u = units[i]
        if u == 0x22:
            return out if i == len(units) - 1 else ("reject", "text after the closing quote")
        if u in (10, 13):
            return ("reject", "line terminator in literal")
        if u != 0x5c:
            out.append(u); i += 1
            continue
        e = units[i + 1] if i + 1 < len(units) else None
        if e in simple:
            out.append(simple[e]); i += 2
        elif e is not None and 0x30 <= e <= 0x37:
            j = i + 1
            lim = 3 if e <= 0x33 else 2
            v = 0
            while j < len(units) and j - i - 1 < lim and 0x30 <= units[j] <= 0x37:
                v = v * 8 + units[j] - 0x30; j += 1
            out.append(v); i = j
        else:
            return ("reject", "illegal escape")


# ------------------------------------------------------------------ generators
TRAPS = [
    "", "\\", "\\\\", "\\u", "\\u0041", "\\\\u0041", "\\\\\\u0041", "\\uu0041", "\"", "\\\"", "'", "\\'", "\"\"\"",
    "\n", "\r", "\t", "\r\n", "\\n", "\\\n", "\x00", "\x7f", "\x80", "\x1f", " ", "~", "\u2028", "\u2029", "\x85",
    "\\u000a", "\\u0022", "\\u005c", "\u005cu005c", "a\\", "\\u005c\"", "*/", "//", "/*", "\\0", "\\377", "\\s", "\\b",
    "\U0001F600", "\U00010000", "\U0010FFFF", "\ud800", "\udbff", "\udc00", "\udfff", "\ud83d\ude00", "\ude00\ud83d",
    "\ud83d\\ude00", "\ud83d\U0001F600", "\uffff", "\ufffe", "\ufeff", "\ud7ff", "\ue000", "\u00e9", "\u1f60" + "0",
    "u1f600", "\\U0001F600", "\U0001F600" * 3, "\\" * 7 + "u0041", "end\\", "\\\\\\", "\"+\"", "\";//",
]

ALPHA = ["\\", "\\", "u", "u", "\"", "'", "0", "4", "1", "a", "f", "n", "r", "t", "\n", "\r", "\t", " ", "x", "\x00",
         "\x7f"]


def rand_string(rng):
    n = rng.choice((1, 2, 2, 3, 4, 6, 9, 14, 24))
    kind = rng.randrange(6)
    out = []
    for _ in range(n):
        k = kind if kind < 5 else rng.randrange(5)
        if k == 0:
            out.append(rng.choice(ALPHA))
        elif k == 1:
            out.append(chr(rng.randrange(0x110000)))
        elif k == 2:
            out.append(chr(rng.choice((rng.randrange(0xD800, 0xE000), rng.randrange(0x10000, 0x110000),
                                       rng.randrange(0x80), rng.randrange(0x10000)))))
        elif k == 3:
            out.append(chr(rng.randrange(0x100)))
        else:
            out.append(rng.choice(ALPHA + [chr(rng.randrange(0x110000)), chr(rng.randrange(0xD800, 0xE000))]))
    return "".join(out)


# ---- escape-like text: strings that CONTAIN the text of escapes in many syntaxes. An escaper that works per
# character is indifferent to them; one that post-processes its own output (codec + regex, double unescaping ...)
# is not. Systematic part first (deterministic), then seeded combinations.
HEXSRC = "000001f600"
CTX = ["", "\x01", "\U0001F600", "\ud83d", "\udc00", "\"", "a", "\n", "\x7f", "\u00e9"]


def _hexrun(n, upper=False, rng=None):
    h = HEXSRC[-n:] if rng is None else "".join(rng.choice("0123456789abcdef") for _ in range(n))
    return h.upper() if upper else h


def escape_like_systematic():
    out = []
    B = "BSL"
    for k in (1, 2, 3):
        for ctx in CTX[:5]:
            for n in range(1, 11):
                for up in (False, True):
                    for lead in ("u", "U", "x", "uu", "uuu", "x{", "N{", "0", "1", "3", "7", "u+", "U+"):
                        out.append(ctx + B * k + lead + _hexrun(n, up) + ("}" if lead.endswith("{") else ""))
            for e in "btnfrs0\"'BSLuUxN":
                out.append(ctx + B * k + e)
            for o in ("0", "7", "12", "47", "177", "377", "400", "0000", "1234", "08", "19"):
                out.append(ctx + B * k + o)
    out += ["%5C%75%30%30%34%31", "%5cu0041", "%u1F600", "%U0001F600", "&#x1F600;", "&#128512;", "&#x5c;u0041", "U+1F600",
            "u0041", "U0001f600", "BSLN{LATIN SMALL LETTER A}", "BSLN{GRINNING FACE}", "BSLQBSLu0041BSLE", "$1", "${x}", "BSLp{L}",
            "BSLx{1F600}", "BSLu{1F600}", "BSLud83dBSLude00", "BSLuD83DBSLuDE00", "BSLU0001f600BSLU0001f601", "BSLBSLU0001f600",
            "BSLU0001f600\U0001F600", "\U0001F600BSLU0001f600", "BSLU0010ffff", "BSLU00110000", "BSLU00010000", "BSLU0000ffff",
            "BSLU0000d800", "BSLUffffffff", "BSLU00000041", "xBSLU0001f600y", "BSLuBSLU0001f600", "BSLu005cu0041", "BSLu005cBSLu005c"]
    return [x.replace(B, "\\") for x in out]


def escape_like_random(rng):
    parts = []
    for _ in range(rng.choice((1, 1, 2, 3))):
        ctx = rng.choice(CTX)
        k = rng.choice((1, 1, 1, 2, 2, 3, 4))
        kind = rng.randrange(9)
        n = rng.choice((1, 2, 3, 4, 4, 5, 6, 8, 8, 8, 9, 10))
        up = rng.random() < 0.3
        h = _hexrun(n, up, rng if rng.random() < 0.6 else None)
        if kind == 0: body = "u" * rng.choice((1, 1, 2, 3, 5)) + h
        elif kind == 1: body = "U" + h
        elif kind == 2: body = "x" + h
        elif kind == 3: body = "".join(rng.choice("01234567") for _ in range(rng.choice((1, 2, 3, 4))))
        elif kind == 4: body = rng.choice("btnfrs\"'0") + rng.choice(["", h])
        elif kind == 5: body = rng.choice(["N{", "x{", "u{", "p{"]) + rng.choice([h, "LATIN SMALL LETTER A"]) + "}"
        elif kind == 6: body = rng.choice(["U", "u"]) + rng.choice(["0001f600", "0010ffff", "00010000", "0000d83d", "d83d", "de00"])
        elif kind == 7:
            parts.append(ctx + rng.choice(["%5C", "%5c", "%u", "&#x", "&#", "U+", "0x"]) + h + rng.choice(["", ";"]))
            continue
        else: body = rng.choice("uUx") + h + rng.choice(["", "\\", "\\u", "\\U" + _hexrun(8, False, rng)])
        parts.append(ctx + "\\" * k + body)
    return "".join(parts)


def corpus_strings():
    out = []
    for p in sorted(glob.glob(os.path.join(VERIF, "corpus", "C23", "*.json"))):
        d = json.load(open(p))
        out.append("".join(chr(c) for c in d["cps"]))
    return out


def classify(s):
    k = set()
    for c in s:
        o = ord(c)
        if o >= 0x10000: k.add("supplementary")
        elif 0xD800 <= o < 0xE000: k.add("lone_surrogate")
        elif o >= 0x80: k.add("bmp_non_ascii")
        elif c in "\"'\\": k.add("quote_or_backslash")
        elif o < 0x20 or o == 0x7f: k.add("control")
        else: k.add("printable_ascii")
    return k


# ------------------------------------------------------------------ end to end
def e2e_literals(strings):
    """build one DEX whose methods return the strings, decompile every method with DvMethod and pull
    the literal out of `return <literal>;`. Returns list of (literal | Exception)."""
    from harness import dexasm as A
    from androguard.core.dex import DEX
    from androguard.core.analysis.analysis import Analysis
    from androguard.decompiler.decompile import DvMethod
    b = A.DexBuilder()
    methods = []
    for i, s in enumerate(strings):
        def body(bb, s=s):
            code, _ = A.assemble([("const-string", 0, bb.string_idx(s)), ("return-object", 0)])
            return code
        b.extra_strings.append(s)
        methods.append(A.Method("m%d" % i, "Ljava/lang/String;", (), 0x9, A.Code(1, 0, 0, body)))
    b.add_class("LC23;", direct_methods=methods)
    d = DEX(b.build())
    dx = Analysis(d)
    out = {}
    for ma in dx.get_methods():
        if ma.is_external():
            continue
        name = ma.get_method().get_name()
        if not re.fullmatch(r"m\d+", name):
            continue
        try:
            dv = DvMethod(ma)
            dv.process()
            src = dv.get_source()
            mm = re.search(r"return (\".*\");\n", src, re.S)
            out[int(name[1:])] = mm.group(1) if mm else RuntimeError("no return literal in: " + src[-200:])
        except Exception as e:  # noqa
            out[int(name[1:])] = e
    return [out.get(i, RuntimeError("method missing")) for i in range(len(strings))]


# ------------------------------------------------------------------ judge
def judge(ck: Check, via, strings, literals, reads):
    nbad = 0
    for s, lit, rd in zip(strings, literals, reads):
        exp = expected_units(s)
        case = {"via": via, "cps": [ord(c) for c in s]}
        if isinstance(rd, tuple) and rd[0] == "unknown":
            continue
        if isinstance(rd, tuple):
            nbad += 1
            ck.fail(case, "Java does not accept what the decompiler wrote for this string constant as a string literal",
                    None, {"units": exp}, {"literal": canon(lit), "javac": rd[1][-600:]})
        elif rd != exp:
            nbad += 1
            ck.fail(case, "the written literal denotes a different string in Java", None,
                    {"units": exp}, {"literal": lit if isinstance(lit, str) and lit.isascii() else canon(lit), "units": rd})
    return nbad


def run(ck: Check):
    ck.pins_changed(PINS)                  # a changed string()/visit_constant escalates the search below
    ck.run_gen("jstring")                  # shape + literals of string(); an unrecognised shape = broken obligation
    ck.prove(exes=["drv_C23"])
    big = (not ck.quick) or getattr(ck, "escalated", False) or bool(ck.p_errors)
    drv = Driver("drv_C23")
    rng = ck.rng
    ck.rule = ("strings: corpus, hand-made traps (backslash-u, quotes, line terminators, surrogates), every BMP code point as a "
               "one-character string, supplementary code points singly (quick: planes' boundaries + seeded sample; thorough: all), "
               "seeded random strings over the full code-point range incl. unpaired surrogates, and an escape-like-text stream (strings "
               "containing the TEXT of escapes: backslash runs + u/U/x/N{}/octal/named + 1-10 hex digits in both cases, after control, "
               "supplementary and surrogate characters, percent and &#x; forms; systematic + seeded). distinct = distinct string; "
               "non-trivial = contains anything but unescaped printable ASCII")
    strings = corpus_strings() + list(TRAPS)
    strings += [chr(c) for c in range(0x10000)]
    if ck.quick:
        sup = {0x10000, 0x10001, 0x103FF, 0x10400, 0x1F600, 0x1FFFF, 0x20000, 0xFFFFF, 0x100000, 0x10FC00, 0x10FFFE, 0x10FFFF}
        sup |= {rng.randrange(0x10000, 0x110000) for _ in range(6000)}
        sup |= {0x10000 + (k << 10) + j for k in range(0, 1024, 37) for j in (0, 1, 0x3FF)}
        strings += [chr(c) for c in sorted(sup)]
    else:
        strings += [chr(c) for c in range(0x10000, 0x110000)]
    esc = escape_like_systematic() + [escape_like_random(rng) for _ in range(60000 if big else 5000)]
    strings += esc
    nrand = 400000 if big else 24000
    strings += [rand_string(rng) for _ in range(nrand)]

    # ---- T: real vs model
    reqs, real = [], []
    lits = []
    for s in strings:
        out = real_string(s)
        lits.append(out)
        reqs.append("jstr " + cps(s))
        real.append(canon(out))
    model_replies = drv.ask(reqs)
    ck.compare("string()", reqs, real, model_replies)
    # gen/jstring.py accepts a source text by evaluating it against its Python mirror of the model on every code point:
    # tie that mirror to the compiled Lean model (same requests)
    from gen.jstring import model_string
    ck.compare("gen/jstring.py model mirror vs Lean model", reqs, [cps(model_string(s)) for s in strings], model_replies)
    sub = strings[:len(corpus_strings()) + len(TRAPS)] + strings[-3000:] + [chr(c) for c in range(0, 0x10000, 97)]
    reqs2 = ["jstr " + cps(s) for s in sub]
    ck.compare("Writer.visit_constant", reqs2, [canon(real_visit_constant(s)) for s in sub], drv.ask(reqs2))
    # the two Python primitives inside the model
    reqs3 = ["uesc %x" % c for c in range(0x80)]
    ck.compare("unicode-escape", reqs3, [cps(chr(c).encode("unicode-escape").decode("ascii")) for c in range(0x80)],
               drv.ask(reqs3))
    hv = sorted(set(list(range(0, 70000, 7)) + [rng.randrange(1 << 40) for _ in range(2000)] + [15, 16, 255, 256, 0x10FFFF >> 12]))
    reqs4 = ["hex %d" % n for n in hv]
    ck.compare("'%x'", reqs4, [cps("%x" % n) for n in hv], drv.ask(reqs4))

    # ---- S: javac oracle on what the real code wrote
    reads = java_read(lits, strings)
    judge(ck, "string", strings, lits, reads)
    # oracle self-check: the JLS reader used for the javac-defect shape agrees with javac everywhere else
    dis = [cps(s) for s, l, r in zip(strings, lits, reads)
           if isinstance(l, str) and not JAVAC_BUG_SHAPE.search(s) and not (isinstance(r, tuple) and r[0] == "unknown")
           and (jls_read(l) if not isinstance(r, tuple) else "reject") != (r if not isinstance(r, tuple) else
                                                                        ("reject" if isinstance(jls_read(l), tuple) else None))]
    if dis:
        ck.notes.append("oracle self-check: JLS reader and javac disagree on %d literals, first for string %s "
                        "(javac's verdict was used)" % (len(dis), dis[0]))
    dist = {"printable_ascii": 0, "quote_or_backslash": 0, "control": 0, "bmp_non_ascii": 0, "lone_surrogate": 0,
            "supplementary": 0, "empty": 0, "len>1": 0,
            "judged_by_jls_reader_not_javac(javac17_surrogate_lookahead_defect_shape)": sum(1 for s in strings if JAVAC_BUG_SHAPE.search(s)),
            "jls_reader_vs_javac_disagreements": len(dis), "escape_like_text": len(esc),
            "escalated": int(bool(getattr(ck, "escalated", False)))}
    for s in strings:
        for k in classify(s):
            dist[k] += 1
        if not s: dist["empty"] += 1
        if len(s) > 1: dist["len>1"] += 1
    pick = [i for i, s in enumerate(strings) if len(s) > 3][:1] + [len(corpus_strings()) + len(TRAPS) + 0x1F60, len(strings) - 1]
    ck.cover(evaluations=len(strings),
             distinct=(s for s in set(strings) if classify(s) - {"printable_ascii"}),
             samples=[{"cps": cps(strings[i]), "literal": canon(lits[i]), "java_units": reads[i]} for i in pick],
             dist=dist)

    # ---- S: end to end through the DEX parser and the decompiler
    ne = 6000 if big else 400
    from harness.dexasm import norm_str
    es = list(dict.fromkeys(norm_str(s) for s in (corpus_strings() + TRAPS + [rand_string(rng) for _ in range(ne)]
                                                   + [escape_like_random(rng) for _ in range(ne // 2)] + escape_like_systematic()[::7])))
    # DEX strings are MUTF-8: an adjacent surrogate pair and the supplementary code point are the same string
    try:
        elits = e2e_literals(es)
    except Exception as e:  # noqa
        raise ToolFailure("end-to-end DEX construction failed: %r" % (e,))
    ereads = java_read(elits, es)
    judge(ck, "DvMethod.get_source", es, elits, ereads)
    ck.cover(evaluations=len(es), distinct=(), samples=[{"via": "DvMethod.get_source", "cps": cps(es[-1]),
                                                        "literal": canon(elits[-1]), "java_units": ereads[-1]}],
             dist={"end_to_end_methods": len(es)})
    ck.assumptions.append("a Python str is a sequence of code points below 0x110000 (unpaired surrogates allowed); "
                          "'%x' and str.encode('unicode-escape') are modelled (hexDigits, pyUnicodeEscape) and compared "
                          "with CPython each run; the javac/java 17 installed here stand for the Java language specification in the oracle")
    ck.notes.append("model and theorems describe writer.string with fixes/C23-surrogate-pair.diff; on the unfixed code the "
                    "oracle reports every supplementary code point (corpus/C23/d11-u1f600.json first)")


def replay(ck: Check, rp):
    c = rp.get("case") or {}
    if "cps" not in c:
        print("replay:", json.dumps(rp.get("first_divergence") or rp.get("errors"), indent=1)[:3000])
        d = rp.get("first_divergence")
        if d and d.get("request", "").startswith("jstr "):
            w = d["request"].split()[1]
            s = "" if w == "-" else "".join(chr(int(x, 16)) for x in w.split("."))
            print("real now :", canon(real_string(s)))
            print("model now:", Driver("drv_C23").ask([d["request"]])[0])
        return 0
    s = "".join(chr(x) for x in c["cps"])
    if c.get("via") == "DvMethod.get_source":
        lit = e2e_literals([s])[0]
    else:
        lit = real_string(s)
    rd = java_read([lit], [s])[0]
    if JAVAC_BUG_SHAPE.search(s):
        print('(javac 17 misreads this shape; judged by the JLS reader in harness/props/c23.py)')
    exp = expected_units(s)
    print("string (code points):", cps(s))
    print("literal written     :", lit if isinstance(lit, str) and lit.isascii() else canon(lit))
    print("Java reads          :", rd)
    print("expected code units :", exp)
    print("HOLDS" if rd == exp else "FAILS")
    return 0 if rd == exp else 1
