"""C37 — decompile output stays inside the output directory (DESIGN.md section 6, C37/C38; defect D20).

Registered against the tree with fixes/C37-decompile-output-containment.diff (and the C38 fix) applied; on
the unfixed tree the oracle reports the corpus witnesses (class `L../../x;`, method name `/../../y` next to a
folder `Cls `) as failing inputs.

P: Props/C37.lean (outputs_inside … over AgVerif.Paths), Gen/Paths.lean regenerated.
T: streams  vcn      the real valid_class_name on hostile class names            vs the model
            export   DEX files written by harness/dexasm.py with hostile class and method names run through the
                     REAL export_apps_to_format; the set of created paths        vs the set the model predicts
S: oracle = walk the scratch ROOT (the output directory is nested 8 levels below it) and a second sentinel
   directory that absolute-looking names point into; anything created outside the requested output
   directory is a failing input.
"""
import contextlib
import glob
import io
import json
import os
import shutil
import tempfile

from harness.fw import REPO, VERIF, Check, Driver, ToolFailure
from harness.props.c38 import cps, enc, from_cps, has_surrogate

PINS = [("androguard/cli/main.py", "export_apps_to_format"), ("androguard/cli/main.py", "valid_class_name"),
        ("androguard/cli/main.py", "check_inside_directory"), ("androguard/cli/main.py", "create_directory"),
        ("androguard/misc.py", "clean_file_name"), ("androguard/core/dex/__init__.py", "EncodedMethod.get_short_string")]

DEPTH = 8            # out = ROOT/n1/…/n8/out ; generated names climb at most 7 levels
RETURN_VOID = b"\x0e\x00"


# ------------------------------------------------------------------ DEX writer (independent of androguard)
def build_dex(classes):
    from harness.dexasm import Code, DexBuilder, Method
    b = DexBuilder()
    for cn, meths in classes:
        b.add_class(cn, direct_methods=[Method(mn, "V", (), 0x9, Code(1, 0, 0, RETURN_VOID)) for mn in meths])
    return b.build()


# ------------------------------------------------------------------ generators
SEGS = ["..", "..", ".", "", "etc", "x", "a", "b", "Cls", "Cls ", " ", "...", "..a", "a..", "tmp", "CON", "x.java", "~",
        "a\nb", "a\\..\\b", "\\", "é", "\U0001f600", "a b", "-", "$1"]


def rand_class(rng, sentinel):
    k = rng.randrange(14)
    if k == 0:
        inner = "/".join([".."] * rng.randrange(1, 8) + ["x%d" % rng.randrange(3)])
    elif k == 1:                                         # absolute-looking: points into the sentinel directory
        inner = sentinel + "/" + rng.choice(["x", "../y", "a/b"])
    elif k == 2:
        inner = "/" + "/".join(rng.choice(SEGS) for _ in range(rng.randrange(1, 5)))
    elif k == 3:                                         # very long segment
        inner = rng.choice(["", "a/"]) + rng.choice("ab.") * rng.choice((200, 255, 256, 300)) + rng.choice(["", "/z"])
    elif k == 4:
        inner = rng.choice(["a\x00b/c", "\x00", "a/\x00/../..", "a\nb/c", "a/b\n"])
    elif k == 5:
        inner = ""
    else:
        n = rng.randrange(1, 7)
        inner = "/".join(rng.choice(SEGS) for _ in range(n))
        if rng.randrange(5) == 0:
            inner += "/"
    shape = rng.randrange(10)
    if shape == 0:
        return inner                                     # not a class descriptor at all
    if shape == 1:
        return "L" + inner                               # no terminating ';'
    if shape == 2:
        return inner + ";"                               # first character is dropped whatever it is
    return "L" + inner + ";"


def rand_method(rng, sentinel):
    k = rng.randrange(12)
    if k < 4:
        return rng.choice(["m", "<init>", "<clinit>", "run", "a"])
    if k == 4:
        return "/" + "../" * rng.randrange(1, 8) + "y"
    if k == 5:
        return "../" * rng.randrange(1, 8) + "y"
    if k == 6:
        return rng.choice(["a/b", "/", "//", "a/", "/a", "..", ".", "\\..\\..\\y", sentinel + "/m"])
    if k == 7:
        return rng.choice("ab. ") * rng.choice((200, 230, 300))
    if k == 8:
        return rng.choice(["a\x00b", "a\nb", "m.", "m ", "CON", "é\U0001f600", "a:b", "a*?"])
    return "".join(rng.choice("ab/._ ") for _ in range(rng.randrange(1, 12)))


def rand_case(rng):
    """{"classes": [[class name code points, [method name code points …]] …], "out": style, "form": None|"raw"|"png"}"""
    sentinel = "@SENTINEL@"                               # replaced by the real sentinel path at run time
    classes, seen = [], set()
    if rng.randrange(4) == 0:                            # the pair that lets a method name find an existing "Cls " folder
        c = rng.choice(["Cls", "K", ""])
        p = rng.choice(["p", "p/q", ""])
        pre = (p + "/") if p else ""
        classes.append(["L%s%s/%s /z;" % (pre, c, c), ["m"]])
        classes.append(["L%s%s;" % (pre, c), ["/" + "../" * rng.randrange(1, 8) + "y", "m"]])
    for _ in range(rng.randrange(1, 5)):
        classes.append([rand_class(rng, sentinel), list({rand_method(rng, sentinel) for _ in range(rng.randrange(1, 4))})])
    out = []
    for cn, ms in classes:
        if cn in seen:
            continue
        seen.add(cn)
        out.append([cps(cn), [cps(m) for m in sorted(ms)]])
    return {"classes": out, "out": rng.choice(["abs", "abs", "rel", "dotrel", "slash"]),
            "form": rng.choice([None, None, None, "raw", "png" if rng.randrange(6) == 0 else None])}


# ------------------------------------------------------------------ running the real export
def walk(root):
    out = []
    for dp, dn, fn in os.walk(root):
        for n in dn + fn:
            out.append(os.path.relpath(os.path.join(dp, n), root))
    return sorted(out)


class Sandbox:
    def __init__(self):
        self.base = tempfile.mkdtemp(prefix="c37-")
        self.cwd0 = os.getcwd()
        self.n = 0

    def fresh(self):
        self.n += 1
        top = os.path.join(self.base, "s%d" % self.n)
        root = os.path.join(top, "root")
        sentinel = os.path.join(top, "sentinel")
        nest = os.path.join(root, *["n%d" % i for i in range(1, DEPTH + 1)])
        os.makedirs(nest)
        os.makedirs(sentinel)
        os.makedirs(os.path.join(top, "session"))       # Session() drops its androguard.db into the cwd
        return top, root, sentinel, nest

    def close(self):
        os.chdir(self.cwd0)
        shutil.rmtree(self.base, ignore_errors=True)


def run_export(case, sandbox):
    """run the real export; returns dict(error, created (relative to out), outside (everything else that appeared),
    methods [(class name, short string)], out (the string given to the export))"""
    from androguard.cli.main import export_apps_to_format
    from androguard.session import Session
    top, root, sentinel, nest = sandbox.fresh()
    classes = [(from_cps(c).replace("@SENTINEL@", sentinel), [from_cps(m).replace("@SENTINEL@", sentinel) for m in ms])
               for c, ms in case["classes"]]
    data = build_dex(classes)
    before = set(walk(top))
    os.chdir(os.path.join(top, "session"))
    out = {"abs": os.path.join(nest, "out"), "rel": "out", "dotrel": "./out", "slash": os.path.join(nest, "out") + "/"}[case["out"]]
    res = {"error": None, "methods": [], "out": out, "sentinel": sentinel}
    try:
        s = Session()
        s.add("classes.dex", data)
        os.chdir(nest)
        for _, vm, _ in s.get_objects_dex():
            for m in vm.get_encoded_methods():
                try:
                    res["methods"].append((str(m.get_class_name()), m.get_short_string()))
                except Exception as e:  # noqa
                    res["methods"].append((str(m.get_class_name()), None))
        with contextlib.redirect_stdout(io.StringIO()):
            export_apps_to_format("classes.dex", s, out, None, False, None, case.get("form"))
    except Exception as e:  # noqa
        res["error"] = type(e).__name__
    finally:
        os.chdir(sandbox.cwd0)
    outdir = os.path.join(nest, "out")
    after = walk(top)
    rel_out = os.path.relpath(outdir, top)
    created, outside = [], []
    for p in after:
        if p in before or p.startswith("session" + os.sep):
            continue
        if p == rel_out:
            continue
        if p.startswith(rel_out + os.sep):
            created.append(p[len(rel_out) + 1:])
        else:
            outside.append(p)
    res["created"], res["outside"] = sorted(created), sorted(outside)
    shutil.rmtree(top, ignore_errors=True)
    return res


# ------------------------------------------------------------------ the model's prediction
def predict(drv, res, form):
    """paths (relative to out) the model says the export creates, from the class names and the REAL short strings"""
    out = res["out"]
    reqs = []
    for cn, short in res["methods"]:
        if short is None or has_surrogate(cn) or has_surrogate(short):
            return None
        reqs.append("target %s %s %s" % (enc(out), enc(cn), enc(short)))
    replies = drv.ask(reqs)
    pred = set()
    base = os.path.normpath(os.path.join(os.getcwd(), out)) if not os.path.isabs(out) else os.path.normpath(out)

    def rel(p):
        # the model's paths start with the string `out`; strip it textually (they are `out` + "/" + …)
        q = p[len(out):] if p.startswith(out) else None
        if q is None:
            return "<outside>" + p
        return os.path.normpath(q.lstrip("/")) if q.strip("/") else "."

    for rp in replies:
        parts = rp.split(" ")
        if parts[0] != "ok":
            return ("error", rp, pred)
        d, j, b = (from_dec(x) for x in parts[1:4])
        r = rel(d)
        while r not in (".", ""):
            pred.add(r)
            r = os.path.dirname(r)
        pred.add(rel(j))
        pred.add(rel(b + ".ag"))
        if form:
            pred.add(rel(b + "." + form))
    return ("ok", None, pred)


def from_dec(w):
    return "" if w == "-" else "".join(chr(int(x, 16)) for x in w.split("."))


# ------------------------------------------------------------------ run
def corpus_cases():
    out = []
    for p in sorted(glob.glob(os.path.join(VERIF, "corpus", "C37", "*.json"))):
        out.append(json.load(open(p)))
    return out


def judge(ck, case, res):
    if res["outside"]:
        ck.fail({k: v for k, v in case.items() if k in ("classes", "out", "form")},
                "the decompile export created files or directories outside the requested output directory",
                key=None, expected="every created path below <out>", observed=res["outside"][:6])
        return True
    return False


def run(ck: Check):
    rng = ck.rng
    ck.pins_changed(PINS)

    def size(q, t):
        """quick size; thorough tier: t; quick tier escalated by a changed modelled function: the thorough size,
        capped at 8x the quick size (one export is a full session + decompilation: 6000 of them exceed any quick
        budget on a loaded machine); once a failing input is on record the quick size is enough"""
        if not ck.quick:
            return t
        return q if (not ck.escalated or ck.failures) else min(t, 8 * q)
    ok_gen = ck.run_gen("paths")
    ck.prove(exes=["drv_C37"])
    try:
        drv = Driver("drv_C37")
    except ToolFailure:
        if not ck.p_errors:
            raise
        drv = None
    from androguard.cli.main import valid_class_name
    ck.rule = ("vcn: class names from segments '..', '.', '', long, NUL/newline, unicode, absolute-looking, with/without "
               "'L' and ';'; export: DEX files (harness/dexasm.py) of 1..6 classes with such names and 1..3 return-void "
               "methods named m, <init>, '../'*k+'y', '/'+'../'*k+'y', a/b, 200..300 character names, NUL, newline, "
               "reserved characters; output directory absolute / relative / './out' / trailing slash, nested 8 levels "
               "below the scratch root; form none/raw/png. distinct = distinct (class names, method names, out style, "
               "form); non-trivial = some class or method name contains '..', '/', NUL, an empty segment or is longer "
               "than 200 characters")
    sandbox = Sandbox()
    try:
        # ---- corpus first
        for c in corpus_cases():
            res = run_export(c, sandbox)
            ck.search_cases += 1
            judge(ck, c, res)
        # ---- T: valid_class_name
        n_vcn = size(4000, 100000)
        reqs, real = [], []
        for _ in range(n_vcn):
            cn = rand_class(rng, "/s")
            if has_surrogate(cn):
                continue
            try:
                r = "ok " + enc(valid_class_name(cn))
            except IndexError:
                r = "indexerror"
            except Exception as e:  # noqa
                r = "other:" + type(e).__name__
            reqs.append("vcn " + enc(cn)); real.append(r)
        if drv:
            ck.compare("vcn", reqs, real, drv.ask(reqs))
        # ---- T + S: export
        n_exp = size(160, 6000)
        reqs, real, model = [], [], []
        dist = {"dex_files": 0, "classes": 0, "methods": 0, "export_completed": 0, "export_raised": 0,
                "with_dotdot": 0, "absolute_looking": 0, "long_names": 0, "nul_or_newline": 0, "paths_created": 0,
                "form_raw": 0, "form_png": 0}
        seen, samples = set(), []
        for i in range(n_exp):
            if ck.quick and ck.failures and i >= 160:    # escalated run: the verdict is settled, stop at the quick size
                break
            case = rand_case(rng)
            res = run_export(case, sandbox)
            names = [from_cps(c) for c, _ in case["classes"]] + [from_cps(m) for _, ms in case["classes"] for m in ms]
            dist["dex_files"] += 1
            dist["classes"] += len(case["classes"])
            dist["methods"] += sum(len(ms) for _, ms in case["classes"])
            dist["export_completed" if res["error"] is None else "export_raised"] += 1
            dist["with_dotdot"] += any(".." in n for n in names)
            dist["absolute_looking"] += any(n.startswith(("/", "L/", "L@")) or "@SENTINEL@" in n for n in names)
            dist["long_names"] += any(len(n) > 200 for n in names)
            dist["nul_or_newline"] += any("\x00" in n or "\n" in n for n in names)
            dist["paths_created"] += len(res["created"])
            dist["form_raw"] += case["form"] == "raw"
            dist["form_png"] += case["form"] == "png"
            if any(".." in n or "/" in n.strip("L;") or "\x00" in n or len(n) > 200 for n in names):
                seen.add(json.dumps(case, sort_keys=True))
            judge(ck, case, res)
            if len(samples) < 3 and res["created"] and i % 40 == 7:
                samples.append({"classes": [[from_cps(c)[:40], [from_cps(m)[:30] for m in ms]] for c, ms in case["classes"]][:3],
                                "created_below_out": res["created"][:5], "outside": res["outside"], "error": res["error"]})
            if drv:
                p = predict(drv, res, case["form"])
                if p is None:
                    continue
                status, why, pred = p
                rq = "export " + json.dumps({"classes": case["classes"], "out": case["out"], "form": case["form"]})
                if res["error"] is None and status == "ok":
                    a = "created " + " | ".join(enc(x) for x in res["created"])
                    b = "created " + " | ".join(enc(x) for x in sorted(pred))
                else:
                    # the export stopped early (OSError for a 300 character folder, ValueError for NUL, IndexError for
                    # an empty class name …): what exists must be among the predicted paths
                    extra = [x for x in res["created"] if x not in pred] if status == "ok" else []
                    a = "partial " + (" | ".join(enc(x) for x in extra) or "within-prediction")
                    b = "partial within-prediction"
                reqs.append(rq); real.append(a); model.append(b)
        if drv:
            ck.compare("export", reqs, real, model)
        ck.cover(evaluations=dist["dex_files"], distinct=seen, samples=samples, dist=dist)
    finally:
        sandbox.close()
    ck.assumptions += [
        "POSIX path semantics (os.path = posixpath); os.path.realpath/symlinks are outside the model: the output "
        "directory is assumed to contain no symbolic links planted before the export",
        "the method's short string is an arbitrary string in the theorems; the harness takes the real get_short_string()",
        "the `form` extension contains no '/' and no '.' (png, jpg, raw …: a command line option, not DEX data)",
    ]
    ck.partial.append("export_apps_to_format's loop itself (which methods are visited, when the .java file is written) is "
                      "tied by the `export` correspondence (created set = predicted set), not proved")
    if not ok_gen:
        ck.notes.append("translator gen/paths.py could not read the source (see proof_errors)")


def replay(ck: Check, rp):
    c = rp.get("case") or {}
    if "classes" not in c:
        print("replay: broken obligation, nothing to run:",
              json.dumps(rp.get("first_divergence") or rp.get("errors"), indent=1)[:3000])
        return 0
    sandbox = Sandbox()
    try:
        res = run_export(c, sandbox)
    finally:
        sandbox.close()
    for cn, ms in c["classes"]:
        print("class", repr(from_cps(cn)), "methods", [from_cps(m) for m in ms])
    print("output directory style:", c.get("out"), " form:", c.get("form"), " error:", res["error"])
    print("created below <out>   :", res["created"])
    print("created OUTSIDE <out> :", res["outside"] or "nothing")
    return 1 if res["outside"] else 0
