"""C08 — try/catch tables are reported exactly (DESIGN.md section 6, C08).

P: lean/AgVerif/Props/C08.lean over the model AgVerif.Tries (transliteration of
   DalvikCode.__init__, TryItem, EncodedCatchHandlerList, EncodedCatchHandler,
   EncodedTypeAddrPair, determineException) and the format spec AgVerif.Spec.Tries.
T: `tries <hex of code item> <ntypes>` — the compiled model against
     file : real DEX(...) -> EncodedMethod.get_code() -> determineException(vm, m) (the call
            analysis.py makes) on DEX files written by the independent writer harness/dexasm.py
            and on every method of the DEX files shipped in tests/data/APK,
     raw  : real DalvikCode(buff, cm) + determineException on a bare code item (exact, with
            trailing garbage, truncated, byte-mutated, dangling handler offsets); this stream
            also compares the number of bytes the constructor consumed.
   history : on the real objects of the written files (padded LEB128s and shared handler lists
            included) a seeded sequence of read-only / serialising calls (get_raw, get_size, get_length,
            show, get_tries, get_handlers, determineException, MethodAnalysis, CodeItem.get_raw/
            get_length/show); after EVERY call the try table is asked again.  The model is a
            pure function of the code item bytes, so the expected answer never changes.
S: oracle = the generator's own try list (plain tuples, no decoding at all) for the written
   files; for the shipped files a 40-line reader of the code_item layout written from the DEX
   format document.  The reported ranges must be a permutation of the expected ones, each
   with its handler list in order and Throwable last.
"""
import glob
import hashlib
import io
import json
import os
import re
import struct
import time
import zipfile

from harness import fw
from harness.fw import Check, Driver, hexs
from harness import dexasm as A

PINS = [
    ("androguard/core/dex/__init__.py", "determineException"),
    ("androguard/core/dex/__init__.py", "DalvikCode.__init__"),
    ("androguard/core/dex/__init__.py", "DalvikCode.get_raw"),
    ("androguard/core/dex/__init__.py", "DalvikCode.get_size"),
    ("androguard/core/dex/__init__.py", "TryItem.__init__"),
    ("androguard/core/dex/__init__.py", "TryItem.get_raw"),
    ("androguard/core/dex/__init__.py", "EncodedCatchHandlerList.__init__"),
    ("androguard/core/dex/__init__.py", "EncodedCatchHandlerList.get_raw"),
    ("androguard/core/dex/__init__.py", "EncodedCatchHandlerList.get_length"),
    ("androguard/core/dex/__init__.py", "EncodedCatchHandlerList.set_off"),
    ("androguard/core/dex/__init__.py", "EncodedCatchHandler.__init__"),
    ("androguard/core/dex/__init__.py", "EncodedCatchHandler.get_raw"),
    ("androguard/core/dex/__init__.py", "EncodedCatchHandler.get_length"),
    ("androguard/core/dex/__init__.py", "EncodedCatchHandler.set_off"),
    ("androguard/core/dex/__init__.py", "EncodedTypeAddrPair.__init__"),
    ("androguard/core/dex/__init__.py", "EncodedTypeAddrPair.get_raw"),
    ("androguard/core/dex/__init__.py", "CodeItem.__init__"),
    ("androguard/core/dex/__init__.py", "CodeItem.get_raw"),
    ("androguard/core/dex/__init__.py", "CodeItem.get_length"),
    ("androguard/core/dex/__init__.py", "EncodedMethod.get_code"),
    ("androguard/core/dex/__init__.py", "ClassManager.get_code"),
]

THROWABLE = "Ljava/lang/Throwable;"
INVALID = "AG:ITI: invalid type"
CORPUS = os.path.join(fw.VERIF, "corpus", "C08")


def _dex():
    from androguard.core import dex
    return dex


# --------------------------------------------------------------------------- real side
class _CM:
    pass


class _VM:
    """stand-in for the DEX object in the raw stream: determineException only calls get_cm_type"""

    def __init__(self, ntypes):
        self.n = ntypes

    def get_cm_type(self, idx):
        return "t%d" % idx if idx < self.n else INVALID


class _M:
    def __init__(self, code):
        self.code = code

    def get_code(self):
        return self.code


def p_part(code, base, consumed):
    """canonical line of a parsed DalvikCode (same layout as Driver/C08.lean showCode)"""
    hl = code.get_handlers()
    ts = ",".join("%d.%d.%d" % (t.get_start_addr(), t.get_insn_count(), t.get_handler_off()) for t in code.get_tries())
    if hl is None:
        ho, hs, H = 0, 0, ""
    else:
        ho, hs = hl.get_off() - base, hl.get_size()
        H = "|".join("%d:%d:%s:%s" % (h.get_off() - base, h.get_size(),
                                      "+".join("%d.%d" % (p.get_type_idx(), p.get_addr()) for p in h.get_handlers()),
                                      h.catch_all_addr if hasattr(h, "catch_all_addr") else "-")
                     for h in hl.get_list())
    return ("ok c=%s hdr=%d.%d.%d.%d.%d.%d il=%d pad=%s ts=%s ho=%d hs=%d H=%s" % (
        consumed, code.get_registers_size(), code.get_ins_size(), code.get_outs_size(), code.get_tries_size(),
        code.get_debug_info_off(), code.get_insns_size(), len(code.get_bc().get_insn()),
        code.padding if hasattr(code, "padding") else "-", ts, ho, hs, H))


def e_part(fn):
    try:
        r = fn()
    except IndexError:
        return "err index", None
    except AttributeError:
        return "err attribute", None
    except struct.error:
        return "err struct", None
    except Exception as e:  # noqa
        return "other:" + type(e).__name__, None
    return "ok " + json.dumps(r), r


def real_raw(dex, data: bytes, ntypes: int):
    cm = _CM()
    cm.packer = dex.DalvikPacker(0x12345678)
    buf = io.BufferedReader(io.BytesIO(data))
    try:
        code = dex.DalvikCode(buf, cm)
    except struct.error:
        return "P err struct", None
    except Exception as e:  # noqa
        return "P other:" + type(e).__name__, None
    consumed = buf.tell()
    e, r = e_part(lambda: dex.determineException(_VM(ntypes), _M(code)))
    return "P " + p_part(code, 0, consumed) + " | E " + e, (code, consumed, r)


def real_file_method(dex, vm, m):
    code = m.get_code()
    if code is None:            # no DalvikCode registered at the method's code_off
        return "P none", None
    e, r = e_part(lambda: dex.determineException(vm, m))
    return "P " + p_part(code, code.get_off(), "?") + " | E " + e, r


# --------------------------------------------------------------------------- model side
def canon_model(line: str, names, in_file: bool):
    """map the driver's reply to the canonical line: type markers t<i>/inv/T -> names taken from an
    independent type table; the consumed count is not observable through get_code()"""
    if " | E " not in line:
        return line
    p, e = line.split(" | E ", 1)
    if in_file:
        p = re.sub(r"^P ok c=\d+", "P ok c=?", p)
    if not e.startswith("ok"):
        return p + " | E " + e
    out = []
    body = e[3:]
    if body:
        for r in body.split(";"):
            lo, hi, hs = r.split(".", 2)
            z = [int(lo), int(hi)]
            if hs:
                for h in hs.split("+"):
                    n, a = h.split("@")
                    if n == "T":
                        n = THROWABLE
                    elif n == "inv":
                        n = INVALID
                    else:
                        n = names(int(n[1:]))
                    z.append([n, int(a)])
            out.append(z)
    return p + " | E ok " + json.dumps(out)


# --------------------------------------------------------------------------- generator
TYPE_POOL = ["Ljava/lang/Exception;", "Ljava/lang/RuntimeException;", "Ljava/io/IOException;", "Ljava/lang/Error;",
             THROWABLE, "Ljava/lang/ArithmeticException;", "LFoo;", "[I", "Ljava/lang/NullPointerException;"]
BIG = [127, 128, 255, 16383, 16384, 2 ** 21 - 1, 2 ** 21, 2 ** 28 - 1, 2 ** 28, 2 ** 31 - 1, 2 ** 31, 2 ** 32 - 1]


def gen_handler(rng, units, wild):
    n = rng.choice((0, 1, 1, 1, 2, 2, 3, 4)) if not wild else rng.choice((0, 1, 2, 5, 9))
    typed = []
    for _ in range(n):
        if rng.random() < (0.35 if wild else 0.08):
            ty = rng.choice((0, 1, 2, 3, 5, 40, 127, 128, 200, 20000, 3000000, 2 ** 28, 2 ** 32 - 1))
        else:
            ty = rng.choice(TYPE_POOL)
        ad = rng.choice(BIG) if rng.random() < (0.4 if wild else 0.1) else rng.randrange(0, max(1, units))
        typed.append((ty, ad))
    ca = None
    if n == 0 or rng.random() < 0.45:
        ca = rng.choice(BIG) if rng.random() < (0.4 if wild else 0.1) else rng.randrange(0, max(1, units))
    return typed, ca


def gen_tries(rng, units, k, wild):
    menu = [gen_handler(rng, units, wild) for _ in range(rng.randrange(1, k + 1))]
    tries = []
    if wild:
        for _ in range(k):
            start = rng.choice((0, 1, units, 2 ** 16, 2 ** 31, 2 ** 32 - 1, rng.randrange(0, units + 1)))
            count = rng.choice((0, 1, 2, 255, 256, 2 ** 16 - 1, rng.randrange(0, units + 1)))
            tries.append((start, count) + rng.choice(menu))
    else:
        # sorted, non-overlapping, inside the code
        cuts = sorted(rng.sample(range(0, units + 1), min(2 * k, units + 1)))
        for i in range(0, len(cuts) - 1, 2):
            if cuts[i + 1] > cuts[i]:
                tries.append((cuts[i], cuts[i + 1] - cuts[i]) + rng.choice(menu))
        if not tries:
            tries.append((0, max(1, units)) + rng.choice(menu))
    return tries


def small_scope():
    """every shape with <= 2 tries over a 4-entry handler menu x both parities"""
    menu = [([], 1), ([("Ljava/lang/Exception;", 2)], None), ([("Ljava/lang/Exception;", 2)], 3),
            ([("Ljava/io/IOException;", 1), (THROWABLE, 2)], 0)]
    out = []
    for units in (3, 4):
        for h in menu:
            out.append((units, [(0, 2) + h]))
        for h1 in menu:
            for h2 in menu:
                out.append((units, [(0, 1) + h1, (1, 2) + h2]))
    return out


def build_file(methods, shared, leb_pad):
    """methods: list of (units, tries or None for no tries, or 'abstract'). Returns data, builder, refs."""
    b = A.DexBuilder()
    ms, refs = [], []
    for i, (units, tries) in enumerate(methods):
        name = "m%d" % i
        if units is None:
            ms.append(A.Method(name, "V", (), 0x401, None))
            refs.append(None)
            continue
        insns = b"\x00\x00" * (units - 1) + b"\x0e\x00"
        tr = [A.Try(s, c, list(h), ca) for (s, c, h, ca) in (tries or [])]
        ms.append(A.Method(name, "V", (), 0x1, A.Code(1, 1, 0, insns, tries=tr)))
        refs.append(("LGen;", name, "V", ()))
    b.add_class("LGen;", access=0x401, virtual_methods=ms)
    data = b.build(shared_handlers=shared, leb_pad=leb_pad)
    return data, b, refs


def expected_ranges(tries, types):
    """the property's right-hand side for a generator try list; a name is None when the type index is
    outside the pool (the statement says nothing about names of types that do not exist)"""
    out = []
    for (s, c, typed, ca) in tries:
        z = [2 * s, 2 * s + 2 * c - 1]
        for ty, ad in typed:
            if isinstance(ty, int):
                ty = types[ty] if ty < len(types) else None
            z.append([ty, 2 * ad])
        if ca is not None:
            z.append([THROWABLE, 2 * ca])
        out.append(z)
    return out


def index_tries(tries, types):
    """the same try list with every type given as its index in the file's type pool"""
    return [(s, c, [(ty if isinstance(ty, int) else types.index(A.norm_str(ty)), ad) for ty, ad in typed], ca)
            for (s, c, typed, ca) in tries]


def ranges_match(expected, observed):
    """permutation at the level of ranges; handler lists equal in order; None name = wildcard"""
    if observed is None or len(expected) != len(observed):
        return False
    left = list(observed)
    for e in expected:
        for i, o in enumerate(left):
            if (len(o) == len(e) and o[:2] == e[:2] and
                    all(oh[1] == eh[1] and (eh[0] is None or oh[0] == eh[0]) for oh, eh in zip(o[2:], e[2:]))):
                del left[i]
                break
        else:
            return False
    return True


# --------------------------------------------------------------------------- independent reader (shipped files)
def _uleb(d, p):
    v = s = 0
    while True:
        b = d[p]; p += 1
        v |= (b & 0x7F) << s; s += 7
        if b < 0x80:
            return v, p


def _sleb(d, p):
    v = s = 0
    while True:
        b = d[p]; p += 1
        v |= (b & 0x7F) << s; s += 7
        if b < 0x80:
            return (v - (1 << s) if b & 0x40 else v), p


def walk_code_item(d: bytes, off: int):
    """code_item by the DEX format document -> ([(start, count, typed, catch_all)], end offset)"""
    regs, ins, outs, nt, dbg, n = struct.unpack_from("<HHHHII", d, off)
    p = off + 16 + 2 * n
    if nt and n & 1:
        p += 2
    items = [struct.unpack_from("<IHH", d, p + 8 * i) for i in range(nt)]
    p += 8 * nt
    tries = []
    if nt:
        hb = p
        cnt, p = _uleb(d, p)
        hmap = {}
        for _ in range(cnt):
            o = p - hb
            sz, p = _sleb(d, p)
            typed = []
            for _ in range(abs(sz)):
                ty, p = _uleb(d, p)
                ad, p = _uleb(d, p)
                typed.append((ty, ad))
            ca = None
            if sz <= 0:
                ca, p = _uleb(d, p)
            hmap[o] = (typed, ca)
        for s, c, ho in items:
            typed, ca = hmap[ho]
            tries.append((s, c, typed, ca))
    return tries, p


def type_table(d: bytes):
    """type descriptors as MUTF-8 byte strings, read from header/type_ids/string_ids/string_data"""
    ss, so, ts, to = struct.unpack_from("<IIII", d, 0x38)
    out = []
    for i in range(ts):
        (si,) = struct.unpack_from("<I", d, to + 4 * i)
        if si >= ss:
            out.append(None); continue
        (sd,) = struct.unpack_from("<I", d, so + 4 * si)
        _, p = _uleb(d, sd)
        e = d.index(b"\x00", p)
        out.append(bytes(d[p:e]))
    return out


def shipped_dex():
    out, seen = [], set()
    base = os.path.join(fw.REPO, "tests", "data", "APK")
    cands = [(os.path.relpath(p, fw.REPO), None) for p in sorted(glob.glob(os.path.join(base, "*.dex")))]
    for p in sorted(glob.glob(os.path.join(base, "*.apk")) + glob.glob(os.path.join(base, "*.jar"))):
        try:
            with zipfile.ZipFile(p) as z:
                for n in z.namelist():
                    if re.fullmatch(r"classes\d*\.dex", n):
                        cands.append((os.path.relpath(p, fw.REPO) + "!" + n, z.read(n)))
        except Exception:  # noqa   (archives zipfile cannot open are C34's subject)
            continue
    for name, data in cands:
        if data is None:
            data = open(os.path.join(fw.REPO, name), "rb").read()
        h = hashlib.sha256(data).digest()
        if h in seen:
            continue
        seen.add(h)
        out.append((name, data))
    return out


def shipped_worker(args):
    """one shipped file: (requests, real lines, type names as list, failures, stats)"""
    name, data, every = args
    fw.quiet_androguard()
    dex = _dex()
    try:
        vm = dex.DEX(data)
    except Exception as e:  # noqa   a file androguard does not load has no methods to report on
        return name, [], [], [], [], {"unloadable": 1, "why": type(e).__name__}
    tt = type_table(data)
    tnames = []
    for b in tt:
        try:
            tnames.append(None if b is None else b.replace(b"\xc0\x80", b"\x00").decode("utf-8", "surrogatepass"))
        except UnicodeDecodeError:
            tnames.append(None)
    reqs, real, fails = [], [], []
    st = {"methods": 0, "with_tries": 0, "ranges": 0, "shared_lists": 0, "padded": 0, "max_tries": 0}
    k = 0
    for m in vm.get_encoded_methods():
        code = m.get_code()
        if code is None:
            continue
        k += 1
        off = m.get_code_off()
        try:
            tries, end = walk_code_item(data, off)
        except Exception:  # noqa
            tries, end = None, min(len(data), off + 4096)
        if not tries and k % every:
            continue
        st["methods"] += 1
        line, r = real_file_method(dex, vm, m)
        reqs.append("tries %s %d" % (hexs(data[off:end]), len(tt)))
        real.append(line)
        if tries:
            st["with_tries"] += 1
            st["ranges"] += len(tries)
            st["max_tries"] = max(st["max_tries"], len(tries))
            if len({id(t[2]) for t in tries}) < len(tries):
                st["shared_lists"] += 1
            if struct.unpack_from("<I", data, off + 12)[0] & 1:
                st["padded"] += 1
            exp = expected_ranges(tries, tnames)
            if not ranges_match(exp, r):
                fails.append(({"kind": "shipped", "file": name, "code_off": off, "hex": hexs(data[off:end])},
                              exp, r if r is not None else line.split(" | E ")[-1]))
        elif tries is not None and r != []:
            fails.append(({"kind": "shipped", "file": name, "code_off": off, "hex": hexs(data[off:end])}, [], r))
    return name, reqs, real, tnames, fails, st


# --------------------------------------------------------------------------- raw stream
def raw_cases(rng, item: bytes, tries_off: int, ntries: int, hoffs, n):
    """mutations of one well-formed code item (bytes start at the item): exact + garbage tail,
    truncations, dangling handler offsets, byte flips in the tail, tries_size edits"""
    out = [("exact", item), ("tail", item + bytes(rng.randrange(256) for _ in range(rng.randrange(1, 9))))]
    for _ in range(n):
        kind = rng.choice(("trunc", "dangle", "flip", "flip", "nt"))
        b = bytearray(item)
        if kind == "trunc":
            out.append((kind, bytes(b[:rng.randrange(0, len(b))])))
        elif kind == "dangle" and ntries:
            i = rng.randrange(ntries)
            v = rng.choice((0, 1, hoffs[i] + 1, max(0, hoffs[i] - 1), 0xFFFF, rng.randrange(0, 64)))
            struct.pack_into("<H", b, tries_off + 8 * i + 6, v)
            out.append((kind, bytes(b)))
        elif kind == "flip":
            lo = tries_off if rng.random() < 0.8 else 0
            for _ in range(rng.choice((1, 1, 2, 3))):
                p = rng.randrange(lo, len(b))
                b[p] = rng.choice((b[p] ^ (1 << rng.randrange(8)), rng.randrange(256), 0x80, 0xFF, 0x7F, 0))
            if b[15] or b[14] > 1:        # keep insns_size small: a huge one only reads to the end
                b[14] &= 1; b[15] = 0
            out.append((kind, bytes(b)))
        elif kind == "nt":
            struct.pack_into("<H", b, 6, rng.choice((0, 1, ntries + 1, max(0, ntries - 1), 300)))
            out.append((kind, bytes(b)))
    return out


# --------------------------------------------------------------------------- history stream
HIST_OPS = ["code.get_raw", "code.get_size", "code.get_length", "code.show", "code.get_tries", "code.get_handlers",
            "list.get_raw", "list.get_length", "list.show", "handler.get_raw", "handler.get_length", "try.get_raw",
            "determineException", "MethodAnalysis", "codes.get_raw", "codes.get_length", "codes.show"]
# DEX.save() ("beta: do not use") is not in the menu: on the unchanged tree it raises (AttributeError 'HeaderItem' has
# no 'elem' on written files, KeyError on tests/data/APK/Test.dex) after having moved some offsets.


def apply_op(dex, vm, m, op):
    """one read-only / serialising call on the real objects; returns a short outcome tag"""
    import contextlib
    from androguard.core.androconf import CONF
    code = m.get_code() if m is not None else None
    sink = io.StringIO()
    saved = CONF.get("PRINT_FCT")
    CONF["PRINT_FCT"] = sink.write          # show() prints through CONF["PRINT_FCT"]
    try:
        with contextlib.redirect_stdout(sink), contextlib.redirect_stderr(sink):
            if op.startswith("code.") and code is not None:
                getattr(code, op[5:])()
            elif op.startswith("list.") and code is not None and code.get_handlers() is not None:
                getattr(code.get_handlers(), op[5:])()
            elif op.startswith("handler.") and code is not None and code.get_handlers() is not None:
                for h in code.get_handlers().get_list():
                    getattr(h, op[8:])()
            elif op == "try.get_raw" and code is not None:
                for t in code.get_tries():
                    t.get_raw()
            elif op == "determineException" and code is not None:
                dex.determineException(vm, m)
            elif op == "MethodAnalysis" and code is not None:
                from androguard.core.analysis.analysis import MethodAnalysis
                MethodAnalysis(vm, m)
            elif op.startswith("codes."):
                getattr(vm.get_codes_item(), op[6:])()
    except Exception as e:  # noqa   the call itself is not judged here, only the try table afterwards
        return "raised:" + type(e).__name__
    finally:
        CONF["PRINT_FCT"] = saved
    return "ok"


def table_now(dex, vm, m):
    """what the three observation points say right now"""
    code = m.get_code()
    if code is None:
        return None, None, None
    _, r = e_part(lambda: dex.determineException(vm, m))
    tr = [(t.get_start_addr(), t.get_insn_count()) for t in code.get_tries()]
    hl = code.get_handlers()
    return r, tr, (None if hl is None else len(hl.get_list()))


def run_history(ck, dex, data, methods, types, ops, shared, pad):
    """methods: [(name, tries)] with code; ops: [(op, method index)].  Oracle after every step.
    Returns (number of observations, outcome tags)."""
    vm = dex.DEX(data)
    ms = {m.get_name(): m for m in vm.get_encoded_methods()}
    exp = {n: expected_ranges(tr, types) for n, tr in methods}
    nobs, tags = 0, {}
    done = []
    for op, mi in ops:
        name = methods[mi][0]
        tag = apply_op(dex, vm, ms[name], op)
        tags[op + " " + tag] = tags.get(op + " " + tag, 0) + 1
        done.append([op, name])
        for n, tr in methods:
            r, got_tr, nl = table_now(dex, vm, ms[n])
            nobs += 1
            what = None
            if not ranges_match(exp[n], r):
                what, e, o = "after a read-only/serialising call determineException reports other ranges than the encoded ones", exp[n], r
            elif got_tr != [(t[0], t[1]) for t in tr]:
                what, e, o = "after a read-only/serialising call get_tries() differs from the encoded try items", [(t[0], t[1]) for t in tr], got_tr
            if what:
                ck.fail({"kind": "history", "dex": hexs(data), "ops": list(done), "method": n, "tries": tr,
                         "shared": shared, "leb_pad": pad}, what, None, e,
                        o if o is not None else "exception in determineException")
                return nobs, tags, vm, ms
    return nobs, tags, vm, ms


# --------------------------------------------------------------------------- corpus
def corpus_cases():
    out = []
    for p in sorted(glob.glob(os.path.join(CORPUS, "*.json"))):
        c = json.load(open(p))
        c["_file"] = os.path.basename(p)
        out.append(c)
    return out


def check_raw_case(ck, dex, case):
    """a raw case with a generator try list: oracle on the real code. Returns (request, real line)."""
    data = bytes.fromhex(case["hex"]) if case["hex"] != "-" else b""
    nt = case.get("ntypes", 0)
    line, info = real_raw(dex, data, nt)
    if "tries" in case:
        tries = [(s, c, [tuple(x) for x in typed], ca) for s, c, typed, ca in case["tries"]]
        exp = expected_ranges(tries, ["t%d" % i for i in range(nt)])
        r = info[2] if info else None
        if not ranges_match(exp, r):
            ck.fail({k: v for k, v in case.items() if not k.startswith("_")},
                    "reported try/catch ranges differ from the encoded ones", None, exp,
                    r if r is not None else line)
        if info and "item_len" in case and info[1] != case["item_len"]:
            ck.fail({k: v for k, v in case.items() if not k.startswith("_")},
                    "DalvikCode consumed a different number of bytes than the code item has (padding rule)",
                    None, case["item_len"], info[1])
    if case.get("expect_error") and not line.endswith("E err " + case["expect_error"]) and not line == "P err " + case["expect_error"]:
        ck.fail({k: v for k, v in case.items() if not k.startswith("_")},
                "malformed try table is not rejected with " + case["expect_error"], None, case["expect_error"], line)
    return "tries %s %d" % (case["hex"], nt), line


# --------------------------------------------------------------------------- run
def run(ck: Check):
    ck.pins_changed(PINS)
    big = (not ck.quick) or ck.escalated          # a changed modelled function: thorough sizes in the quick tier
    dex = _dex()
    t0 = time.time()
    ck.run_gen("triesconsts")
    ck.prove(exes=["drv_C08"])
    t1 = time.time()
    drv = Driver("drv_C08")
    rng = ck.rng
    ck.rule = ("written files: every shape with <=2 tries over a 4-entry handler menu x both parities, then seeded random "
               "methods (1..K tries, sorted or wild ranges, shared/distinct handler lists, typed+catch-all, 0..4 extra LEB "
               "bytes, odd/even instruction counts, methods without tries in between); raw: each written code item exact, "
               "with a garbage tail, truncated, with dangling handler offsets, byte flips, edited tries_size; history: per written "
               "file 4..9 seeded read-only/serialising calls on the real objects, the try table of every method re-asked after each; shipped: "
               "methods of tests/data/APK. distinct = distinct code item bytes with at least one try")
    distinct = set()
    dist = {"file_methods": 0, "file_tries": 0, "odd_padded": 0, "odd_no_tries": 0, "shared_files": 0, "wild_methods": 0,
            "leb_pad": {}, "raw": {}, "raw_outcome": {}, "tries_per_method": {}}
    samples = []

    # -- corpus first
    reqs, real = [], []
    for c in corpus_cases():
        rq, ln = check_raw_case(ck, dex, c)
        reqs.append(rq); real.append(ln)
    if reqs:
        ck.compare("corpus", reqs, real, [canon_model(l, lambda i: "t%d" % i, False) for l in drv.ask(reqs)])
        ck.cover(evaluations=len(reqs))

    # -- written files: file stream + oracle, then raw stream from the same items
    nfiles = 1500 if big else 150
    per_file = 14
    plan = []
    ss = small_scope()
    for i in range(0, len(ss), per_file):
        for shared in (False, True):
            for pad in (0, 2):
                plan.append((ss[i:i + per_file], shared, pad, False))
    for f in range(nfiles):
        wild = rng.random() < 0.3
        kmax = rng.choice((2, 4, 6, 6, 12, 40))
        ms = []
        for _ in range(per_file):
            r = rng.random()
            units = rng.randrange(1, 40)
            if r < 0.08:
                ms.append((None, None))
            elif r < 0.25:
                ms.append((units, None))
            else:
                ms.append((units, gen_tries(rng, units, rng.randrange(1, kmax + 1), wild)))
        plan.append((ms, rng.random() < 0.5, rng.choice((0, 0, 1, 2, 3, 4)), wild))

    f_reqs, f_real, f_names = [], [], []
    r_reqs, r_real = [], []
    h_reqs, h_real, h_names = [], [], []
    hist_files, hist_obs, hist_tags = 0, 0, {}
    nraw = 10 if big else 6
    for ms, shared, pad, wild in plan:
        try:
            data, b, refs = build_file(ms, shared, pad)
        except (struct.error, ValueError):
            continue                                   # handler offsets beyond 16 bits: not encodable
        types = list(b.types)
        try:
            vm = dex.DEX(data)
            real_ms = {m.get_name(): m for m in vm.get_encoded_methods()}
        except Exception as e:  # noqa
            ck.fail({"kind": "file", "dex": hexs(data)}, "a well-formed written DEX file does not load",
                    None, "loads", type(e).__name__)
            continue
        dist["shared_files"] += int(shared)
        dist["leb_pad"][str(pad)] = dist["leb_pad"].get(str(pad), 0) + 1
        # history stream: fresh objects of the same file, seeded calls, the try table re-asked after each
        hm = [(ref[1], tr or []) for (u, tr), ref in zip(ms, refs) if ref is not None]
        with_tries = [i for i, (_, tr) in enumerate(hm) if tr] or list(range(len(hm)))
        if hm:
            ops = [(rng.choice(HIST_OPS), rng.choice(with_tries)) for _ in range(rng.randrange(4, 10))]
            nobs, tags, hvm, hms = run_history(ck, dex, data, hm, types, ops, shared, pad)
            hist_files += 1
            hist_obs += nobs
            for k, v in tags.items():
                hist_tags[k] = hist_tags.get(k, 0) + v
            for n, tr in hm:           # tie: the model of the original bytes against the objects after the history
                off = b.layout["code"][("LGen;", n, "V", ())]
                end = walk_code_item(data, off)[1]
                h_reqs.append("tries %s %d" % (hexs(data[off:end]), len(types)))
                h_real.append(real_file_method(dex, hvm, hms[n])[0])
                h_names.append(types)
        for (units, tries), ref in zip(ms, refs):
            if ref is None:
                continue
            m = real_ms[ref[1]]
            off = b.layout["code"][ref]
            tries = tries or []
            if tries:
                end = b.layout["handlers"][ref][0]
                # extent of the handler list: written by the generator, measured by the independent reader
                _, end = walk_code_item(data, off)
            else:
                end = off + 16 + 2 * units
            item = data[off:end]
            line, r = real_file_method(dex, vm, m)
            f_reqs.append("tries %s %d" % (hexs(item), len(types)))
            f_real.append(line)
            f_names.append(types)
            dist["file_methods"] += 1
            dist["file_tries"] += len(tries)
            dist["wild_methods"] += int(wild and bool(tries))
            kk = str(min(len(tries), 8)) + ("+" if len(tries) >= 8 else "")
            dist["tries_per_method"][kk] = dist["tries_per_method"].get(kk, 0) + 1
            if units & 1:
                dist["odd_padded" if tries else "odd_no_tries"] += 1
            case = {"kind": "file", "dex": hexs(data), "method": ref[1], "tries": tries, "shared": shared, "leb_pad": pad}
            exp = expected_ranges(tries, types)
            if not ranges_match(exp, r):
                ck.fail(case, "reported try/catch ranges differ from the encoded ones", None, exp,
                        r if r is not None else line.split(" | E ")[-1])
            code = m.get_code()
            if code is None:
                continue
            got = [(t.get_start_addr(), t.get_insn_count()) for t in code.get_tries()]
            if got != [(t[0], t[1]) for t in tries]:
                ck.fail(case, "DalvikCode.get_tries() differs from the encoded try items", None,
                        [(t[0], t[1]) for t in tries], got)
            if not tries:
                # bare item without exception table: nothing reported, nothing skipped after the instructions
                for kind, bs in (("exact0", item), ("tail0", item + bytes(rng.randrange(256) for _ in range(4)))):
                    ln, info = real_raw(dex, bs, len(types))
                    r_reqs.append("tries %s %d" % (hexs(bs), len(types)))
                    r_real.append(ln)
                    dist["raw"][kind] = dist["raw"].get(kind, 0) + 1
                    rcase = {"kind": "raw", "hex": hexs(bs), "ntypes": len(types), "tries": [], "item_len": len(item)}
                    if info is None or info[2] != []:
                        ck.fail(rcase, "a code item without try items reports exceptions", None, [], ln.split(" | E ")[-1])
                    elif info[1] != len(item):
                        ck.fail(rcase, "DalvikCode consumed a different number of bytes than the code item has "
                                "(padding rule)", None, len(item), info[1])
            if tries:
                nlists = len({json.dumps([t[2], t[3]]) for t in index_tries(tries, types)}) if shared else len(tries)
                hl = code.get_handlers()
                if hl is None or hl.get_size() != nlists or len(hl.get_list()) != nlists:
                    ck.fail(case, "DalvikCode.get_handlers() does not hold the encoded handler lists", None, nlists,
                            None if hl is None else hl.get_size())
                distinct.add(item)
                if len(samples) < 3 and len(tries) >= 2 and (units & 1):
                    samples.append({"code_item": hexs(item), "tries": tries, "reported": r})
                # raw stream
                hoffs = b.layout["handlers"][ref][1]
                toff = b.layout["tries"][ref] - off
                for kind, bs in raw_cases(rng, item, toff, len(tries), hoffs, nraw):
                    ln, info = real_raw(dex, bs, len(types))
                    r_reqs.append("tries %s %d" % (hexs(bs), len(types)))
                    r_real.append(ln)
                    dist["raw"][kind] = dist["raw"].get(kind, 0) + 1
                    oc = ln.split(" | E ")[-1].split(" ")[0:2]
                    oc = " ".join(oc[:2]) if oc[0] in ("err", "P") else oc[0]
                    dist["raw_outcome"][oc] = dist["raw_outcome"].get(oc, 0) + 1
                    if kind in ("exact", "tail"):
                        itries = index_tries(tries, types)
                        rcase = {"kind": "raw", "hex": hexs(bs), "ntypes": len(types), "tries": itries, "item_len": len(item)}
                        rexp = expected_ranges(itries, ["t%d" % i for i in range(len(types))])
                        if info is None or not ranges_match(rexp, info[2]):
                            ck.fail(rcase, "reported try/catch ranges differ from the encoded ones (bare code item)",
                                    None, rexp, ln.split(" | E ")[-1])
                        elif info[1] != len(item):
                            ck.fail(rcase, "DalvikCode consumed a different number of bytes than the code item has "
                                    "(padding rule)", None, len(item), info[1])
    model = drv.ask(h_reqs)
    ck.compare("history", h_reqs, h_real,
               [canon_model(l, (lambda i, t=t: t[i]), True) for l, t in zip(model, h_names)])
    dist["history"] = {"files": hist_files, "observations": hist_obs, "calls": hist_tags}
    ck.cover(evaluations=hist_obs)
    model = drv.ask(f_reqs)
    ck.compare("file", f_reqs, f_real,
               [canon_model(l, (lambda i, t=t: t[i]), True) for l, t in zip(model, f_names)])
    model = drv.ask(r_reqs)
    ck.compare("raw", r_reqs, r_real, [canon_model(l, lambda i: "t%d" % i, False) for l in model])
    ck.cover(evaluations=len(f_reqs) + len(r_reqs), distinct=distinct, samples=samples, dist=dist)
    t2 = time.time()

    # -- shipped files
    files = shipped_dex()
    every = 1 if big else 8
    jobs = [(n, d, every) for n, d in files]
    if ck.quick and not big:
        results = map(shipped_worker, jobs)
    else:
        import multiprocessing
        pool = multiprocessing.Pool(min(8, len(jobs)))
        results = pool.imap(shipped_worker, jobs)
    sd = {"files": 0, "methods": 0, "with_tries": 0, "ranges": 0, "shared_lists": 0, "padded": 0, "max_tries": 0, "unloadable": 0}
    sdist = set()
    for name, reqs, real, tnames, fails, st in results:
        sd["files"] += 1
        for k, v in st.items():
            if k == "max_tries":
                sd[k] = max(sd[k], v)
            elif isinstance(v, int):
                sd[k] = sd.get(k, 0) + v
        for case, exp, obs in fails[:3]:
            ck.fail(case, "reported try/catch ranges of a shipped method differ from the encoded ones", None, exp, obs)
        if reqs:
            model = drv.ask(reqs)
            ck.compare("shipped", reqs, real,
                       [canon_model(l, (lambda i, t=tnames: t[i] if i < len(t) else INVALID), True) for l in model])
            for rq, ln in zip(reqs, real):
                if " ts= " not in ln:
                    sdist.add(rq)
    if big or not ck.quick:
        pool.close(); pool.join()
    ck.cover(evaluations=sd["methods"], distinct=(("s", hashlib.sha256(x.encode()).digest()[:8]) for x in sdist),
             dist={"shipped": sd})
    ck.dist["phase_s"] = {"gen+prove(incl. waiting for the build lock)": round(t1 - t0, 1), "written+raw": round(t2 - t1, 1),
                          "shipped": round(time.time() - t2, 1)}
    if sd["with_tries"] == 0:
        raise fw.ToolFailure("no shipped method with a try table was found under %s/tests/data/APK" % fw.REPO)
    ck.assumptions.append("struct's little-endian H/I unpack is modelled as a + 256 b (+ …); file offsets are modelled relative "
                          "to the code item (determineException only compares sums shifted by the same constant); "
                          "vm.get_cm_type is a parameter of the model (its result is compared through an independent type table)")
    ck.notes.append("history stream: the model is a pure function of the code item bytes, so after any sequence of read-only / "
                    "serialising calls (get_raw, get_size, get_length, show, get_tries, get_handlers, determineException, "
                    "MethodAnalysis, CodeItem.get_raw/get_length/show) on the same objects the expected try table is the one of "
                    "the fresh parse; the oracle (generator's try list) is evaluated after every call. DEX.save() is not in "
                    "the menu: it raises on the unchanged tree")
    ck.notes.append("the order of the reported ranges follows the grouping by handler offset (first use); the property "
                    "constrains the set of ranges and each range's handler order, which is what the oracle compares")


def replay(ck: Check, rp):
    dex = _dex()
    c = rp.get("case") or rp.get("first_divergence", {})
    if "request" in c:
        print("request:", c["request"][:400]); print("real :", c.get("real")); print("model:", c.get("model"))
        _, h, n = c["request"].split(" ")
        print("real now (bare code item):", real_raw(dex, bytes.fromhex(h) if h != "-" else b"", int(n))[0])
        return 0
    kind = c.get("kind")
    if kind == "history":
        data = bytes.fromhex(c["dex"])
        vm = dex.DEX(data)
        ms = {m.get_name(): m for m in vm.get_encoded_methods()}
        types = []
        while vm.get_cm_type(len(types)) != INVALID:
            types.append(vm.get_cm_type(len(types)))
        tries = [(s, cc, [tuple(x) for x in typed], ca) for s, cc, typed, ca in c["tries"]]
        exp = expected_ranges(tries, types)
        m = ms[c["method"]]
        print("method", c["method"], "encoded tries:", tries)
        print("expected at every point (any order of ranges):", exp)
        r = table_now(dex, vm, m)[0]
        print("fresh parse:", r, "match:", ranges_match(exp, r))
        ok = ranges_match(exp, r)
        for op, name in c["ops"]:
            tag = apply_op(dex, vm, ms[name], op)
            r = table_now(dex, vm, m)[0]
            good = ranges_match(exp, r)
            print("after %s on %s (%s):" % (op, name, tag), r if r is not None else "exception", "match:", good)
            ok = ok and good
        return 0 if ok else 1
    if kind == "file":
        data = bytes.fromhex(c["dex"])
        try:
            vm = dex.DEX(data)
        except Exception as e:  # noqa
            print("the file does not load:", type(e).__name__, e)
            return 1
        m = [m for m in vm.get_encoded_methods() if m.get_name() == c["method"]][0]
        line, r = real_file_method(dex, vm, m)
        tries = [(s, cc, [tuple(x) for x in typed], ca) for s, cc, typed, ca in c["tries"]]
        types = []
        while vm.get_cm_type(len(types)) != INVALID:
            types.append(vm.get_cm_type(len(types)))
        exp = expected_ranges(tries, types)
        print("method", c["method"], "encoded tries:", tries)
        print("expected (any order of ranges):", exp)
        print("observed:", r if r is not None else line)
        ok = ranges_match(exp, r)
        print("match:", ok)
        return 0 if ok else 1
    if "hex" in c:
        data = bytes.fromhex(c["hex"]) if c["hex"] != "-" else b""
        nt = c.get("ntypes", 1 << 16)
        line, info = real_raw(dex, data, nt)
        print("real:", line)
        if c.get("expect_error"):
            ok = line.endswith("err " + c["expect_error"])
            print("expected error:", c["expect_error"], "match:", ok)
            return 0 if ok else 1
        if "tries" in c:
            tries = [(s, cc, [tuple(x) for x in typed], ca) for s, cc, typed, ca in c["tries"]]
        else:
            try:
                tries, _ = walk_code_item(data, 0)
            except Exception as e:  # noqa
                print("independent reader:", type(e).__name__)
                return 0
        exp = expected_ranges(tries, ["t%d" % i for i in range(nt)])
        print("expected (any order of ranges):", exp)
        ok = info is not None and ranges_match(exp, info[2])
        if info is not None and "item_len" in c:
            print("consumed:", info[1], "item length:", c["item_len"])
            ok = ok and info[1] == c["item_len"]
        print("match:", ok)
        return 0 if ok else 1
    print("unknown case", c)
    return 0
