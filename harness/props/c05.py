"""C05 — the parsed DEX object model matches the file's declared structure (DESIGN.md section 6, C05).

P: gen/mapdeps.py -> Gen/MapDeps.lean; Props/C05.lean (item codecs, index diffs, resolution, lookups).
T: correspondence `dex <hex>`: androguard's DEX (in-process) vs the Lean model `parseDex` + lookup
   helpers on the same bytes, one canonical line (classes, members, code, strings, every lookup
   helper); item-level streams `classdata`, `typelist`, `code`, `ids` on random/padded byte strings;
   `dexx <hex>`: the extended model `parseDexX` (static values of every value type, init values, annotations
   directory, class annotations) on enriched files, files with patched class defs, files with missing
   sections and the shipped DEX files.
S: oracle = the generator's class model itself (harness/dexmodel.expected_line: what the independent
   writer harness/dexasm.py was asked to write), compared with what androguard reports.
The model and the oracle describe the code WITH fixes/C05-lookup-helpers.diff applied.
"""
import glob
import io
import json
import os
import re
import struct
import zipfile

from harness import dexmodel as M
from harness import dexx as X
from harness.fw import Check, Driver, REPO, VERIF, hexs

CORPUS = os.path.join(VERIF, "corpus", "C05")

# every hand-modelled function (Model/DexFile.lean, Model/LoadOrder.lean) and every function the
# history stream relies on: a changed normalised-AST hash escalates the search (fw.pins_changed)
PINS = [("androguard/core/dex/__init__.py", "MapList.__init__"), ("androguard/core/dex/__init__.py", "MapItem.__init__"), ("androguard/core/dex/__init__.py", "MapItem.parse"), ("androguard/core/dex/__init__.py", "ClassManager.add_type_item"),
        ("androguard/core/dex/__init__.py", "ClassManager.get_raw_string"), ("androguard/core/dex/__init__.py", "ClassManager.get_string"), ("androguard/core/dex/__init__.py", "ClassManager.get_type"),
        ("androguard/core/dex/__init__.py", "ClassManager.get_type_ref"), ("androguard/core/dex/__init__.py", "ClassManager.get_type_list"), ("androguard/core/dex/__init__.py", "ClassManager.get_proto"),
        ("androguard/core/dex/__init__.py", "ClassManager.get_field"), ("androguard/core/dex/__init__.py", "ClassManager.get_method"), ("androguard/core/dex/__init__.py", "ClassManager.get_code"),
        ("androguard/core/dex/__init__.py", "ClassManager.get_class_data_item"),
        ("androguard/core/dex/__init__.py", "StringDataItem.__init__"), ("androguard/core/dex/__init__.py", "StringIdItem.__init__"), ("androguard/core/dex/__init__.py", "TypeIdItem.__init__"), ("androguard/core/dex/__init__.py", "TypeHIdItem.get"),
        ("androguard/core/dex/__init__.py", "ProtoIdItem.__init__"), ("androguard/core/dex/__init__.py", "ProtoIdItem.get_parameters_off_value"), ("androguard/core/dex/__init__.py", "ProtoHIdItem.get"),
        ("androguard/core/dex/__init__.py", "FieldIdItem.__init__"), ("androguard/core/dex/__init__.py", "FieldIdItem.reload"), ("androguard/core/dex/__init__.py", "FieldHIdItem.get"),
        ("androguard/core/dex/__init__.py", "MethodIdItem.__init__"), ("androguard/core/dex/__init__.py", "MethodIdItem.reload"), ("androguard/core/dex/__init__.py", "MethodHIdItem.get"),
        ("androguard/core/dex/__init__.py", "TypeItem.__init__"), ("androguard/core/dex/__init__.py", "TypeList.__init__"),
        ("androguard/core/dex/__init__.py", "EncodedField.__init__"), ("androguard/core/dex/__init__.py", "EncodedField.reload"), ("androguard/core/dex/__init__.py", "EncodedField.adjust_idx"),
        ("androguard/core/dex/__init__.py", "EncodedMethod.__init__"), ("androguard/core/dex/__init__.py", "EncodedMethod.reload"), ("androguard/core/dex/__init__.py", "EncodedMethod.adjust_idx"),
        ("androguard/core/dex/__init__.py", "EncodedMethod.get_length"),
        ("androguard/core/dex/__init__.py", "ClassDataItem.__init__"), ("androguard/core/dex/__init__.py", "ClassDataItem._load_elements"), ("androguard/core/dex/__init__.py", "ClassDataItem.get_methods"),
        ("androguard/core/dex/__init__.py", "ClassDataItem.get_fields"),
        ("androguard/core/dex/__init__.py", "ClassDefItem.__init__"), ("androguard/core/dex/__init__.py", "ClassDefItem.reload"), ("androguard/core/dex/__init__.py", "ClassHDefItem.__init__"),
        ("androguard/core/dex/__init__.py", "DCode.__init__"), ("androguard/core/dex/__init__.py", "DCode.get_instructions"), ("androguard/core/dex/__init__.py", "DCode.get_instruction"), ("androguard/core/dex/__init__.py", "DCode.get_raw"),
        ("androguard/core/dex/__init__.py", "DCode.set_instructions"), ("androguard/core/dex/__init__.py", "DCode.get_insn"),
        ("androguard/core/dex/__init__.py", "DalvikCode.__init__"), ("androguard/core/dex/__init__.py", "DalvikCode.get_raw"), ("androguard/core/dex/__init__.py", "DalvikCode.get_size"), ("androguard/core/dex/__init__.py", "DalvikCode.get_length"),
        ("androguard/core/dex/__init__.py", "TryItem.__init__"), ("androguard/core/dex/__init__.py", "EncodedCatchHandler.__init__"), ("androguard/core/dex/__init__.py", "EncodedCatchHandlerList.__init__"),
        ("androguard/core/dex/__init__.py", "CodeItem.__init__"), ("androguard/core/dex/__init__.py", "CodeItem.get_code"),
        ("androguard/core/dex/__init__.py", "DEX._load"), ("androguard/core/dex/__init__.py", "DEX.get_classes"), ("androguard/core/dex/__init__.py", "DEX.get_class"), ("androguard/core/dex/__init__.py", "DEX.get_classes_names"),
        ("androguard/core/dex/__init__.py", "DEX.get_field"), ("androguard/core/dex/__init__.py", "DEX.get_fields"), ("androguard/core/dex/__init__.py", "DEX.get_method"), ("androguard/core/dex/__init__.py", "DEX.get_methods"),
        ("androguard/core/dex/__init__.py", "DEX.get_encoded_field"), ("androguard/core/dex/__init__.py", "DEX.get_encoded_fields"), ("androguard/core/dex/__init__.py", "DEX.get_encoded_method"),
        ("androguard/core/dex/__init__.py", "DEX.get_encoded_methods"), ("androguard/core/dex/__init__.py", "DEX.get_encoded_method_by_idx"),
        ("androguard/core/dex/__init__.py", "DEX.get_encoded_method_descriptor"), ("androguard/core/dex/__init__.py", "DEX.get_encoded_methods_class_method"),
        ("androguard/core/dex/__init__.py", "DEX.get_encoded_methods_class"), ("androguard/core/dex/__init__.py", "DEX.get_encoded_fields_class"),
        ("androguard/core/dex/__init__.py", "DEX.get_encoded_field_descriptor"), ("androguard/core/dex/__init__.py", "DEX.get_strings"),
        # the extended model (Model/DexFileX.lean): encoded arrays, annotations, the rest of ClassDefItem.reload
        ("androguard/core/dex/__init__.py", "EncodedArrayItem.__init__"), ("androguard/core/dex/__init__.py", "EncodedArray.__init__"), ("androguard/core/dex/__init__.py", "EncodedValue.__init__"), ("androguard/core/dex/__init__.py", "EncodedValue._getintvalue"), ("androguard/core/dex/__init__.py", "EncodedValue._getfloatvalue"), ("androguard/core/dex/__init__.py", "AnnotationItem.__init__"), ("androguard/core/dex/__init__.py", "EncodedAnnotation.__init__"), ("androguard/core/dex/__init__.py", "AnnotationElement.__init__"), ("androguard/core/dex/__init__.py", "AnnotationSetItem.__init__"), ("androguard/core/dex/__init__.py", "AnnotationOffItem.__init__"), ("androguard/core/dex/__init__.py", "AnnotationSetRefList.__init__"), ("androguard/core/dex/__init__.py", "AnnotationSetRefItem.__init__"), ("androguard/core/dex/__init__.py", "AnnotationsDirectoryItem.__init__"), ("androguard/core/dex/__init__.py", "FieldAnnotation.__init__"), ("androguard/core/dex/__init__.py", "MethodAnnotation.__init__"), ("androguard/core/dex/__init__.py", "ParameterAnnotation.__init__"), ("androguard/core/dex/__init__.py", "ClassManager.get_encoded_array_item"), ("androguard/core/dex/__init__.py", "ClassManager.get_annotations_directory_item"), ("androguard/core/dex/__init__.py", "ClassManager.get_annotation_set_item"), ("androguard/core/dex/__init__.py", "ClassManager.get_annotation_item"), ("androguard/core/dex/__init__.py", "ClassDataItem.set_static_fields"), ("androguard/core/dex/__init__.py", "ClassDefItem.get_annotations"), ("androguard/core/dex/__init__.py", "ClassDefItem._get_annotation_type_ids"), ("androguard/core/dex/__init__.py", "AnnotationsDirectoryItem.get_annotation_set_item"), ("androguard/core/dex/__init__.py", "AnnotationOffItem.get_annotation_item"), ("androguard/core/dex/__init__.py", "FieldIdItem.get_list"), ("androguard/core/dex/__init__.py", "MethodIdItem.get_list"), ("androguard/core/dex/__init__.py", "FieldIdItemInvalid.get_list"), ("androguard/core/dex/__init__.py", "MethodIdItemInvalid.get_list"), ("androguard/core/dex/__init__.py", "EncodedField.set_init_value"),
        ("androguard/core/dex/__init__.py", "DebugInfoItem.__init__"), ("androguard/core/dex/__init__.py", "ClassManager.get_debug_off"), ("androguard/core/dex/__init__.py", "DalvikCode.get_debug"), ("androguard/core/dex/__init__.py", "EncodedMethod.get_debug"), ("androguard/core/dex/__init__.py", "readuleb128p1"),
        ("androguard/core/dex/dex_types.py", "TypeMapItem.determine_load_order"),
        ("androguard/core/dex/dex_types.py", "TypeMapItem._get_dependencies")]

HISTORY_STEPS = ["view", "get_instructions() of every method (guarded)", "view",
                 "get_instructions(), get_instruction(0), DCode.get_raw(), DalvikCode.get_size(), DalvikCode.get_raw(), "
                 "get_insns_size(), EncodedMethod.get_length() of every method (guarded)", "view + every lookup helper"]


def _dex():
    from androguard.core import dex
    return dex


def exc_name(e):
    return type(e).__name__


def real_view(data, d=None):
    """what androguard reports for the file, in the structure of dexmodel.expected_view, plus the
    DEX object (for the lookups).  `d`: an already parsed DEX object to be asked again."""
    dex = _dex()
    if d is None:
        d = dex.DEX(data)

    def fld(f):
        return (f.get_field_idx(), f.get_class_name(), f.get_name(), f.get_descriptor(), f.get_access_flags())

    def mth(m):
        c = m.get_code()
        code = None
        if c is not None:
            insn = bytes(c.get_bc().get_insn())
            code = (c.get_registers_size(), c.get_ins_size(), c.get_outs_size(), c.get_tries_size(),
                    c.get_debug_info_off(), c.get_insns_size(), insn.hex() or "-")
        return (m.get_method_idx(), m.get_class_name(), m.get_name(), m.get_descriptor(), m.get_access_flags(), code)
    classes = []
    for c in d.get_classes():
        cd = c.get_class_data()
        si = c.get_source_file_idx()
        classes.append({
            "name": c.get_name(), "super": c.get_superclassname(), "interfaces": list(c.get_interfaces()),
            "access": c.get_access_flags(), "source": None if si == 0xFFFFFFFF else d.get_cm_string(si),
            "sf": [fld(f) for f in (cd.get_static_fields() if cd else [])],
            "if": [fld(f) for f in (cd.get_instance_fields() if cd else [])],
            "dm": [mth(m) for m in (cd.get_direct_methods() if cd else [])],
            "vm": [mth(m) for m in (cd.get_virtual_methods() if cd else [])]})
    return {"strings": d.get_strings(), "classes": classes}, d


def real_lookups(d, view):
    """every lookup helper of class DEX, called the way dexmodel.lookups_line / the Lean driver
    traverse the view"""
    ms = [m for c in view["classes"] for m in c["dm"] + c["vm"]]
    fs = [f for c in view["classes"] for f in c["sf"] + c["if"]]

    def mr(o):
        if o is None:
            return "none"
        if hasattr(o, "get_method_idx"):
            return "%d.%d" % (o.get_method_idx(), o.get_access_flags())
        return "%d.%d" % (o.get_field_idx(), o.get_access_flags())

    def cr(c):
        return "none" if c is None else "%d.%d.%d" % (c.get_access_flags(), len(c.get_methods()), len(c.get_fields()))

    def grp(tag, items, fn):
        try:
            return tag + "=" + ",".join(fn(x) for x in items)
        except Exception as e:  # noqa
            return tag + "=exc:" + exc_name(e)

    def pat(name):
        return re.escape(name) + r"\Z"
    return " ".join([
        grp("gc", view["classes"], lambda c: cr(d.get_class(c["name"]))),
        grp("md", ms, lambda m: mr(d.get_encoded_method_descriptor(m[1], m[2], m[3]))),
        grp("fd", fs, lambda f: mr(d.get_encoded_field_descriptor(f[1], f[2], f[3]))),
        grp("ms", ms, lambda m: mr(d.get_encoded_method_descriptor(*M.shift(m[1:4])))),
        grp("fs", fs, lambda f: mr(d.get_encoded_field_descriptor(*M.shift(f[1:4])))),
        grp("mi", ms, lambda m: mr(d.get_encoded_method_by_idx(m[0]))),
        grp("cm", ms, lambda m: mr(d.get_encoded_methods_class_method(m[1], m[2]))),
        grp("mc", view["classes"], lambda c: "+".join(mr(x) for x in d.get_encoded_methods_class(c["name"]))),
        grp("fc", view["classes"], lambda c: "+".join(mr(x) for x in d.get_encoded_fields_class(c["name"]))),
        grp("mn", ms, lambda m: "+".join(mr(x) for x in d.get_encoded_method(pat(m[2])))),
        grp("fn", fs, lambda f: "+".join(mr(x) for x in d.get_encoded_field(pat(f[2]))))])


def real_extra(d, view):
    """helpers that are not in the Lean line: the *IdItem regex lookups and the name lists;
    returns a list of (what, expected, observed) that differ"""
    bad = []
    try:
        names = d.get_classes_names()
        if names != [c["name"] for c in view["classes"]]:
            bad.append(("get_classes_names", [c["name"] for c in view["classes"]], names))
        for c in view["classes"]:
            for m in c["dm"] + c["vm"]:
                got = sorted((x.get_class_name(), x.get_name(), x.get_descriptor()) for x in d.get_method(re.escape(m[2]) + r"\Z"))
                want = sorted((x.get_class_name(), x.get_name(), x.get_descriptor()) for x in d.get_methods() if x.get_name() == m[2])
                if got != want or (m[1], m[2], m[3]) not in got:
                    bad.append(("get_method(%r)" % m[2], want, got))
            for f in c["sf"] + c["if"]:
                got = sorted((x.get_class_name(), x.get_name(), x.get_descriptor()) for x in d.get_field(re.escape(f[2]) + r"\Z"))
                want = sorted((x.get_class_name(), x.get_name(), x.get_descriptor()) for x in d.get_fields() if x.get_name() == f[2])
                if got != want or (f[1], f[2], f[3]) not in got:
                    bad.append(("get_field(%r)" % f[2], want, got))
    except Exception as e:  # noqa
        bad.append(("id-item lookups", "no exception", "exc:" + exc_name(e)))
    return bad


def real_line(data, extra=None, d=None):
    try:
        view, d = real_view(data, d)
        line = ("ok S[" + ",".join(M.hx(s) for s in view["strings"]) + "] C[" +
                "|".join(M._show_class(c) for c in view["classes"]) + "] L[" + real_lookups(d, view) + "]")
        if extra is not None:
            extra.extend(real_extra(d, view))
        return line
    except struct.error:
        return "err struct.error"
    except Exception as e:  # noqa
        return "err " + exc_name(e)


def real_line_x(data):
    """the canonical line of the extended model (lean/AgVerif/Model/DexFileX.lean, driver request `dexx`):
    the base line, then static values / init values / annotations directory / class annotations"""
    try:
        d = _dex().DEX(data)
    except struct.error:
        return "err struct.error"
    except Exception as e:  # noqa
        return "err " + exc_name(e)
    base = real_line(data, d=d)
    if not base.startswith("ok "):
        return base
    try:
        return base + X.real_x(d)
    except struct.error:
        return "err struct.error"
    except Exception as e:  # noqa
        return "err " + exc_name(e)


def patched_files(rng, n):
    """(origin, bytes): enriched files whose class defs were patched: static_values_off / annotations_off moved to an
    offset where no item starts or set to 0, class_data_off of one class redirected to another class's data item
    (shared ClassDataItem object: set_static_fields of both classes write the same fields)"""
    out = []
    tries = 0
    while len(out) < n and tries < 20 * n:
        tries += 1
        model = X.enrich(rng, M.gen_model(rng), long_values=True)
        if not model["classes"]:
            continue
        data = bytearray(M.build(model)[0])
        ncls, coff = struct.unpack_from("<II", data, 0x60)
        k = rng.randrange(ncls)
        base = coff + 32 * k
        what = rng.choice(["static+1", "static0", "ann+4", "ann0", "share", "share", "static-swap"])
        if what == "static+1":
            v = struct.unpack_from("<I", data, base + 28)[0]
            if not v:
                continue
            struct.pack_into("<I", data, base + 28, v + 1)
        elif what == "static0":
            struct.pack_into("<I", data, base + 28, 0)
        elif what == "ann+4":
            v = struct.unpack_from("<I", data, base + 20)[0]
            if not v:
                continue
            struct.pack_into("<I", data, base + 20, v + 4)
        elif what == "ann0":
            struct.pack_into("<I", data, base + 20, 0)
        elif what == "share":
            if ncls < 2:
                continue
            j = rng.choice([x for x in range(ncls) if x != k])
            v = struct.unpack_from("<I", data, coff + 32 * j + 24)[0]
            struct.pack_into("<I", data, base + 24, v)
        else:
            if ncls < 2:
                continue
            j = rng.choice([x for x in range(ncls) if x != k])
            v = struct.unpack_from("<I", data, coff + 32 * j + 28)[0]
            struct.pack_into("<I", data, base + 28, v)
        out.append(("patched:%s:%d" % (what, len(out)), M.A.fix_checksum(bytes(data)), model))
    return out


def _guard(fn):
    try:
        return fn()
    except Exception as e:  # noqa
        return "exc:" + exc_name(e)


def walk_code(d, deep):
    """queries that walk the instructions of every method with code (guarded: code is opaque to the
    class model and may hold units no disassembler accepts).  Returns one outcome per method:
    the first call `deep=False` only disassembles; the second also reassembles and measures."""
    out = []
    for m in d.get_encoded_methods():
        code = m.get_code()
        if code is None:
            continue
        bc = code.get_bc()
        o = {"method": "%s->%s%s" % (m.get_class_name(), m.get_name(), m.get_descriptor()),
             "declared": bytes(bc.get_insn()).hex(),
             "disasm": _guard(lambda: ",".join("%x:%d" % (i.get_op_value(), i.get_length()) for i in bc.get_instructions()))}
        if deep:
            o["first"] = _guard(lambda: "%x" % m.get_instruction(0).get_op_value())
            o["dcode_raw"] = _guard(lambda: bytes(bc.get_raw()).hex())
            o["code_size"] = _guard(lambda: code.get_size())
            o["code_raw"] = _guard(lambda: len(bytes(code.get_raw())))
            o["insns_size"] = code.get_insns_size()
            o["length"] = m.get_length()
        out.append(o)
    return out


def history(data, exp):
    """one object, a history of queries: view, disassemble everything (guarded), view, disassemble and
    reassemble everything again (guarded), view + lookups.  Returns (final line, failures, outcomes);
    a failure is (what, expected, observed): every view must be the declared structure `exp`, the
    same query must have the same outcome both times, code bytes that are returned must be the
    declared bytes, and the sizes must stay the declared sizes."""
    bad = []
    try:
        d = _dex().DEX(data)
    except Exception as e:  # noqa
        return "err " + exc_name(e), [("DEX()", "ok", "exc:" + exc_name(e))], []
    l0 = real_line(data, d=d)
    w1 = walk_code(d, False)
    l1 = real_line(data, d=d)
    w2 = walk_code(d, True)
    l2 = real_line(data, d=d)
    for tag, l in (("first view", l0), ("view after a disassembly attempt", l1),
                   ("view and lookups after disassembly and reassembly", l2)):
        if l != exp:
            e, o = first_diff(exp, l)
            bad.append((tag, e, o))
            break
    for a, b in zip(w1, w2):
        me = "%s (code %s)" % (a["method"], a["declared"])
        units = len(a["declared"]) // 4 if a["declared"] else 0
        if a["disasm"] != b["disasm"]:
            bad.append(("second get_instructions() of " + me, a["disasm"], b["disasm"]))
        if not b["dcode_raw"].startswith("exc:") and b["dcode_raw"] != a["declared"]:
            bad.append(("DCode.get_raw() of " + me, a["declared"], b["dcode_raw"]))
        if b["insns_size"] != units:
            bad.append(("get_insns_size() after the history of " + me, units, b["insns_size"]))
        if b["length"] != units:
            bad.append(("EncodedMethod.get_length() after the history of " + me, units, b["length"]))
    return l2, bad, w2


def first_diff(a, b):
    """first differing token of two canonical lines (for a readable report)"""
    if a.startswith("err") or b.startswith("err"):
        return a[:120], b[:120]
    for pat in (r"([ |\[\]])", r"([;()])", r"(/)"):
        ta, tb = re.split(pat, a), re.split(pat, b)
        for x, y in zip(ta, tb):
            if x != y:
                a, b = x, y
                break
        else:
            return a[-300:], b[-300:]     # one is a prefix of the other
    return a[:400], b[:400]


def check_model(ck, model, origin, reqs, real, cases, hist=None):
    """build, run the real parser, compare with the oracle (leg S); queue the `dex` request (leg T);
    `hist`: list collecting the final line of the query history of the same file"""
    data, b = M.build(model)
    extra = []
    rl = real_line(data, extra)
    exp = M.expected_line(model, b)
    reqs.append("dex " + hexs(data))
    real.append(rl)
    cases.append((origin, model))
    if rl != exp:
        e, o = first_diff(exp, rl)
        ck.fail({"origin": origin, "model": model}, "androguard's DEX object model differs from what the file declares",
                None, e, o)
    for what, want, got in extra[:1]:
        ck.fail({"origin": origin, "model": model, "helper": what}, "lookup helper %s" % what, None, repr(want)[:300], repr(got)[:300])
    if hist is not None:
        l2, bad, w = history(data, exp)
        hist.append((l2, w))
        for what, want, got in bad[:1]:
            ck.fail({"origin": origin, "model": model, "history": HISTORY_STEPS, "step": what},
                    "after a history of queries on one DEX object: " + what, None, str(want)[:300], str(got)[:300])
    return data, b, rl == exp and not extra


def shipped_dex():
    out = []
    base = os.path.join(REPO, "tests", "data")
    for p in sorted(glob.glob(os.path.join(base, "APK", "*.dex")) + glob.glob(os.path.join(base, "native-decl", "*.dex"))):
        out.append((os.path.relpath(p, REPO), open(p, "rb").read()))
    for p in sorted(glob.glob(os.path.join(base, "APK", "*.apk"))):
        try:
            with zipfile.ZipFile(p) as z:
                for n in z.namelist():
                    if re.fullmatch(r"classes\d*\.dex", n):
                        out.append((os.path.relpath(p, REPO) + "!" + n, z.read(n)))
        except Exception:  # noqa  (broken zips are C34's subject)
            continue
    return out


class _CM:
    pass


def item_streams(ck, drv):
    """L1: the item constructors on raw bytes, real vs model"""
    dex = _dex()
    cm = _CM()
    cm.packer = dex.DalvikPacker(0x12345678)
    rng = ck.rng
    from harness.dexasm import uleb128, sleb128

    def rd(cls, data):
        return cls(io.BufferedReader(io.BytesIO(data)), cm)

    reqs, real = [], []
    n = 40000 if ((not ck.quick) or ck.escalated) else 1500
    for i in range(n):
        kind = i % 4
        if kind == 0:      # class_data_item: structured, non-canonical lebs, sometimes truncated
            pad = rng.choice([None, None, 2, 3, 5])
            sizes = [rng.randrange(0, 4) for _ in range(4)]
            bs = b"".join(uleb128(s, pad) for s in sizes)
            for s in sizes[:2]:
                for _ in range(s):
                    bs += uleb128(rng.choice([0, 1, 2, 127, 128, 300, 70000]), pad) + uleb128(rng.randrange(1 << rng.choice([4, 12, 20, 32])), pad)
            for s in sizes[2:]:
                for _ in range(s):
                    bs += uleb128(rng.choice([0, 1, 5, 128, 16384]), pad) + uleb128(rng.randrange(1 << 18), pad) + uleb128(rng.choice([0, 0x1234, 1 << 27]), pad)
            bs += bytes(rng.randrange(256) for _ in range(rng.randrange(0, 3)))
            if rng.random() < 0.2:
                bs = bs[:rng.randrange(len(bs) + 1)]
            reqs.append("classdata " + hexs(bs))
            try:
                buf = io.BufferedReader(io.BytesIO(bs))
                c = dex.ClassDataItem(buf, cm)
                f = lambda l: "/".join("%d:%d" % (x.get_field_idx(), x.get_access_flags()) for x in l)
                m = lambda l: "/".join("%d:%d:%d" % (x.get_method_idx(), x.get_access_flags(), x.get_code_off()) for x in l)
                real.append("ok %d (%s) (%s) (%s) (%s)" % (buf.tell(), f(c.get_static_fields()), f(c.get_instance_fields()),
                                                           m(c.get_direct_methods()), m(c.get_virtual_methods())))
            except struct.error:
                real.append("err")
        elif kind == 1:    # type_list
            k = rng.randrange(0, 6)
            bs = struct.pack("<I", k) + b"".join(struct.pack("<H", rng.randrange(1 << 16)) for _ in range(k))
            bs += bytes(rng.randrange(256) for _ in range(rng.randrange(0, 4)))
            if rng.random() < 0.2:
                bs = bs[:rng.randrange(len(bs) + 1)]
            reqs.append("typelist " + hexs(bs))
            try:
                buf = io.BufferedReader(io.BytesIO(bs))
                t = dex.TypeList(buf, cm)
                real.append("ok %d %s" % (buf.tell(), ",".join(str(x.get_type_idx()) for x in t.get_list())))
            except struct.error:
                real.append("err")
        elif kind == 2:    # code_item
            units = rng.randrange(0, 6)
            ntries = rng.choice([0, 0, 1, 2])
            bs = struct.pack("<HHHHII", rng.randrange(1 << 16), rng.randrange(1 << 16), rng.randrange(1 << 16), ntries,
                             rng.randrange(1 << 32), units) + bytes(rng.randrange(256) for _ in range(2 * units))
            if ntries:
                if units & 1:
                    bs += b"\x00\x00"
                for _ in range(ntries):
                    bs += struct.pack("<IHH", rng.randrange(100), rng.randrange(100), rng.randrange(20))
                nh = rng.randrange(1, 3)
                bs += uleb128(nh)
                for _ in range(nh):
                    sz = rng.randrange(-2, 3)
                    bs += sleb128(sz)
                    for _ in range(abs(sz)):
                        bs += uleb128(rng.randrange(300)) + uleb128(rng.randrange(300))
                    if sz <= 0:
                        bs += uleb128(rng.randrange(300))
            bs += bytes(rng.randrange(256) for _ in range(rng.randrange(0, 3)))
            if rng.random() < 0.25:
                bs = bs[:rng.randrange(len(bs) + 1)]
            reqs.append("code " + hexs(bs))
            try:
                buf = io.BufferedReader(io.BytesIO(bs))
                c = dex.DalvikCode(buf, cm)
                real.append("ok %d %d.%d.%d.%d.%d.%d.%s" % (buf.tell(), c.get_registers_size(), c.get_ins_size(), c.get_outs_size(),
                                                           c.get_tries_size(), c.get_debug_info_off(), c.get_insns_size(),
                                                           hexs(bytes(c.get_bc().get_insn()))))
            except struct.error:
                real.append("err")
        else:              # proto/field/method/class_def raw unpacking (no resolution: the CM is a stub)
            bs = bytes(rng.randrange(256) for _ in range(rng.choice([32, 32, 40, 12, 8, 7, 0, 31])))
            reqs.append("ids " + hexs(bs))

            def up(fmt):
                try:
                    return ".".join(str(x) for x in cm.packer[fmt].unpack(bs[:struct.calcsize("<" + fmt)]))
                except struct.error:
                    return "err"
            real.append(" ".join([up("3I"), up("2HI"), up("2HI"), up("8I")]))
    model = drv.ask(reqs)
    ck.compare("dex-items", reqs, real, model)
    return len(reqs)


def x_streams(ck, drv, big):
    """the extended model (static values, init values, annotations): real vs model (`dexx`), real vs oracle"""
    rng = ck.rng
    reqs, real, cases = [], [], []
    n = 20000 if not ck.quick else (3000 if ck.escalated else 500)
    dist = {"x_files": 0, "x_agree_with_oracle": 0, "x_classes_with_static_values": 0, "x_classes_with_annotations": 0,
            "x_static_values": 0}
    for i in range(n):
        model = X.enrich(rng, M.gen_model(rng))
        data, b = M.build(model)
        rl = real_line_x(data)
        exp = M.expected_line(model, b) + X.expected_x(model, b, data)
        reqs.append("dexx " + hexs(data))
        real.append(rl)
        cases.append(("xrandom:%d" % i, model))
        dist["x_files"] += 1
        dist["x_agree_with_oracle"] += rl == exp
        for c in model["classes"]:
            dist["x_classes_with_static_values"] += c.get("xstatic") is not None or any(f[3] is not None for f in c["sfields"])
            dist["x_static_values"] += len(c.get("xstatic") or ())
            dist["x_classes_with_annotations"] += bool(c.get("xann") or c.get("annotate"))
        if rl != exp:
            e, o = first_diff(exp, rl)
            ck.fail({"origin": "xrandom:%d" % i, "model": model, "extended": True},
                    "static values / init values / annotations reported by androguard differ from what the file declares",
                    None, e, o)
    # class defs patched after writing (no oracle: the files are malformed on purpose)
    for origin, data, model in patched_files(rng, 3000 if not ck.quick else (600 if ck.escalated else 120)):
        reqs.append("dexx " + hexs(data))
        real.append(real_line_x(data))
        cases.append((origin, model))
    dist["x_patched_files"] = sum(1 for c in cases if c[0].startswith("patched"))
    dist["x_patched_errors"] = sum(1 for c, r in zip(cases, real) if c[0].startswith("patched") and r.startswith("err"))
    ck.compare("dexx", ["dexx <%s>" % c[0] for c in cases], real, drv.ask(reqs))
    for m in ck.corr_mismatch:
        if m["stream"] == "dexx":
            origin = m["request"].split("<", 1)[1][:-1]
            mm = next((c[1] for c in cases if c[0] == origin), None)
            m["case"] = {"origin": origin, "model": mm, "extended": True}
            m["real"], m["model"] = first_diff(m["real"], m["model"])
    # shipped files
    sreqs, sreal, names = [], [], []
    for name, data in shipped_dex():
        if len(data) > (700000 if big else 40000):
            continue
        sreqs.append("dexx " + hexs(data))
        sreal.append(real_line_x(data))
        names.append(name)
    ck.compare("dexx-shipped", ["dexx <%s>" % n_ for n_ in names], sreal, drv.ask(sreqs))
    # sections missing from the map: KeyError / AttributeError paths of the eager lookups
    from harness.dexasm import (DexBuilder, Field, Method, Code, Annotation, VALUE_STRING, VALUE_TYPE, VALUE_FIELD,
                                VALUE_METHOD, VALUE_ENUM, VALUE_INT, VALUE_ARRAY)
    dreqs, dreal, dnames = [], [], []
    variants = {"string": [(VALUE_STRING, "hi")], "type": [(VALUE_TYPE, "LFoo;")], "field": [(VALUE_FIELD, ("LFoo;", "X", "I"))],
                "enum": [(VALUE_ENUM, ("LFoo;", "X", "I"))], "method": [(VALUE_METHOD, ("LFoo;", "f", "I", ("I", "J")))],
                "int": [(VALUE_INT, 7)], "nested": [(VALUE_ARRAY, [(VALUE_INT, 1), (VALUE_STRING, "hi")])]}
    for vname, vals in variants.items():
        for t in (0x0001, 0x0002, 0x0003, 0x0004, 0x0005, 0x0006, 0x1001, 0x2000, 0x2002, 0x2004, 0x2005, 0x2006, 0x1003, 0x1002):
            bld = DexBuilder()
            ann = {"class": [Annotation(1, "Ljava/lang/Deprecated;", [("value", vals[0])])],
                   "parameters": {("f", "I", ("I", "J")): [[Annotation(0, "LAnn;", [])], None]}}
            bld.add_class("LFoo;", interfaces=("Ljava/lang/Runnable;",), source_file="Foo.java",
                          static_fields=[Field("X", "I", 0x9), Field("Y", "Ljava/lang/Object;", 0x9)],
                          virtual_methods=[Method("f", "I", ("I", "J"), 0x1, Code(5, 4, 0, [("const/4", 0, 1), ("return", 0)]))],
                          static_values=vals, annotations=ann)
            data = bld.build(map_order=lambda es, t=t: [e for e in es if e[0] != t])
            dreqs.append("dexx " + hexs(data))
            dreal.append(real_line_x(data))
            dnames.append("dexx <static %s, no map entry 0x%04x>" % (vname, t))
    ck.compare("dexx-missing-section", dnames, dreal, drv.ask(dreqs))
    dist["x_missing_section_files"] = len(dnames)
    dist["x_missing_section_errors"] = sum(1 for r in dreal if r.startswith("err"))
    dist["x_shipped_files"] = len(names)
    ck.cover(evaluations=dist["x_files"], dist=dist)
    return dist


KEY_GET_DEBUG = "get-debug-off-seeks-on-dex-object"


def show_debug_real(di):
    ops = ";".join("%d:%s" % (b.get_op_value(), ",".join(str(v) for v, _t in b.format)) for b in di.get_bytecodes())
    return "%d [%s] %s" % (di.get_line_start(), ",".join(str(x) for x in di.get_parameter_names()), ops)


def debug_streams(ck, drv):
    """debug_info_item: the item constructor on raw bytes (`debuginfo`), and EncodedMethod.get_debug() of every
    method with code of generated files (`dexdbg`), real vs model; oracle for the files: the generator's line
    start and parameter names"""
    dex = _dex()
    cm = _CM()
    cm.packer = dex.DalvikPacker(0x12345678)
    rng = ck.rng
    from harness.dexasm import uleb128, sleb128, uleb128p1
    reqs, real = [], []
    n = 30000 if ((not ck.quick) or ck.escalated) else 1500
    kinds = {1: "u", 2: "s", 3: "upp", 4: "uppp", 5: "u", 6: "u", 9: "p"}
    for i in range(n):
        pad = rng.choice([None, None, None, 2, 5])
        np_ = rng.choice([0, 0, 1, 2, 3])
        bs = uleb128(rng.choice([0, 1, 127, 128, 70000, 2 ** 32 - 1]), pad) + uleb128(np_, pad)
        for _ in range(np_):
            bs += uleb128p1(rng.choice([-1, 0, 5, 300]), pad)
        for _ in range(rng.randrange(0, 8)):
            op = rng.choice([1, 2, 3, 4, 5, 6, 7, 8, 9, 10, 0x7f, 0xff, rng.randrange(1, 256)])
            bs += bytes([op])
            for k in kinds.get(op, ""):
                if k == "u":
                    bs += uleb128(rng.choice([0, 1, 200, 65535, 2 ** 28]), pad)
                elif k == "s":
                    bs += sleb128(rng.choice([0, -1, 1, -64, 63, 64, -65, 2 ** 31 - 1, -2 ** 31, 100000]), pad)
                else:
                    bs += uleb128p1(rng.choice([-1, 0, 7, 1000]), pad)
        if rng.random() < 0.85:
            bs += b"\x00"
        bs += bytes(rng.randrange(256) for _ in range(rng.randrange(0, 3)))
        if rng.random() < 0.2:
            bs = bs[:rng.randrange(len(bs) + 1)]
        if rng.random() < 0.1:
            bs = bytes(rng.randrange(256) for _ in range(rng.randrange(0, 12)))
        reqs.append("debuginfo " + hexs(bs))
        try:
            buf = io.BufferedReader(io.BytesIO(bs))
            di = dex.DebugInfoItem(buf, cm)
            real.append("ok %d %s" % (buf.tell(), show_debug_real(di)))
        except struct.error:
            real.append("err")
    ck.compare("debuginfo", reqs, real, drv.ask(reqs))
    # file level: get_debug() of every method with code
    freqs, freal, fcases = [], [], []
    accessor_broken = []
    nf = 4000 if not ck.quick else (1000 if ck.escalated else 150)
    ndbg = 0
    for i in range(nf):
        model = M.gen_model(rng)
        data, b = M.build(model)
        try:
            d = dex.DEX(data)
            parts = []
            for m in d.get_encoded_methods():
                c = m.get_code()
                if c is None:
                    continue
                try:
                    try:
                        di = m.get_debug()
                    except AttributeError as e:
                        # the defect repaired by fixes/C05-get-debug-off.diff: get_debug_off seeks on the DEX object, not its buffer
                        if "seek" not in str(e):
                            raise
                        if not accessor_broken:
                            accessor_broken.append(True)
                            ck.fail({"origin": "dbg:%d" % i, "model": model, "accessor": "EncodedMethod.get_debug()"},
                                    "EncodedMethod.get_debug() raises AttributeError on every parsed file "
                                    "(ClassManager.get_debug_off calls seek on the DEX object, not on its buffer)",
                                    KEY_GET_DEBUG, "a DebugInfoItem", "AttributeError: " + str(e))
                        d.raw.seek(c.get_debug_info_off())        # what get_debug_off is meant to do (fixes/C05-get-debug-off.diff)
                        di = dex.DebugInfoItem(d.raw, d.get_class_manager())
                    parts.append("%d=%s" % (c.get_debug_info_off(), show_debug_real(di)))
                except struct.error:
                    parts.append("%d=err" % c.get_debug_info_off())
            rl = "ok " + "|".join(parts)
        except struct.error:
            rl = "err struct.error"
        except Exception as e:  # noqa
            rl = "err " + exc_name(e)
        freqs.append("dexdbg " + hexs(data))
        freal.append(rl)
        fcases.append(("dbg:%d" % i, model))
        # oracle: methods the generator gave debug info report its line start and parameter names (string indices)
        exp = {}
        for c in model["classes"]:
            for m in c["dmethods"] + c["vmethods"]:
                if m[4] is not None and m[4].get("debug") is not None:
                    ref = (M.A.norm_str(c["name"]), M.A.norm_str(m[0]), M.A.norm_str(m[1]), tuple(M.A.norm_str(p) for p in m[2]))
                    off = b.layout["debug_info"].get(ref, 0)
                    line, pnames = m[4]["debug"][:2]
                    ops = m[4]["debug"][2] if len(m[4]["debug"]) > 2 else []
                    exp[off] = "%d [%s] %s0:" % (line, ",".join(str(-1 if p is None else b.string_idx(p)) for p in pnames),
                                                 "".join("%d:%s;" % (o[0], ",".join(str(v) for v in o[1:])) for o in ops))
        got = dict(p.split("=", 1) for p in rl[3:].split("|") if "=" in p) if rl.startswith("ok ") else {}
        for off, want in exp.items():
            ndbg += 1
            if got.get(str(off)) != want:
                ck.fail({"origin": "dbg:%d" % i, "model": model, "debug_off": off}, "debug info of a method differs from what the file declares",
                        None, want, str(got.get(str(off))))
                break
    ck.compare("dexdbg", ["dexdbg <%s>" % c[0] for c in fcases], freal, drv.ask(freqs))
    ck.cover(evaluations=ndbg, dist={"debuginfo_item_cases": len(reqs), "debuginfo_item_errors": sum(1 for r in real if r == "err"),
                                     "dexdbg_files": len(freqs), "dexdbg_methods_with_debug_info": ndbg})


def load_corpus():
    out = []
    for p in sorted(glob.glob(os.path.join(CORPUS, "*.json"))):
        out.append((os.path.relpath(p, VERIF), json.load(open(p))["model"]))
    return out


def run(ck: Check):
    ck.pins_changed(PINS)
    big = (not ck.quick) or ck.escalated    # a hand-modelled function changed: thorough sizes in the quick tier too
    ck.run_gen("mapdeps")
    ck.prove(exes=["drv_C05"])
    drv = Driver("drv_C05")
    ck.rule = ("random class models (0..4 classes, non-ASCII / colliding identifiers, primitive/array/class types, wide "
               "parameters, abstract/native methods, index gaps, tries, debug info, padded LEB128, code with undecodable "
               "units at the end / in the middle, format versions 035..041) written by harness/dexasm.py; every file is "
               "judged once freshly parsed and along a history of queries on one object (view, disassemble, view, "
               "disassemble + reassemble + measure, view + lookups); "
               "distinct = distinct file bytes; non-trivial = at least one class with a member")
    reqs, real, cases, hist = [], [], [], []
    dist = {"files": 0, "classes": 0, "fields": 0, "methods": 0, "methods_without_code": 0, "with_tries": 0,
            "leb_padded_files": 0, "colliding_field_keys": 0, "empty_files": 0, "agree_with_oracle": 0}
    distinct = set()
    # corpus first
    for origin, model in [("witness:key-collision", M.WITNESS_KEY_COLLISION)] + load_corpus():
        check_model(ck, model, origin, reqs, real, cases, hist)
    n = 60000 if not ck.quick else (12000 if ck.escalated else 2000)
    for i in range(n):
        model = M.gen_model(ck.rng)
        data, b, ok = check_model(ck, model, "random:%d" % i, reqs, real, cases, hist)
        dist["files"] += 1
        dist["agree_with_oracle"] += ok
        dist["classes"] += len(model["classes"])
        dist["empty_files"] += not model["classes"]
        dist["leb_padded_files"] += model["build"]["leb_pad"] > 0
        for c in model["classes"]:
            dist["fields"] += len(c["sfields"]) + len(c["ifields"])
            ms = c["dmethods"] + c["vmethods"]
            dist["methods"] += len(ms)
            dist["methods_without_code"] += sum(1 for m in ms if m[4] is None)
            dist["with_tries"] += sum(1 for m in ms if m[4] and m[4]["tries"])
            keys = [f[0] + f[1] for f in c["sfields"] + c["ifields"]]
            dist["colliding_field_keys"] += len(keys) - len(set(keys))
        if any(c["sfields"] or c["ifields"] or c["dmethods"] or c["vmethods"] for c in model["classes"]):
            distinct.add(hash(data))
    model_lines = drv.ask(reqs)
    ck.compare("dex", ["dex <%s>" % (c[0],) for c in cases], real, model_lines)
    # the model is a function of the bytes: at the end of any history of queries it still says the same
    ck.compare("dex-history", ["dex-history <%s>" % (c[0],) for c in cases], [h[0] for h in hist], model_lines)
    hw = [o for h in hist for o in h[1]]
    dist["history_files"] = len(hist)
    dist["history_methods_walked"] = len(hw)
    dist["history_methods_undecodable"] = sum(1 for o in hw if o["disasm"].startswith("exc:"))
    dist["history_methods_reassembled"] = sum(1 for o in hw if not o["dcode_raw"].startswith("exc:"))
    # keep the diverging models replayable
    for m in ck.corr_mismatch:
        if m["stream"] in ("dex", "dex-history"):
            origin = m["request"].split("<", 1)[1][:-1]
            mm = next((c[1] for c in cases if c[0] == origin), None)
            m["case"] = {"origin": origin, "model": mm}
            a, b_ = first_diff(m["real"], m["model"])
            m["real"], m["model"] = a, b_
    samples = []
    for k in (1, len(cases) // 2, len(cases) - 1):
        if 0 <= k < len(cases):
            samples.append({"origin": cases[k][0], "classes": [c["name"] for c in cases[k][1]["classes"]],
                            "real_line_prefix": real[k][:160]})
    ck.cover(evaluations=len(cases), distinct=distinct, samples=samples, dist=dist)
    # shipped files: real vs model (no class model to compare with)
    sreqs, sreal, names = [], [], []
    nbig = 0
    for name, data in shipped_dex():
        if len(data) > (700000 if big else 40000):
            nbig += 1
            continue
        sreqs.append("dex " + hexs(data))
        sreal.append(real_line(data))
        names.append(name)
    smodel = drv.ask(sreqs)
    ck.compare("dex-shipped", ["dex <%s>" % n_ for n_ in names], sreal, smodel)
    for m in ck.corr_mismatch:
        if m["stream"] == "dex-shipped":
            m["real"], m["model"] = first_diff(m["real"], m["model"])
    ck.cover(dist={"shipped_files": len(names), "shipped_skipped_large": nbig})
    # sections missing from the map (the WF hypotheses of parse_encode; `wf_needed`): real vs model
    from harness.dexasm import DexBuilder, Field, Method, Code
    dreqs, dreal, dnames = [], [], []
    for t in (0x0001, 0x0002, 0x0003, 0x0004, 0x0005, 0x0006, 0x1001, 0x2000, 0x2001, 0x2002):
        bld = DexBuilder()
        bld.add_class("LFoo;", interfaces=("Ljava/lang/Runnable;",), source_file="Foo.java",
                      static_fields=[Field("X", "I", 0x9)],
                      virtual_methods=[Method("f", "I", ("I", "J"), 0x1, Code(5, 4, 0, [("const/4", 0, 1), ("return", 0)]))])
        data = bld.build(map_order=lambda es, t=t: [e for e in es if e[0] != t])
        dreqs.append("dex " + hexs(data))
        dreal.append(real_line(data))
        dnames.append("dex <no map entry 0x%04x>" % t)
    ck.compare("dex-missing-section", dnames, dreal, drv.ask(dreqs))
    ck.cover(dist={"missing_section_files": len(dnames), "missing_section_errors": sum(1 for r in dreal if r.startswith("err"))})
    # extended model: static values, init values, annotations
    x_streams(ck, drv, big)
    # debug_info_item (parsed lazily, per method)
    debug_streams(ck, drv)
    # item-level streams
    k = item_streams(ck, drv)
    ck.cover(dist={"item_stream_cases": k})
    ck.notes.append("file level: parse_encode (= C05_full) is proved for every file that Encodes well-formed tables in any "
                    "layout (code items with or without tries); the theorem's domain is files whose sections are stored "
                    "back to back at the offsets their map entries give — everything else (truncated, overlapping item "
                    "types, duplicate map types) is covered by the correspondence and the oracle only")
    ck.notes.append("extension: parse_encode_static_values / parse_encode_annotations are proved for files that EncodesX extended "
                    "tables (base tables + encoded_array_item, annotation_item, annotation_set_item, annotation_set_ref_list and "
                    "annotations_directory_item sections) in any layout; field / method / parameter annotation offsets inside a "
                    "directory are only stored by the loader (never dereferenced at load time) and are reported as stored")
    ck.notes.append("debug_info_item: the loader keeps the section as raw bytes and parses a method's item on demand; decoder and "
                    "file-level access are modelled (decDebugInfo / getDebug, theorems debug_info_roundtrip / debug_info_from_file, "
                    "streams debuginfo / dexdbg). Model and oracle describe androguard WITH fixes/C05-get-debug-off.diff: without it "
                    "EncodedMethod.get_debug() raises AttributeError on every file (finding " + KEY_GET_DEBUG + "), which the "
                    "dexdbg stream reports as a failing input")
    ck.partial.append("call sites / method handles and hidden-api data are outside the model; the DebugInfoItemEmpty raw copy of the "
                      "debug section and the lazy getters of field / method / parameter annotations are not modelled")
    ck.assumptions += [
        "mutf8.decode is an injective renaming of MUTF-8 byte strings that commutes with concatenation (C06); the model keeps raw bytes",
        "header validation (C09), debug info, call sites / method handles, hidden-api data are not in the model; static values and "
        "annotations are in the extended model (Model/DexFileX.lean, stream dexx), of which the base model is a proved refinement",
        "the regex helpers are called with re.escape(name)+r'\\Z' and modelled as name equality",
        "model and oracle describe androguard with fixes/C05-lookup-helpers.diff and fixes/C05-get-debug-off.diff applied",
    ]


def replay(ck: Check, rp):
    c = rp.get("case") or rp.get("first_divergence", {}).get("case") or {}
    model = c.get("model")
    if model is None:
        print("nothing to replay in", rp.get("kind"))
        return 0
    data, b = M.build(model)
    if c.get("accessor"):
        d = _dex().DEX(data)
        for m in d.get_encoded_methods():
            if m.get_code() is None:
                continue
            try:
                di = m.get_debug()
                print("%s->%s: get_debug() ok, line_start %d" % (m.get_class_name(), m.get_name(), di.get_line_start()))
                return 0
            except Exception as e:  # noqa
                print("%s->%s: get_debug() raises %s: %s" % (m.get_class_name(), m.get_name(), exc_name(e), e))
                print("known finding", KEY_GET_DEBUG, "(fixes/C05-get-debug-off.diff)")
                return 1
        print("no method with code in this file")
        return 0
    if c.get("extended"):
        rl = real_line_x(data)
        exp = M.expected_line(model, b) + X.expected_x(model, b, data)
        print("origin:", c.get("origin"), " file bytes:", len(data), "(extended view)")
        if str(c.get("origin", "")).startswith("patched"):
            print("patched class defs are not rebuilt by replay; the unpatched file follows")
        try:
            ml = Driver("drv_C05").ask(["dexx " + hexs(data)])[0]
            print("lean model == real:", ml == rl, " lean model == expected:", ml == exp)
        except Exception as ex:  # noqa
            print("driver unavailable:", ex)
        if rl == exp:
            print("real == expected")
            return 0
        e, o = first_diff(exp, rl)
        print("expected:", e)
        print("observed:", o)
        return 1
    extra = []
    rl = real_line(data, extra)
    exp = M.expected_line(model, b)
    print("origin:", c.get("origin"), " file bytes:", len(data))
    l2, bad, w = history(data, exp)
    for what, want, got in bad[:4]:
        print("history:", what)
        print("  expected:", str(want)[:300])
        print("  observed:", str(got)[:300])
    if rl == exp and not extra and not bad:
        print("real == expected (fresh parse and along the history", HISTORY_STEPS, ")")
        return 0
    if rl == exp and not extra:
        return 1
    e, o = first_diff(exp, rl)
    print("expected:", e)
    print("observed:", o)
    for x in extra[:3]:
        print("helper:", x)
    try:
        ml = Driver("drv_C05").ask(["dex " + hexs(data)])[0]
        print("lean model == real:", ml == rl, " lean model == expected:", ml == exp)
    except Exception as ex:  # noqa
        print("driver unavailable:", ex)
    return 1
