"""C38 — cleaned file names are portable (DESIGN.md section 6, C37/C38; defect D21).

Registered against the tree with fixes/C38-clean-file-name-limits.diff applied; on the unfixed tree the
oracle reports the D21 witnesses (corpus/C38) as failing inputs.

P: Props/C38.lean (model AgVerif.Paths of posixpath + the fixed clean_file_name), Gen/Paths.lean regenerated.
T: streams  posix   os.path.split/splitext/basename/dirname/normpath/join   vs the model
            regex   Python `re` on the pattern TEXTS found in the source        vs the hand-compiled predicates
            clean   the real clean_file_name in scratch directories with colliding files vs the model
S: oracle = the five conditions of the statement, on the real return value and the real file system.
"""
import glob
import json
import os
import re
import shutil
import signal
import tempfile

from harness.fw import REPO, VERIF, Check, Driver, ToolFailure

PINS = [("androguard/misc.py", "clean_file_name")]

RESERVED = '<>:"/\\|?*'
NAMES = ["CON", "PRN", "AUX", "NUL"] + ["COM%d" % i for i in range(10)] + ["LPT%d" % i for i in range(10)]


# ------------------------------------------------------------------ wire format
def enc(s: str) -> str:
    return ".".join("%x" % ord(c) for c in s) if s else "-"


def has_surrogate(s: str) -> bool:
    return any(0xD800 <= ord(c) <= 0xDFFF for c in s)


def cps(s):
    return [ord(c) for c in s]


def from_cps(l):
    return "".join(chr(x) for x in l)


# ------------------------------------------------------------------ generators
def rand_char(rng, surrogates=False):
    k = rng.randrange(20)
    if k == 0:
        return chr(rng.randrange(0, 32))
    if k == 1:
        return rng.choice(RESERVED)
    if k in (2, 3):
        return " "
    if k in (4, 5):
        return "."
    if k == 6:
        return rng.choice("_-$()[]{}~'`+=,;!@#%^&\x7f\n\r\t\x00")
    if k == 7:
        return chr(rng.randrange(0x80, 0x800))
    if k == 8:
        c = rng.randrange(0x800, 0x10000)
        if 0xD800 <= c <= 0xDFFF and not surrogates:
            c = 0x20AC
        return chr(c)
    if k == 9:
        return chr(rng.randrange(0x10000, 0x110000))
    return rng.choice("abcdefghijklmnopqrstuvwxyzABCDEFGHIJKLMNOPQRSTUVWXYZ0123456789_")


def rand_run(rng, n, surrogates=False):
    """n characters; mostly one "texture" so that long runs of dots/spaces/letters occur"""
    t = rng.randrange(8)
    if t == 0:
        return "".join(rng.choice(" .") for _ in range(n))
    if t == 1:
        return rng.choice(" ._a") * n
    if t in (2, 3):
        return "".join(rng.choice("abcXYZ019_") for _ in range(n))
    if t == 4:
        return "".join(rng.choice("ab .") for _ in range(n))
    return "".join(rand_char(rng, surrogates) for _ in range(n))


def rand_len(rng):
    k = rng.randrange(10)
    if k < 3:
        return rng.randrange(0, 12)
    if k < 5:
        return rng.randrange(222, 240)
    if k < 6:
        return rng.randrange(110, 120)
    return rng.randrange(0, 601)


def rand_basename(rng, surrogates=False):
    """with / without extension, reserved-name prefixes, interesting characters near the cut positions"""
    total = rand_len(rng)
    shape = rng.randrange(8)
    if shape == 0:                                      # no extension
        s = rand_run(rng, total, surrogates)
    elif shape in (1, 2, 3):                            # stem.ext with a short / boundary / long extension
        el = rng.choice((0, 1, 3, 4, 10, 113, 114, 115, 116, 200, 228, 229, 230, 300))
        el = min(el, total)
        s = rand_run(rng, max(total - el - 1, 0), surrogates) + "." + rand_run(rng, el, surrogates).replace(".", "e")
    elif shape == 4:                                    # several chunks
        s = ""
        while len(s) < total:
            s += rand_run(rng, rng.randrange(1, 40), surrogates)
        s = s[:total]
    elif shape == 5:                                    # space/dot exactly around position 230
        fill = rng.choice("ab_")
        s = fill * rng.randrange(226, 231) + rng.choice([" ", ".", "  ", "..", ". ", " ."]) + rand_run(rng, rng.randrange(0, 8))
    elif shape == 6:
        s = rng.choice(NAMES) + rand_run(rng, rng.randrange(0, 6), surrogates)
    else:
        s = "".join(rand_char(rng, surrogates) for _ in range(total))
    if rng.randrange(12) == 0:
        s = rng.choice(NAMES) + s
    if rng.randrange(10) == 0:
        s += rng.choice([" ", ".", "\n", " \n", ".\n", "..", "  "])
    return s.replace("/", rng.choice(["_", "/"]) if rng.randrange(30) == 0 else "_")


DIRS = ["", "d", "d/", "d//", "./d", "d/.", "d/e/..", "d/e", "//d", "."]


def rand_path(rng, maxlen=40):
    parts = []
    for _ in range(rng.randrange(0, 7)):
        parts.append(rng.choice(["", "", ".", "..", "a", "b", "...", "a.b", ".a", "a.", "..a", " ", "x.tar.gz", "\x00",
                                 rand_run(rng, rng.randrange(0, 5))]))
    s = "/".join(parts)
    if rng.randrange(3) == 0:
        s = rng.choice(["/", "//", "///", "////"]) + s
    return s[:maxlen]


# ------------------------------------------------------------------ the real function
def real_clean():
    from androguard.misc import clean_file_name
    return clean_file_name


class Hang(Exception):
    pass


def _alarm(signum, frame):
    raise Hang()


def canon_clean(fn, filename, unique, replace, limit=10.0):
    """the real call; a uniqueness loop that never finds a free name is cut off after `limit` seconds"""
    old = signal.signal(signal.SIGALRM, _alarm)
    signal.setitimer(signal.ITIMER_REAL, limit)
    try:
        r = fn(filename, unique=unique, replace=replace)
    except ValueError:
        return "valueerror", None
    except Hang:
        return "hang", None
    except Exception as e:  # noqa
        return "other:" + type(e).__name__, None
    finally:
        signal.setitimer(signal.ITIMER_REAL, 0)
        signal.signal(signal.SIGALRM, old)
    if not isinstance(r, str):
        return "other:" + type(r).__name__, None
    return ("ok " + enc(r)) if not has_surrogate(r) else "ok <surrogate>", r


# ------------------------------------------------------------------ independent oracle (the statement)
def oracle(filename, unique, result):
    """list of violated conditions; plain string operations and the file system, nothing of the model"""
    bad = []
    i = result.rfind("/")
    directory, name = result[:i + 1], result[i + 1:]
    j = filename.rfind("/")
    directory0 = filename[:j + 1]
    if any(ord(c) < 32 or c in RESERVED for c in name):
        bad.append("reserved-or-control-character")
    if name[-1:] in (" ", "."):
        bad.append("ends-with-space-or-dot")
    if len(name) > 230:
        bad.append("longer-than-230")
    if directory.rstrip("/") != directory0.rstrip("/") or bool(directory) != bool(directory0) \
            or os.path.dirname(result) != os.path.dirname(filename):
        bad.append("different-directory")
    if unique:
        try:
            if os.path.isfile(result):
                bad.append("names-an-existing-file")
        except ValueError:
            pass
    return bad


class Scratch:
    """a scratch root; every case gets a fresh working directory below it"""

    def __init__(self):
        self.root = tempfile.mkdtemp(prefix="c38-")
        self.n = 0
        self.cwd0 = os.getcwd()

    def fresh(self):
        self.n += 1
        p = os.path.join(self.root, "w%d" % self.n)
        os.makedirs(os.path.join(p, "d", "e"))
        os.chdir(p)
        return p

    def done(self, p):
        os.chdir(self.cwd0)
        shutil.rmtree(p, ignore_errors=True)

    def close(self):
        os.chdir(self.cwd0)
        shutil.rmtree(self.root, ignore_errors=True)


def touch(path):
    try:
        with open(path, "w"):
            pass
        return True
    except (OSError, ValueError):
        return False


def listing(dirpart):
    """every regular file of the directory the function will look into, named the way it will ask for it"""
    d = dirpart or "."
    try:
        names = sorted(os.listdir(d))
    except (OSError, ValueError):
        return []
    out = []
    for n in names:
        p = os.path.join(dirpart, n)
        if os.path.isfile(p):
            out.append(p)
    return out


def make_tree(tree):
    """tree: [["dir", path] | ["file", path] | ["link", path, target]] relative to the working directory"""
    for op in tree:
        kind, path = op[0], op[1]
        try:
            if kind == "dir":
                os.makedirs(path, exist_ok=True)
            elif kind == "file":
                touch(path)
            elif kind == "link":
                os.symlink(op[2], path)
        except OSError:
            pass


def oracle_dirs(filename, unique, result):
    """the two file-system conditions of the statement, by what the paths DENOTE (symlinks, '..' resolved by the kernel)"""
    bad = []
    d0, d1 = os.path.dirname(filename) or ".", os.path.dirname(result) or "."
    try:
        if os.path.exists(d0):
            if not (os.path.exists(d1) and os.path.samefile(d0, d1)):
                bad.append("denotes-a-different-directory")
        elif os.path.dirname(filename) != os.path.dirname(result):
            bad.append("different-directory")
        if unique and os.path.lexists(result):
            bad.append("names-an-existing-file")
    except ValueError:
        pass
    return bad


def run_case(fn, scratch, case):
    """case: {"name": [code points of the whole path], "unique": bool, "replace": [code points],
              "files": [[code points] ...] files to create first (relative to the working directory),
              "tree": optional directory/symlink/file layout made before, "abs": prefix the path with the working directory}
    returns (canonical reply, raw result, files the directory held at call time, violated conditions)"""
    filename, replace = from_cps(case["name"]), from_cps(case["replace"])
    w = scratch.fresh()
    try:
        make_tree(case.get("tree", []))
        for f in case.get("files", []):
            touch(from_cps(f))
        if case.get("abs"):
            filename = os.path.join(w, filename)
        dirpart = os.path.split(filename)[0]
        files = listing(dirpart) if case["unique"] else []
        reply, r = canon_clean(fn, filename, case["unique"], replace)
        bad = oracle(filename, case["unique"], r) if r is not None else []
        if r is not None and "tree" in case:
            bad += [b for b in oracle_dirs(filename, case["unique"], r) if b not in bad]
        if reply == "hang":
            bad = ["does-not-return (uniqueness loop still running after 10 s with %d files in the directory)" % len(files)]
        return reply, r, files, bad, filename
    finally:
        scratch.done(w)


# ------------------------------------------------------------------ directory shapes (deterministic)
SHAPE_TREE = [["dir", "real/sub"], ["dir", "work/plain"], ["dir", "other"],
              ["link", "work/link", "../real/sub"],          # work/link -> real/sub : work/link/.. is real, lexically work
              ["link", "work/flat", "plain"],                # link to a sibling: physical and lexical parent agree
              ["link", "work/up", ".."],                     # work/up -> the working directory itself
              ["link", "work/dangling", "nowhere"]]
# (directory part, the directory it DENOTES or None, the directory a purely lexical normalisation gives)
SHAPE_DIRS = [
    ("work/link/..", "real", "work"), ("work/link/../", "real", "work"), ("work/link/..//", "real", "work"),
    ("work/link/../.", "real", "work"), ("work/link/./..", "real", "work"), ("./work/link/..", "real", "work"),
    ("work//link/..", "real", "work"), ("work/link/../../work/link/..", "real", "work"),
    ("work/link/../sub/..", "real", "work"), ("other/../work/link/..", "real", "work"),
    ("work/link", "real/sub", "work/link"), ("work/link/", "real/sub", "work/link"), ("work/link/.", "real/sub", "work/link"),
    ("work/link/../sub", "real/sub", "work/sub"),
    ("work/plain/..", "work", "work"), ("work/plain/../", "work", "work"), ("work/plain/../plain", "work/plain", "work/plain"),
    ("work/flat/..", "work", "work"), ("work/flat", "work/plain", "work/flat"),
    ("work/up/real", "real", "work/up/real"), ("work/up/../real", None, "work/real"), ("work/up/..", "..", "work"),
    ("work/missing/..", None, "work"), ("work/missing/../plain", None, "work/plain"), ("missing/..", None, "."),
    ("work/dangling/..", None, "work"),
    ("work", "work", "work"), ("work/", "work", "work"), ("work/.", "work", "work"), ("", ".", "."), (".", ".", "."),
    ("real/sub/../../work", "work", "work"), ("real/sub/..", "real", "real"),
]
SHAPE_NAMES = ["report.txt", "noext", "a" * 300 + ".txt", "x. "]


def shape_cases(fn, scratch):
    """every directory shape x name x absolute/relative x where the colliding files are put:
    nowhere / in the directory the path DENOTES / in the lexically normalised directory / in both; chains of 1 and 3"""
    out = []
    for dpart, phys, lex in SHAPE_DIRS:
        for name in SHAPE_NAMES:
            # the names the REAL function hands out one after the other in a plain directory
            chain = [os.path.basename(m) for m in build_collisions(fn, scratch, name, 3)]
            for absolute in (False, True):
                for where in ("none", "phys", "lex", "both"):
                    for k in (1, 3):
                        if where == "none" and k == 3:
                            continue
                        tree = [list(x) for x in SHAPE_TREE]
                        for base in ([phys] if where in ("phys", "both") else []) + ([lex] if where in ("lex", "both") else []):
                            if base is None or base == "..":
                                continue
                            for c in chain[:k]:
                                tree.append(["file", os.path.join(base, c)])
                        out.append({"name": cps((dpart + "/" if dpart and not dpart.endswith("/") else dpart) + name),
                                    "unique": True, "replace": cps("_"), "files": [], "tree": tree, "abs": absolute,
                                    "shape": [dpart, where, k]})
    return out


def build_collisions(fn, scratch, filename, k):
    """let the REAL function name k successive files (each call's result is created), return their names"""
    w = scratch.fresh()
    made = []
    try:
        cand = canon_clean(fn, filename, False, "_")[1]
        for _ in range(k):
            if cand is None or has_surrogate(cand) or not touch(cand):
                break
            made.append(cand)
            cand = canon_clean(fn, filename, True, "_", limit=5.0)[1]       # None when it raises or hangs
        return made
    finally:
        scratch.done(w)


# ------------------------------------------------------------------ run
def corpus_cases():
    out = []
    for p in sorted(glob.glob(os.path.join(VERIF, "corpus", "C38", "*.json"))):
        d = json.load(open(p))
        d["_file"] = os.path.basename(p)
        out.append(d)
    return out


def report(ck, case, bad, reply):
    ck.fail({k: v for k, v in case.items() if not k.startswith("_")},
            "clean_file_name result violates: " + ", ".join(bad), key=None,
            expected="no reserved/control character, no trailing space or dot, at most 230 characters, "
                     "same directory, not an existing file", observed=reply)


def run(ck: Check):
    rng = ck.rng
    ck.pins_changed(PINS)

    def size(q, t):
        """quick size unless thorough tier or escalated (a changed clean_file_name gets the thorough sizes);
        once a failing input is on record the verdict is settled and the quick size is enough"""
        return q if ck.quick and (not ck.escalated or ck.failures) else t
    ok_gen = ck.run_gen("paths")
    ck.prove(exes=["drv_C38"])
    try:
        drv = Driver("drv_C38")
    except ToolFailure:
        if not ck.p_errors:
            raise
        drv = None                                   # the broken build is already recorded; S still runs
    fn = real_clean()
    scratch = Scratch()
    ck.rule = ("posix: random slash/dot-heavy paths; regex: random strings against the source's pattern texts; clean: "
               "basenames of length 0..600 (clusters at 0..12, 110..120, 222..240) over control, reserved, space, dot, "
               "ASCII, BMP, astral characters, with/without extension (extension lengths 0..300, boundary 113..116, "
               "228..230), reserved device names, in directories '', d, d/, d//, ./d, d/e/.., //d …, unique on/off, "
               "0..13 colliding files made by the real function itself; oracle-only: names with lone surrogates; directory "
               "shapes: every combination of 33 directory parts (through a symlinked directory then '..', '.', '//', "
               "trailing slash, '..' after a real directory, after a link to a sibling, after a missing or dangling "
               "component, relative and absolute) x 4 names x colliding files put nowhere / where the path denotes / "
               "where its lexical normalisation points / both (judged by os.path.samefile and os.path.lexists). "
               "distinct = distinct (path, unique, replace, files); non-trivial = the cleaned name differs from the input "
               "or a collision had to be avoided")
    try:
        # ---- corpus first
        for c in corpus_cases():
            reply, r, files, bad, _ = run_case(fn, scratch, c)
            ck.search_cases += 1
            if bad:
                report(ck, c, bad, reply)
        # ---- T + S: clean_file_name
        reqs, real, cases = [], [], []
        dist = {"len_0_12": 0, "len_13_229": 0, "len_230_plus": 0, "with_dot": 0, "changed": 0, "unique": 0,
                "collisions_avoided": 0, "valueerror": 0, "surrogate_only_oracle": 0, "custom_replace": 0,
                "directory_shapes": 0}
        seen = set()

        def one(case, in_corr=True):
            reply, r, files, bad, name = run_case(fn, scratch, case)
            base = name[name.rfind("/") + 1:]
            dist["len_0_12" if len(base) <= 12 else "len_13_229" if len(base) < 230 else "len_230_plus"] += 1
            dist["with_dot"] += "." in base
            dist["unique"] += bool(case["unique"])
            dist["valueerror"] += reply == "valueerror"
            nontrivial = r is not None and r != name
            dist["changed"] += nontrivial
            if case["unique"] and r is not None and files and os.path.join(os.path.split(name)[0], "") is not None:
                first = canon_clean(fn, name, False, from_cps(case["replace"]))[1]
                if first is not None and first != r:
                    dist["collisions_avoided"] += 1
                    nontrivial = True
            if nontrivial:
                seen.add((name, case["unique"], tuple(case["replace"]), len(files)))
            if bad:
                report(ck, case, bad, reply)
            if in_corr and not has_surrogate(name) and not has_surrogate(from_cps(case["replace"])):
                reqs.append("clean %s %s %s%s" % (enc("1" if case["unique"] else "0"), enc(from_cps(case["replace"])),
                                                  enc(name), "".join(" " + enc(f) for f in files)))
                real.append(reply)
            cases.append(case)
            return reply, r

        # deterministic: symlinked / '..' / missing directory parts, collisions where the path points and where it
        # only seems to point
        for case in shape_cases(fn, scratch):
            dist["directory_shapes"] += 1
            one(case)
        n_plain, n_uniq, n_surr = size(8000, 300000), size(1000, 30000), size(1000, 20000)
        for i in range(n_plain):
            if ck.quick and ck.failures and i >= 8000:  # escalated run: the verdict is settled, stop at the quick size
                break
            d = rng.choice(DIRS) if rng.randrange(3) else ""
            name = (d + "/" if d else "") + rand_basename(rng)
            rep = "_"
            if rng.randrange(8) == 0:
                rep = rng.choice(["-", "__", "x", "é", "_.", "", " ", "a/b", "_\n", "ab", "\x00", "__" + "y" * rng.randrange(0, 4)])
                dist["custom_replace"] += 1
            one({"name": cps(name), "unique": False, "replace": cps(rep), "files": []})
        hangs = 0
        for i in range(n_uniq):
            if ck.quick and ck.failures and i >= 1000:
                break
            if hangs >= 3:                           # every further case would cost another 10 s
                ck.notes.append("uniqueness stream stopped after 3 calls that did not return")
                break
            d = rng.choice(DIRS)
            name = (d + "/" if d else "") + rand_basename(rng)
            if has_surrogate(name):
                continue
            k = rng.choice((0, 1, 1, 2, 3, 5, 11, 12, 13))
            made = build_collisions(fn, scratch, name, k)
            extra = []
            if rng.randrange(4) == 0:                # files that look like candidates but are not in the chain
                b = os.path.basename(made[0]) if made else "x"
                extra = [os.path.join(os.path.split(name)[0], b[:rng.randrange(0, 6)] + "_%d" % rng.randrange(0, 3))]
            reply, _ = one({"name": cps(name), "unique": True, "replace": cps("_"), "files": [cps(m) for m in made + extra]})
            hangs += reply == "hang"
        for i in range(n_surr):                      # oracle only: Lean's Char has no lone surrogates
            name = rng.choice(["", "d/"]) + rand_basename(rng, surrogates=True) + rng.choice(["", "\udc80", "\ud800."])
            if has_surrogate(name):
                dist["surrogate_only_oracle"] += 1
            one({"name": cps(name), "unique": bool(rng.randrange(2)), "replace": cps("_"), "files": []}, in_corr=False)
        if drv:
            ck.compare("clean", reqs, real, drv.ask(reqs))
        # ---- T: posixpath
        n_posix = size(3000, 60000)
        reqs, real = [], []
        for _ in range(n_posix):
            p = rand_path(rng)
            for op, f in (("split", os.path.split), ("splitext", os.path.splitext)):
                a, b = f(p)
                reqs.append(f"{op} {enc(p)}"); real.append(f"{enc(a)} {enc(b)}")
            for op, f in (("basename", os.path.basename), ("dirname", os.path.dirname), ("normpath", os.path.normpath)):
                reqs.append(f"{op} {enc(p)}"); real.append(enc(f(p)))
            q = [rand_path(rng, 12) for _ in range(rng.randrange(0, 4))]
            reqs.append("join " + " ".join(enc(x) for x in [p] + q)); real.append(enc(os.path.join(p, *q)))
        if drv:
            ck.compare("posix", reqs, real, drv.ask(reqs))
        # ---- T: the regular expressions (pattern text from the source) against the hand compilation
        try:
            from gen.paths import extract
            pats = extract(REPO)["clean_calls"]
        except Exception:  # noqa  (already recorded by run_gen)
            pats = None
        if pats and drv:
            reqs, real = [], []
            for _ in range(size(4000, 100000)):
                s = rand_basename(rng)[: rng.choice((3, 8, 40, 300))]
                rep = rng.choice(["_", "_", "-", "__", "x", "é", rand_run(rng, rng.randrange(0, 3))])
                reqs.append(f"validrep {enc(s[:3])}")
                real.append("0" if (not s[:3] or re.search(pats[0][1], s[:3])) else "1")
                reqs.append(f"resname {enc(s)}"); real.append("1" if re.match(pats[1][1], s) else "0")
                reqs.append(f"subres {enc(rep)} {enc(s)}"); real.append(enc(re.sub(pats[2][1], lambda m: rep, s)))
                reqs.append(f"subtrail {enc(rep)} {enc(s)}"); real.append(enc(re.sub(pats[3][1], lambda m: rep, s)))
            for n in list(range(0, 130)) + [rng.randrange(0, 3000) for _ in range(50)]:
                reqs.append(f"digits {enc('x' * n)}"); real.append(enc("{}".format(n)))
            ck.compare("regex", reqs, real, drv.ask(reqs))
        samples = []
        for c in cases[:: max(1, len(cases) // 3)][:3]:
            nm = from_cps(c["name"])
            samples.append({"input": repr(nm[:60]) + ("…(%d chars)" % len(nm) if len(nm) > 60 else ""), "unique": c["unique"],
                            "existing_files": len(c["files"]),
                            "output": repr((canon_clean(fn, nm, False, from_cps(c["replace"]))[1] or "ValueError")[-40:])})
        ck.cover(evaluations=len(cases), distinct=seen, samples=samples, dist=dist)
    finally:
        scratch.close()
    ck.assumptions += [
        "POSIX (os.name != 'nt') and force_nt=False; the NT-only path-length branch is outside the model",
        "os.path.isfile is a membership test in the list of regular files of the directory (no races, no symlinks)",
        "Python's `re` on the five pattern texts is modelled by hand-compiled predicates (stream `regex` compares them)",
        "length_le and termination of the uniqueness loop for unique=True are proved for fewer than 10^100 existing files",
    ]
    if not ok_gen:
        ck.notes.append("translator gen/paths.py could not read the source (see proof_errors)")


def replay(ck: Check, rp):
    fn = real_clean()
    c = rp.get("case") or {}
    if "name" not in c:
        print("replay: broken obligation, nothing to run:", json.dumps(rp.get("first_divergence") or rp.get("errors"), indent=1)[:3000])
        return 0
    scratch = Scratch()
    try:
        reply, r, files, bad, fname = run_case(fn, scratch, c)
    finally:
        scratch.close()
    if c.get("tree"):
        print("tree       :", [t for t in c["tree"]])
        print("called with:", repr(fname))
    print("input      :", repr(from_cps(c["name"])), "unique =", c["unique"], "replace =", repr(from_cps(c["replace"])))
    print("files      :", [from_cps(f) for f in c.get("files", [])])
    print("result     :", repr(r), "" if r is None else "(name length %d)" % len(r[r.rfind('/') + 1:]))
    print("violated   :", bad or "nothing")
    return 1 if bad else 0
