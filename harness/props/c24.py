"""C24 — Type descriptors are rendered as the right Java type names (DESIGN.md section 6, C24).

P: AgVerif.Props.C24 (get_type_denotes / util_get_type_exact / dex_get_type_exact for every well-formed
   descriptor; WFDesc = the specification's own decidable descriptor reader), proved against
   AgVerif.Gen.TypeDesc, which gen/typedesc.py regenerates from the source (both TYPE_DESCRIPTOR tables and
   every literal of the two get_type functions).
T: real decompiler.util.get_type and core.dex.get_type vs the Lean models (drv_C24 `util` / `dex`), on
   well-formed AND malformed strings (quirks included: '', 'java.lang.String', 'Ljava/lang/;', ...).
S: independent oracle = the descriptor grammar and Java naming rule written directly in Python (regex),
   judging the real functions and, end to end, the field / parameter / return types in DvClass.get_source
   of a DEX generated with harness/dexasm.
"""
import glob
import json
import os
import re

from harness.fw import Check, Driver, ToolFailure, VERIF

# hand-modelled functions (Model/TypeName.lean); a changed AST escalates the search (ck.pins_changed)
PINS = [("androguard/decompiler/util.py", "get_type"),
        ("androguard/core/dex/__init__.py", "get_type")]

PRIMS = {"Z": "boolean", "B": "byte", "S": "short", "C": "char", "I": "int", "J": "long", "F": "float", "D": "double"}


# ------------------------------------------------------------------ real code
def canon(fn, d, size):
    try:
        r = fn(d, size) if size is not None else fn(d)
    except IndexError:
        return "index-error"
    except RecursionError:
        return "recursion"
    except Exception as e:  # noqa
        return "other:" + type(e).__name__
    if not isinstance(r, str):
        return "other:" + type(r).__name__
    return "ok " + enc(r)


def enc(s):
    return ".".join("%x" % ord(c) for c in s) if s else "-"


def real_fns():
    from androguard.decompiler import util
    from androguard.core import dex
    return util.get_type, dex.get_type


# ------------------------------------------------------------------ independent oracle
def simple_name_char(c):
    o = ord(c)
    return (c.isascii() and (c.isalnum() or c in " $-_")) or o == 0xa0 or 0xa1 <= o <= 0x1fff or 0x2000 <= o <= 0x200a \
        or 0x2010 <= o <= 0x2027 or o == 0x202f or 0x2030 <= o <= 0xd7ff or 0xe000 <= o <= 0xffef or 0x10000 <= o <= 0x10ffff


DESC_RE = re.compile(r"(\[*)(?:([ZBSCIJFD])|L([^;]*);)", re.S)


def spec_names(d):
    """None if d is not a well-formed type descriptor, else the set of acceptable Java names"""
    if d == "V":
        return {"void"}
    m = DESC_RE.fullmatch(d)
    if not m:
        return None
    dims, prim, cls = m.groups()
    suffix = "[]" * len(dims)
    if prim:
        return {PRIMS[prim] + suffix}
    parts = cls.split("/")
    if any(p == "" or not all(simple_name_char(c) for c in p) for p in parts):
        return None
    names = {".".join(parts) + suffix}
    if len(parts) == 3 and parts[0] == "java" and parts[1] == "lang":
        names.add(parts[2] + suffix)           # direct member of java.lang: the package may be dropped
    return names


# ------------------------------------------------------------------ generators
SEGS = ["java", "lang", "javax", "language", "lan", "langX", "langu", "jav", "javaa", "util", "reflect", "annotation", "invoke",
        "String", "Object", "Long", "Integer", "a", "b", "g", "n", "l", "v", "j", "C$1", "native", "gnal", "avaj", "Foo",
        "ref", "nal", "gal", "vanilla", "java_lang", "lang-x", "Ljava", "I", "V", "Z", "été", "名前",
        "\U0001F600", "x y", "_", "$", "0", "java$lang", "Thread$State", "ang", "va", "alang"]
ALPHA = "javlng" * 3 + "JAVLNG/;[.$_-0aZ é"


def rand_seg(rng):
    if rng.random() < 0.7:
        return rng.choice(SEGS)
    return "".join(rng.choice("javlngxyzJL$_09") for _ in range(rng.choice((1, 1, 2, 3, 5, 8))))


def rand_class(rng):
    k = rng.randrange(10)
    if k == 0: parts = ["java", "lang", rand_seg(rng)]
    elif k == 1: parts = ["java", "lang", rand_seg(rng), rand_seg(rng)]
    elif k == 2: parts = ["java", "lang", rand_seg(rng), rand_seg(rng), rand_seg(rng)]
    elif k == 3: parts = ["java", rng.choice(["language", "langX", "lan", "langu", "lang$", "lang-x", "util"]), rand_seg(rng)]
    elif k == 4: parts = [rng.choice(["javax", "jav", "javaa", "avaj", "Java"]), "lang", rand_seg(rng)]
    elif k == 5: parts = ["java", "lang"][:rng.choice((1, 2))]
    elif k == 6: parts = [rand_seg(rng), "java", "lang", rand_seg(rng)]
    else: parts = [rand_seg(rng) for _ in range(rng.choice((1, 1, 2, 3, 4, 6)))]
    return "L" + "/".join(parts) + ";"


def rand_wf(rng):
    base = rng.choice(list(PRIMS)) if rng.random() < 0.25 else rand_class(rng)
    dims = rng.choice((0, 0, 0, 1, 1, 2, 3, 4, 7, 40, 255)) if rng.random() < 0.6 else 0
    return "[" * dims + base


def mutate(rng, d):
    k = rng.randrange(12)
    if k == 0: return d[:-1]
    if k == 1: return d.replace("/", ".")
    if k == 2: return d.replace("/", "//", 1)
    if k == 3: return "java.lang." + d
    if k == 4: return d[1:]
    if k == 5: return d + rng.choice(";[LI/")
    if k == 6:
        i = rng.randrange(len(d) + 1)
        return d[:i] + rng.choice(ALPHA) + d[i:]
    if k == 7:
        i = rng.randrange(len(d))
        return d[:i] + d[i + 1:]
    if k == 8: return "".join(rng.choice(ALPHA) for _ in range(rng.choice((0, 1, 2, 3, 6, 12))))
    if k == 9: return rng.choice(["java.lang", "java.lang.", "java.lang.String", "java.langI", "a.I", "lang.V", "java.lang.[I",
                                  "java.lang.Ljava.lang.I", "jI", "...J", "gnalZ", "java.lang.java.lang.D"]) + rng.choice(["", "", ";", "[]"])
    if k == 10: return "[" * rng.randrange(4) + rng.choice(["V", "", "L", "L;", "Ljava/lang/;", "Ljava/lang;", "Ljava/lang", "X", "LL;;"])
    return d.upper() if rng.random() < 0.5 else d.lower()


FIXED = ["V", "", "[", "[[", "L", "L;", "Ljava/lang/;", "Ljava/lang;", "Ljava/lang/", "Ljava/lang", "Ljava/langX;", "Ljava/lang/String;",
         "Ljava/lang/reflect/Method;", "Ljava/language/Foo;", "Ljava/lang/annotation/Foo;", "Ljavax/a/B;", "Ljava/lang/native;",
         "Ljava/lang/Long;", "Ljava/lang/long;", "Ljava/lang/a;", "Ljava/lang/j;", "Ljava/lang/g/v;", "[Ljava/lang/Object;",
         "[[Ljava/lang/reflect/Array;", "Llang/String;", "LString;", "Ljava/String;", "Ljava/lang/lang/lang;", "Ljava/lang/java/lang/X;",
         "Ljava/lang/Thread$State;", "java.lang.String", "java/lang/String", "Ljava.lang.String;", "I[", "II", "[V", "X", "Ljava/lang/String",
         "Ljava/lang/String;;", "Ljava/lang//String;", "L/java/lang/String;", "Ljava/lang/Str.ing;", "Ljava/lang/[I;"]


def corpus_cases():
    return [json.load(open(p))["desc"] for p in sorted(glob.glob(os.path.join(VERIF, "corpus", "C24", "*.json")))]


# ------------------------------------------------------------------ end to end
def e2e_sources(descs):
    """one class with a static field f<i> of each type and a method m<i>(T) returning T[] is decompiled;
    returns {i: (field type text, param type text, return type text)} as found in DvClass.get_source"""
    from harness import dexasm as A
    from androguard.core.dex import DEX
    from androguard.core.analysis.analysis import Analysis
    from androguard.decompiler.decompile import DvClass
    b = A.DexBuilder()
    fields, methods = [], []
    for i, d in enumerate(descs):
        fields.append(A.Field("f%d" % i, d, 0x9))

        def body(bb):
            code, _ = A.assemble([("const/4", 0, 0), ("return-object", 0)])
            return code
        wide = 2 if d in ("J", "D") else 1
        methods.append(A.Method("m%d" % i, "[" + d, (d,), 0x9, A.Code(1 + wide, wide, 0, body)))
    b.add_class("Lc24/Host;", static_fields=fields, direct_methods=methods)
    dx_d = DEX(b.build())
    dx = Analysis(dx_d)
    out = {}
    for c in dx_d.get_classes():
        dc = DvClass(c, dx)
        dc.process()
        src = dc.get_source()
        for m in re.finditer(r"^    public static (.+) f(\d+);$", src, re.M):
            out.setdefault(int(m.group(2)), [None, None, None])[0] = m.group(1)
        for m in re.finditer(r"^    public static (.+) m(\d+)\((.+) p\d+\)$", src, re.M):
            e = out.setdefault(int(m.group(2)), [None, None, None])
            e[2], e[1] = m.group(1), m.group(3)
    return out, src


# ------------------------------------------------------------------ run
def run(ck: Check):
    ck.pins_changed(PINS)
    ck.run_gen("typedesc")
    ck.prove(exes=["drv_C24"])
    drv = Driver("drv_C24")
    rng = ck.rng
    util_get, dex_get = real_fns()
    ck.rule = ("descriptors: corpus, hand-made list, V and the 8 primitives x 0..4 dimensions, seeded random class descriptors "
               "(java/lang direct members, java/lang sub-packages, look-alikes java/language javax java/langX, names made of the "
               "characters j a v l n g, unicode names, inner classes) x nested arrays, and malformed mutations (correspondence only). "
               "distinct = distinct well-formed descriptor; non-trivial = class or array type")
    descs = corpus_cases() + list(FIXED)
    descs += ["[" * k + p for p in ["V"] + list(PRIMS) for k in range(5)]
    big = (not ck.quick) or getattr(ck, "escalated", False)
    n = 600000 if big else 30000
    for _ in range(n):
        d = rand_wf(rng)
        descs.append(d)
        if rng.random() < 0.45:
            descs.append(mutate(rng, d))
    sizes = [None if rng.random() < 0.85 else rng.choice((0, 1, 7, 10, 255, 65536, 10 ** 12)) for _ in descs]
    for i in range(len(corpus_cases()) + len(FIXED)):
        sizes[i] = None

    # ---- T
    reqs_u, reqs_d, real_u, real_d, idx = [], [], [], [], []
    all_u, all_d = [], []
    for i, (d, sz) in enumerate(zip(descs, sizes)):
        ru, rd = canon(util_get, d, sz), canon(dex_get, d, sz)
        all_u.append(ru); all_d.append(rd)
        if all(not 0xD800 <= ord(c) < 0xE000 for c in d):
            s = "none" if sz is None else str(sz)
            reqs_u.append(f"util {enc(d)} {s}"); real_u.append(ru)
            reqs_d.append(f"dex {enc(d)} {s}"); real_d.append(rd)
    ck.compare("decompiler.util.get_type", reqs_u, real_u, drv.ask(reqs_u))
    ck.compare("core.dex.get_type", reqs_d, real_d, drv.ask(reqs_d))
    # the specification's reader (Lean) against the oracle's reader (Python): same well-formedness, same names
    wfreq = [f"wf {enc(d)}" for d in dict.fromkeys(descs) if all(not 0xD800 <= ord(c) < 0xE000 for c in d)]
    mine = []
    for rq in wfreq:
        w = rq.split()[1]
        d = "" if w == "-" else "".join(chr(int(x, 16)) for x in w.split("."))
        names = spec_names(d)
        if names is None:
            mine.append("not-wf")
        else:
            full = max(names, key=len)
            short = [x for x in names if x != full]
            mine.append(f"wf {enc(full)} {enc(short[0]) if short else 'none'}")
    ck.compare("Spec.parseDesc vs oracle grammar", wfreq, mine, drv.ask(wfreq))

    # ---- S
    nwf = nmal = 0
    dist = {"primitive_or_void": 0, "java_lang_direct": 0, "java_lang_subpackage": 0, "java_lookalike": 0, "other_class": 0,
            "array": 0, "malformed(correspondence only)": 0, "with_size": 0}
    for d, sz, ru, rd in zip(descs, sizes, all_u, all_d):
        names = spec_names(d)
        if names is None:
            nmal += 1; dist["malformed(correspondence only)"] += 1
            continue
        nwf += 1
        if d.startswith("["): dist["array"] += 1
        b = d.lstrip("[")
        if len(b) == 1: dist["primitive_or_void"] += 1
        elif b.startswith("Ljava/lang/") and b.count("/") == 2: dist["java_lang_direct"] += 1
        elif b.startswith("Ljava/lang/"): dist["java_lang_subpackage"] += 1
        elif b.startswith("Ljava") or b.startswith("Ljav"): dist["java_lookalike"] += 1
        else: dist["other_class"] += 1
        if sz is not None:
            dist["with_size"] += 1
            if not d.startswith("["):
                continue
            # T[size]: the element name with the size between the last brackets
            names = {x[:-2] + "[%d]" % sz for x in names}
        for fn, r in (("decompiler.util.get_type", ru), ("core.dex.get_type", rd)):
            want = {"ok " + enc(x) for x in names}
            if r not in want:
                got = r
                if r.startswith("ok "):
                    got = "".join(chr(int(x, 16)) for x in r[3:].split(".")) if r != "ok -" else ""
                ck.fail({"fn": fn, "desc": d, "size": sz}, f"{fn} renders a well-formed descriptor as a name that does not denote its type",
                        None, sorted(names), got)
    ck.cover(evaluations=2 * len(descs), distinct=(d for d in set(descs) if spec_names(d) is not None and len(d) > 1),
             samples=[{"desc": descs[i], "util": all_u[i], "dex": all_d[i], "accepted": sorted(spec_names(descs[i]) or ["(malformed)"])}
                      for i in (len(corpus_cases()) + 12, len(descs) // 2, len(descs) - 1)],
             dist=dict(dist, well_formed=nwf))

    # ---- S: end to end through the DEX parser and DvClass.get_source
    ne = 3000 if big else 250
    pool = [d for d in dict.fromkeys(corpus_cases() + FIXED + [rand_wf(rng) for _ in range(ne)])
            if spec_names(d) and d != "V" and " " not in d and d.count("[") < 200 and all(ord(c) < 0xD800 or 0xE000 <= ord(c) for c in d)]
    try:
        got, src = e2e_sources(pool)
    except Exception as e:  # noqa
        raise ToolFailure("end-to-end DEX construction/decompilation failed: %r" % (e,))
    seen = 0
    for i, d in enumerate(pool):
        names = spec_names(d)
        arr = {x + "[]" for x in names}
        f, p, r = got.get(i, [None, None, None])
        for what, val, acc in (("field type", f, names), ("parameter type", p, names), ("return type", r, arr)):
            if val is None:
                continue
            seen += 1
            if val not in acc:
                ck.fail({"fn": "DvClass.get_source", "desc": d, "where": what}, f"DvClass.get_source writes a {what} that does not denote the descriptor's type",
                        None, sorted(acc), val)
    if seen < 2 * len(pool):
        raise ToolFailure(f"end-to-end: only {seen} type texts found for {len(pool)} descriptors; source tail: {src[-300:]!r}")
    ck.cover(evaluations=seen, distinct=(), samples=[{"via": "DvClass.get_source", "desc": pool[-1], "field/param/return": got.get(len(pool) - 1)}],
             dist={"end_to_end_type_texts": seen})
    ck.assumptions.append("a name is right if it denotes the type: fully qualified, or unqualified for a direct member of java.lang "
                          "(DESIGN section 10); Python str primitives (dict.get, slices, startswith, in, replace, lstrip, %, format) are "
                          "modelled in Model/TypeName.lean and compared with CPython through the correspondence")
    ck.notes.append("model and theorems describe decompiler/util.get_type with fixes/C24-java-lang-prefix.diff; on the unfixed tree the "
                    "translator reports the different shape and the oracle reports Ljava/lang/reflect/Method; etc. (corpus/C24)")


def replay(ck: Check, rp):
    c = rp.get("case") or {}
    if "desc" not in c:
        print("replay:", json.dumps(rp.get("first_divergence") or rp.get("errors"), indent=1)[:3000])
        d = rp.get("first_divergence")
        if d and d.get("request", "").split()[:1] in (["util"], ["dex"]):
            kind, w, sz = d["request"].split()
            s = "" if w == "-" else "".join(chr(int(x, 16)) for x in w.split("."))
            fn = real_fns()[0 if kind == "util" else 1]
            print("descriptor:", repr(s), "size:", sz)
            print("real now :", canon(fn, s, None if sz == "none" else int(sz)))
            print("model now:", Driver("drv_C24").ask([d["request"]])[0])
        return 0
    d, sz = c["desc"], c.get("size")
    util_get, dex_get = real_fns()
    names = spec_names(d)
    print("descriptor          :", repr(d), "size:", sz)
    print("accepted Java names :", sorted(names) if names else "(not a well-formed descriptor)")
    bad = 0
    if c.get("fn") == "DvClass.get_source":
        got, _ = e2e_sources([d])
        print("DvClass.get_source (field, parameter, return[]):", got.get(0))
        f, p, r = got.get(0, [None] * 3)
        bad = int(not (f in names and p in names and r in {x + "[]" for x in names}))
    else:
        for nm, fn in (("decompiler.util.get_type", util_get), ("core.dex.get_type", dex_get)):
            try:
                r = fn(d, sz) if sz is not None else fn(d)
            except Exception as e:  # noqa
                r = e
            acc = names if sz is None else {x[:-2] + "[%d]" % sz for x in (names or [])}
            okk = names is None or r in acc
            print(f"{nm:26}: {r!r}  {'ok' if okk else 'WRONG'}")
            bad += 0 if okk else 1
    print("FAILS" if bad else "HOLDS")
    return 1 if bad else 0
