"""C12 — see harness/cfg_common.py (shared harness of C10/C11/C12/C40) and harness/cfg_oracle.py (judge_c12)."""
from harness import cfg_common

PROP = "C12"


def run(ck):
    cfg_common.run(ck, PROP)


def replay(ck, rp):
    return cfg_common.replay(ck, rp, PROP)
