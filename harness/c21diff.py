"""C21 differential execution: generated Dalvik method -> (a) independent interpreter on the bytes,
(b) real DAD decompiler -> javac -> java.  Used by harness/props/c21.py (legs T/S)."""
import os
import re
import shutil
import tempfile

from harness import dexasm
from harness.dalvik_interp import Machine
from harness import javagen


def assemble_items(items):
    """goto -> goto/16 when a short branch does not reach"""
    try:
        dexasm.assemble(items)
        return items
    except ValueError:
        items = [(('goto/16',) + it[1:]) if isinstance(it, tuple) and it[0] == 'goto' else it for it in items]
        dexasm.assemble(items)
        return items


def build_dex(methods, cls='LT;'):
    b = dexasm.DexBuilder()
    ms = []
    for m in methods:
        m['items'] = assemble_items(m['items'])
        ms.append(dexasm.Method(m['name'], m['ret'], tuple(m['params']), 0x9,
                                dexasm.Code(m['registers'], m['ins'], 0, list(m['items']))))
    b.add_class(cls, direct_methods=ms)
    data = b.build()
    codes = {}
    for ref, code in b.code_bytes.items():
        codes[_ref_name(ref)] = code
    return data, codes


def _ref_name(ref):
    # method reference key: (class, name, ret, params) or an object carrying it
    if isinstance(ref, tuple):
        return ref[1]
    k = getattr(ref, 'key', None)
    if isinstance(k, tuple):
        return k[1]
    raise TypeError(ref)


def decompile_all(data):
    """{method name: ('ok', java source) | ('crash', 'Type: message')} with the real decompiler"""
    from androguard.core.dex import DEX
    from androguard.core.analysis.analysis import Analysis
    from androguard.decompiler.decompile import DvMethod
    d = DEX(data)
    dx = Analysis(d)
    out = {}
    for m in (m for c in d.get_classes() for m in c.get_methods()):
        name = str(m.get_name())
        try:
            dv = DvMethod(dx.get_method(m))
            dv.process()
            out[name] = ('ok', dv.get_source())
        except Exception as e:  # noqa
            out[name] = ('crash', '%s: %s' % (type(e).__name__, str(e)[:200]))
    return out


def reference(method, code, tuples, max_steps=200000):
    mach = Machine(code, method['registers'])
    res = []
    for t in tuples:
        r = mach.run(list(t), method['params'], max_steps)
        if r[0] == 'ret':
            res.append(str(r[1]))
        elif r[0] == 'exc':
            res.append('AE')
        else:
            res.append('STEPS')
    return res


def classify_reject(msg, source):
    """a precise signature for a javac rejection of decompiler output"""
    if ' cmp ' in source and ("';' expected" in msg or 'not a statement' in msg or "')' expected" in msg):
        return 'javac:cmp-as-value'
    if 'integer number too large' in msg:
        return 'javac:long-literal-without-suffix'
    if 'might not have been initialized' in msg:
        return 'javac:variable-might-not-have-been-initialized'
    if 'is already defined' in msg:
        return 'javac:variable-already-defined'
    if 'cannot find symbol' in msg:
        return 'javac:cannot-find-symbol'
    if 'incompatible types' in msg:
        return 'javac:incompatible-types:' + msg.split('incompatible types:')[-1].strip()
    if 'unreachable statement' in msg:
        return 'javac:unreachable-statement'
    if 'missing return statement' in msg:
        return 'javac:missing-return'
    if 'break outside switch or loop' in msg:
        return 'javac:break-outside-loop'
    return 'javac:' + re.sub(r'\s+', ' ', msg)[:60]


def run_batch(methods, cls, tuples_of, workdir=None, java_timeout=120):
    """methods: generator dicts.  tuples_of: {name: [arg tuples]}.
    Returns list of per-method records:
       {name, status: 'agree'|'crash'|'rejected'|'hang'|'differs', detail, source, expected, observed, first_bad}"""
    own = workdir is None
    if own:
        workdir = tempfile.mkdtemp(prefix='c21-')
    os.makedirs(workdir, exist_ok=True)
    try:
        data, codes = build_dex(methods)
        dec = decompile_all(data)
        recs = {}
        bench = []
        for m in methods:
            n = m['name']
            st, payload = dec.get(n, ('crash', 'method not found by the decompiler'))
            rec = {'name': n, 'status': None, 'detail': None, 'source': payload if st == 'ok' else None}
            recs[n] = rec
            if st != 'ok':
                rec['status'], rec['detail'] = 'crash', payload
                continue
            bench.append({'name': n, 'ret': m['ret'], 'params': m['params'], 'source': payload, 'tuples': tuples_of[n]})
        results, rejected, hung = javagen.compile_and_run(cls, bench, workdir, java_timeout=java_timeout)
        for n, msg in rejected.items():
            recs[n]['status'] = 'rejected'
            recs[n]['detail'] = msg
            recs[n]['key'] = classify_reject(msg, recs[n]['source'])
        for n in hung:
            recs[n]['status'], recs[n]['detail'] = 'hang', 'the compiled decompiler output did not terminate'
        for m in methods:
            n = m['name']
            rec = recs[n]
            if rec['status']:
                continue
            exp = reference(m, codes[n], tuples_of[n])
            got = results.get(n, {})
            obs = [got.get(i, 'MISSING') for i in range(len(exp))]
            rec['expected'], rec['observed'] = exp, obs
            bad = [i for i in range(len(exp)) if exp[i] != obs[i]]
            if bad:
                rec['status'] = 'differs'
                rec['first_bad'] = bad[0]
                rec['detail'] = 'args %r: bytecode gives %s, decompiled Java gives %s (%d of %d tuples differ)' % (
                    list(tuples_of[n][bad[0]]), exp[bad[0]], obs[bad[0]], len(bad), len(exp))
            else:
                rec['status'] = 'agree'
        return [recs[m['name']] for m in methods]
    finally:
        if own:
            shutil.rmtree(workdir, ignore_errors=True)
