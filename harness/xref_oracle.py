"""Independent oracle for C13..C16: every cross-reference relation as a *comprehension* over the
program description (the flat form of harness/xref_common.py), written from the property statements
and the Dalvik bytecode document, sharing no code with the Lean model or with androguard.

    invoke-kind            6e..72, invoke-kind/range 74..78        (method reference)
    const-string 1a, const-string/jumbo 1b                         (string reference)
    const-class 1c, new-instance 22                                (type reference)
    iget* 52..58 iput* 59..5f sget* 60..66 sput* 67..6d            (field reference)

Interpretations (DESIGN.md section 10): a call whose receiver type is an array is attributed to the
element class; a call on a primitive array has no class and is no xref; class usage of the using class
itself is not recorded (the code's documented choice) and usage of a primitive array names no class;
a field access is "to a defined field" when its (class, name, type) triple is declared by a class of
the analysed DEX files.
"""

INVOKE = set(range(0x6e, 0x73)) | set(range(0x74, 0x79))
CONST_STRING = {0x1a, 0x1b}
CONST_CLASS, NEW_INSTANCE = 0x1c, 0x22
FIELD_READ = set(range(0x52, 0x59)) | set(range(0x60, 0x67))
FIELD_WRITE = set(range(0x59, 0x60)) | set(range(0x67, 0x6e))


def elem_class(t):
    """the class an array/plain type descriptor names, or None"""
    while t.startswith("["):
        t = t[1:]
    return t if t.startswith("L") else None


def sites(fl):
    """every instruction with its context: (class, method key, offset, opcode, ref)"""
    return [(cn, (cn, mn, md), off, op, ref)
            for _, classes in fl for cn, _, methods in classes for mn, md, code in methods
            for off, op, ref in code]


def expected(fl):
    S = sites(fl)
    def_c = {cn for _, classes in fl for cn, _, _ in classes}
    def_m = {(cn, mn, md) for _, classes in fl for cn, _, ms in classes for mn, md, _ in ms}
    def_f = {(cn, n, t) for _, classes in fl for cn, fs, _ in classes for n, t in fs}
    pool = {s for p, _ in fl for s in p}
    calls = {(m, (elem_class(r[1]), r[2], r[3]), off, op, c) for c, m, off, op, r in S
             if op in INVOKE and r is not None and r[0] == "m" and elem_class(r[1])}
    uses = {(m, elem_class(r[1]), off, op, c) for c, m, off, op, r in S
            if op in (CONST_CLASS, NEW_INSTANCE) and r is not None and r[0] == "t"
            and elem_class(r[1]) and elem_class(r[1]) != c}
    strs = {(r[1], m, off) for c, m, off, op, r in S if op in CONST_STRING and r is not None and r[0] == "s"}
    reads = {(tuple(r[1:]), m, off, c) for c, m, off, op, r in S
             if op in FIELD_READ and r is not None and r[0] == "f" and tuple(r[1:]) in def_f}
    writes = {(tuple(r[1:]), m, off, c) for c, m, off, op, r in S
              if op in FIELD_WRITE and r is not None and r[0] == "f" and tuple(r[1:]) in def_f}
    ext_m = {k for _, k, _, _, _ in calls} - def_m
    ext_c = ({k[0] for k in ext_m} | {t for _, t, _, _, _ in uses}) - def_c
    e = {
        "def_c": def_c, "def_m": def_m, "def_f": def_f,
        "classes": sorted([(c, 0) for c in def_c] + [(c, 1) for c in ext_c]),
        "methods": sorted([(k, 0) for k in def_m] + [(k, 1) for k in ext_m]),
        "callTo": sorted((m, k, off) for m, k, off, _, _ in calls),
        "callFrom": sorted((k, m, off) for m, k, off, _, _ in calls),
        "cg": sorted({(m, k) for m, k, _, _, _ in calls}),
        # ClassAnalysis.xrefto[other] is a set of (kind, method, offset): the *callee* for invokes (so two
        # methods of one class calling the same target at the same offset give one entry), the using
        # method for class usage
        "clsTo": sorted({(c, k[0], op, k, off) for m, k, off, op, c in calls} |
                        {(c, t, op, m, off) for m, t, off, op, c in uses}),
        "clsFrom": sorted({(k[0], c, op, m, off) for m, k, off, op, c in calls} |
                          {(t, c, op, m, off) for m, t, off, op, c in uses}),
        "strings": sorted(pool | {s for s, _, _ in strs}),
        "strFrom": sorted(strs),
        "newInstM": sorted((m, t, off) for m, t, off, op, _ in uses if op == NEW_INSTANCE),
        "newInstC": sorted((t, m, off) for m, t, off, op, _ in uses if op == NEW_INSTANCE),
        "constClsM": sorted((m, t, off) for m, t, off, op, _ in uses if op == CONST_CLASS),
        "constClsC": sorted((t, m, off) for m, t, off, op, _ in uses if op == CONST_CLASS),
        "mRead": sorted((m, f, off) for f, m, off, _ in reads),
        "mWrite": sorted((m, f, off) for f, m, off, _ in writes),
        # what the property wants from the FieldAnalysis of a defined field
        "reads_of": {f: sorted((m, off) for g, m, off, _ in reads if g == f) for f in def_f},
        "writes_of": {f: sorted((m, off) for g, m, off, _ in writes if g == f) for f in def_f},
        "foreign_access": {(f, c) for f, _, _, c in reads | writes if c != f[0]},
    }
    return e


def _first_diff(exp, got):
    a, b = set(map(repr, exp)), set(map(repr, got))
    miss, extra = sorted(a - b), sorted(b - a)
    return {"missing": miss[:3], "unexpected": extra[:3], "n_missing": len(miss), "n_unexpected": len(extra)}


def _cmp(name, exp, got, out, what):
    if list(exp) != list(got):
        d = _first_diff(exp, got)
        if not d["n_missing"] and not d["n_unexpected"]:
            d["note"] = "same set, different multiplicity"
        out.append((what, None, name, d))


def check_c13(e, v, bad):
    """-> list of (what, key, relation, detail)"""
    out = []
    for b in bad:
        if b[0] in ("foreign-method-object", "foreign-class-object"):
            out.append(("the analysis holds an object that belongs to no DEX of this analysis", None, "identity", list(b)))
        if b[0] in ("method-object", "method-hash", "method-external-flag", "class-lists-foreign-method",
                    "class-method-lists-differ-from-methods", "unregistered-method-object",
                    "unregistered-class-object", "class-mismatch", "class-key"):
            out.append(("an xref names an object that is not the one registered under its key", None, "identity", list(b)))
    _cmp("methods", e["methods"], v["methods"], out,
         "methods are not exactly the defined methods plus one external stub per unresolved target")
    _cmp("callTo", e["callTo"], v["callTo"], out, "callees reported are not exactly the invoke targets")
    _cmp("callFrom", e["callFrom"], v["callFrom"], out, "caller lists are not the mirror image of the callee lists")
    if sorted((b, a, o) for a, b, o in v["callTo"]) != v["callFrom"]:
        out.append(("xref_from is not the mirror image of xref_to", None, "mirror",
                    _first_diff(sorted((b, a, o) for a, b, o in v["callTo"]), v["callFrom"])))
    _cmp("cg", e["cg"], v["cg"], out, "call graph edges differ from the reported callees")
    if sorted({(a, b) for a, b, _ in v["callTo"]}) != v["cg"]:
        out.append(("call graph has an edge where no callee is reported (or misses one)", None, "cg-vs-to", {}))
    inv = lambda rows: [r for r in rows if r[2] not in (0x1c, 0x22)]
    _cmp("clsTo", inv(e["clsTo"]), inv(v["clsTo"]), out, "class-level xref_to entries for invokes differ")
    _cmp("clsFrom", inv(e["clsFrom"]), inv(v["clsFrom"]), out, "class-level xref_from entries for invokes differ")
    return out


def check_c15(e, v, bad):
    out = []
    for b in bad:
        if b[0] == "foreign-class-object":
            out.append(("the analysis holds a class object that belongs to no DEX of this analysis", None, "identity", list(b)))
        if b[0] in ("string-key", "unregistered-class-object", "unregistered-method-object", "class-mismatch"):
            out.append(("an xref names an object that is not the one registered under its key", None, "identity", list(b)))
    _cmp("strings", e["strings"], v["strings"], out, "string table differs from pool strings plus const-string operands")
    _cmp("strFrom", e["strFrom"], v["strFrom"], out, "string xrefs are not exactly the const-string instructions")
    for s, what in (("newInstM", "method's new-instance list"), ("newInstC", "class's instantiation list"),
                    ("constClsM", "method's const-class list"), ("constClsC", "class's class-reference list")):
        _cmp(s, e[s], v[s], out, what + " is not exactly the instructions on another class")
    use = lambda rows: [r for r in rows if r[2] in (0x1c, 0x22)]
    _cmp("clsTo", use(e["clsTo"]), use(v["clsTo"]), out, "class-level xref_to entries for class usage differ")
    _cmp("clsFrom", use(e["clsFrom"]), use(v["clsFrom"]), out, "class-level xref_from entries for class usage differ")
    _cmp("classes", e["classes"], v["classes"], out, "classes are not the defined classes plus the referenced external ones")
    return out


def check_c14(e, v, bad, fa):
    """The statement: for every access to a defined field, the FieldAnalysis returned for that field
    lists (method, offset) as read/write; the method lists the field; one FieldAnalysis per field.
    key 'field-of-other-class' = exactly the recorded known finding: the access comes from a class
    other than the declaring one, the accessing method does list the field, and the (method, offset)
    is recorded in a FieldAnalysis of the same field held by the accessing class."""
    out = []
    for b in bad:
        if b[0] in ("field-analysis-of-other-object",):
            out.append(("get_field_analysis returns the analysis of another field object", None, "identity", list(b)))
        if b[0] == "foreign-field-object":
            out.append(("a field access is recorded on an EncodedField that belongs to no DEX of this analysis", None, "identity", list(b)))
    _cmp("mRead", e["mRead"], v["mRead"], out, "the accessing method does not list exactly the fields it reads")
    _cmp("mWrite", e["mWrite"], v["mWrite"], out, "the accessing method does not list exactly the fields it writes")
    m_ok = e["mRead"] == v["mRead"] and e["mWrite"] == v["mWrite"]
    held = {}
    for h, f in v["fields"]:
        held.setdefault(f, []).append(h)
    for f in sorted(e["def_f"]):
        got = fa.get(f)
        if got is None:
            out.append(("get_field_analysis returns nothing for a defined field", None, "fa", {"field": f}))
            continue
        for kind, want, have, sect in (("read", e["reads_of"][f], got[0], "fRead"), ("write", e["writes_of"][f], got[1], "fWrite")):
            if want == have:
                continue
            missing = [x for x in want if x not in have]
            extra = [x for x in have if x not in want]
            # known finding: every missing access comes from another class and sits in that class's own FieldAnalysis
            elsewhere = {(m, off) for h, g, m, off in v[sect] if g == f and h != f[0] and h == m[0]}
            known = (m_ok and not extra and missing and
                     all(m[0] != f[0] and (m, off) in elsewhere for m, off in missing))
            out.append(("the FieldAnalysis of the accessed field does not list the %s access" % kind,
                        "field-of-other-class" if known else None, "fa-" + kind,
                        {"field": f, "missing": missing[:3], "unexpected": extra[:3]}))
        n = len(held.get(f, []))
        if n != 1:
            others = [h for h in held.get(f, []) if h != f[0]]
            known = (m_ok and held.get(f, []).count(f[0]) == 1 and len(set(others)) == len(others)
                     and all((f, h) in e["foreign_access"] for h in others))
            out.append(("a defined field has %d FieldAnalysis objects" % n,
                        "field-of-other-class" if known else None, "one-fa", {"field": f, "held_by": held.get(f, [])}))
    for f in held:
        if f not in e["def_f"]:
            out.append(("a FieldAnalysis exists for a field no analysed class declares", None, "fields", {"field": f}))
    return out


def view_diff(v1, v2, sections):
    for s in sections:
        if v1[s] != v2[s]:
            return s, _first_diff(v1[s], v2[s])
    return None
