"""C21: generator of random well-typed static methods over int/long (as dexasm assembler items) and the Java
test-bench that compiles and runs what the decompiler printed for them.

The generator emits the code shapes a Java-to-Dalvik compiler emits for structured source: straight-line
arithmetic (3-address, /2addr, /lit8, /lit16, rsub), unary operators, casts, constants of every encoding,
cmp-long, if/else with simple and compound (&&, ||) conditions, counted while and do-while loops (with an optional
conditional break), packed and sparse switches (with optional fall-through), early returns.

Every variable has one register (pair) and one type for the whole method and is definitely assigned before it is
read, so the methods pass the Dalvik verifier's type rules.  Nothing here imports androguard.
"""
import os
import re
import shutil
import subprocess
import tempfile

INT_BIN = ['add', 'sub', 'mul', 'div', 'rem', 'and', 'or', 'xor', 'shl', 'shr', 'ushr']
LIT16 = ['add', 'rsub', 'mul', 'div', 'rem', 'and', 'or', 'xor']
LIT8 = ['add', 'rsub', 'mul', 'div', 'rem', 'and', 'or', 'xor', 'shl', 'shr', 'ushr']
CONDS = ['eq', 'ne', 'lt', 'ge', 'gt', 'le']
NEG = {'eq': 'ne', 'ne': 'eq', 'lt': 'ge', 'ge': 'lt', 'gt': 'le', 'le': 'gt'}

I_BOUND = [0, 1, -1, 2, -2, 3, 5, 7, 8, 15, 16, 31, 32, 33, 63, 64, 65, 100, 127, 128, 255, 256, -127, -128, -129,
           32767, 32768, -32768, -32769, 65535, 65536, 0x7FFFFFFF, 0x7FFFFFFE, -0x80000000, -0x7FFFFFFF,
           0x40000000, 0x55555555, -0x55555556, 0x00FF00FF, 1 << 30, -(1 << 30), 1 << 24]
J_BOUND = I_BOUND + [1 << 31, (1 << 31) + 1, -(1 << 31) - 1, 1 << 32, (1 << 32) - 1, (1 << 32) + 1, -(1 << 32),
                     (1 << 63) - 1, -(1 << 63), -(1 << 63) + 1, (1 << 62), 0x5555555555555555,
                     -0x5555555555555556, 0x0123456789ABCDEF, -0x0123456789ABCDEF, 1 << 40, -(1 << 47), (1 << 48) + 7]


class V:
    __slots__ = ('reg', 'ty', 'ro')

    def __init__(self, reg, ty, ro=False):
        self.reg, self.ty, self.ro = reg, ty, ro

    def __repr__(self):
        return '%s%d' % (self.ty, self.reg)


class Gen:
    """one method"""

    def __init__(self, rng, name, size, features=None, level=2):
        self.rng = rng
        self.level = level
        self.name = name
        self.budget = size
        self.items = []
        self.tail = []          # switch payloads, placed after the code
        self.nlabel = 0
        self.feat = set()
        self.only = features    # None = everything
        nparam = rng.choice((1, 2, 2, 3))
        self.params_t = [rng.choice('IIJ') for _ in range(nparam)]
        while sum(2 if t == 'J' else 1 for t in self.params_t) > 5:
            self.params_t.pop()
        self.ret = rng.choice('IIJ')
        r = 0
        self.ilocals, self.llocals, self.counters = [], [], []
        for _ in range(3):
            self.ilocals.append(V(r, 'I')); r += 1
        for _ in range(2):
            self.llocals.append(V(r, 'J')); r += 2
        for _ in range(2):
            self.counters.append(V(r, 'I', ro=True)); r += 1
        self.tmp = V(r, 'I'); r += 1
        self.params = []
        for t in self.params_t:
            self.params.append(V(r, t)); r += 2 if t == 'J' else 1
        self.registers = r
        self.ins = sum(2 if t == 'J' else 1 for t in self.params_t)
        assert r <= 16
        self.free_counters = list(self.counters)

    # ------------------------------------------------------------------ helpers
    def label(self, stem='L'):
        self.nlabel += 1
        return '%s%d' % (stem, self.nlabel)

    def emit(self, *it):
        self.items.append(tuple(it))

    def mark(self, lab):
        self.items.append(lab + ':')

    def const_into(self, v, val=None):
        rng = self.rng
        if v.ty == 'I':
            k = rng.randrange(5)
            if val is not None:
                k = 0 if -8 <= val <= 7 else 1 if -32768 <= val <= 32767 else 2
            if k == 0:
                self.emit('const/4', v.reg, rng.randrange(-8, 8) if val is None else val); self.feat.add('const/4')
            elif k == 1:
                self.emit('const/16', v.reg, rng.choice((rng.randrange(-32768, 32768), 100, -100, 255, rng.randrange(0, 128), rng.randrange(32, 127))) if val is None else val)
                self.feat.add('const/16')
            elif k == 2 or k == 4:
                self.emit('const', v.reg, rng.choice((rng.randrange(-2 ** 31, 2 ** 31), 0x7FFFFFFF, -0x80000000, 65536, 123456789)) if val is None else val)
                self.feat.add('const')
            else:
                self.emit('const/high16', v.reg, rng.randrange(-32768, 32768)); self.feat.add('const/high16')
        else:
            k = rng.randrange(5)
            if k == 0:
                self.emit('const-wide/16', v.reg, rng.randrange(-32768, 32768)); self.feat.add('const-wide/16')
            elif k == 1:
                self.emit('const-wide/32', v.reg, rng.choice((rng.randrange(-2 ** 31, 2 ** 31), 0x7FFFFFFF, -0x80000000)))
                self.feat.add('const-wide/32')
            elif k == 2 or k == 4:
                self.emit('const-wide', v.reg, rng.choice((rng.randrange(-2 ** 63, 2 ** 63), rng.randrange(-2 ** 33, 2 ** 33),
                                                            2 ** 63 - 1, -2 ** 63, 2 ** 31, 2 ** 32, -2 ** 31 - 1, 1, 5)))
                self.feat.add('const-wide')
            else:
                self.emit('const-wide/high16', v.reg, rng.randrange(-32768, 32768)); self.feat.add('const-wide/high16')

    def src(self, ty, live):
        """an assigned variable of type ty (creating a constant in a local if there is none)"""
        c = sorted((v for v in live if v.ty == ty), key=lambda v: v.reg)   # (sets of objects iterate in address order)
        if c and self.rng.random() < 0.93:
            return self.rng.choice(c)
        pool = self.ilocals if ty == 'I' else self.llocals
        v = self.rng.choice(pool)
        self.const_into(v)
        live.add(v)
        return v

    def dst(self, ty, live):
        pool = self.ilocals if ty == 'I' else self.llocals
        return self.rng.choice(pool)

    # ------------------------------------------------------------------ straight-line statements
    def stmt_simple(self, live):
        rng = self.rng
        kind = rng.choice(('bin', 'bin', 'bin', '2addr', '2addr', 'lit8', 'lit8', 'lit16', 'un', 'conv', 'conv', 'const',
                           'cmp', 'move', 'lbin', 'lbin', 'l2addr'))
        if kind == 'bin':
            op = rng.choice(INT_BIN)
            a, b = self.src('I', live), self.src('I', live)
            d = self.dst('I', live)
            self.guard_div(op, b, live)
            self.emit('%s-int' % op, d.reg, a.reg, b.reg); self.feat.add('%s-int' % op)
            live.add(d)
        elif kind == 'lbin':
            op = rng.choice(INT_BIN)
            a = self.src('J', live)
            b = self.src('I' if op in ('shl', 'shr', 'ushr') else 'J', live)
            d = self.dst('J', live)
            self.guard_div(op, b, live)
            self.emit('%s-long' % op, d.reg, a.reg, b.reg); self.feat.add('%s-long' % op)
            live.add(d)
        elif kind == '2addr':
            op = rng.choice(INT_BIN)
            a = self.src('I', live)
            d = self.writable(self.src('I', live), live)
            self.guard_div(op, a, live)
            self.emit('%s-int/2addr' % op, d.reg, a.reg); self.feat.add('%s-int/2addr' % op)
        elif kind == 'l2addr':
            op = rng.choice(INT_BIN)
            a = self.src('I' if op in ('shl', 'shr', 'ushr') else 'J', live)
            d = self.writable(self.src('J', live), live)
            self.guard_div(op, a, live)
            self.emit('%s-long/2addr' % op, d.reg, a.reg); self.feat.add('%s-long/2addr' % op)
        elif kind == 'lit8':
            op = rng.choice(LIT8)
            a, d = self.src('I', live), self.dst('I', live)
            lit = rng.choice((rng.randrange(-128, 128), 1, -1, 0, 1, 31, 32, 33, -128, 127, 2, 7))
            if op in ('div', 'rem') and lit == 0 and rng.random() < 0.8:
                lit = 3
            name = 'rsub-int/lit8' if op == 'rsub' else '%s-int/lit8' % op
            self.emit(name, d.reg, a.reg, lit); self.feat.add(name)
            live.add(d)
        elif kind == 'lit16':
            op = rng.choice(LIT16)
            a, d = self.src('I', live), self.dst('I', live)
            if a.reg > 15 or d.reg > 15:
                return
            lit = rng.choice((rng.randrange(-32768, 32768), 1, -1, 0, 255, 256, -32768, 32767, 1000))
            if op in ('div', 'rem') and lit == 0 and rng.random() < 0.8:
                lit = 1000
            name = 'rsub-int' if op == 'rsub' else '%s-int/lit16' % op
            self.emit(name, d.reg, a.reg, lit); self.feat.add(name)
            live.add(d)
        elif kind == 'un':
            ty = rng.choice('IJ')
            op = rng.choice(('neg', 'not'))
            a, d = self.src(ty, live), self.dst(ty, live)
            name = '%s-%s' % (op, 'int' if ty == 'I' else 'long')
            self.emit(name, d.reg, a.reg); self.feat.add(name)
            live.add(d)
        elif kind == 'conv':
            c = rng.choice(('int-to-long', 'long-to-int', 'int-to-byte', 'int-to-char', 'int-to-short'))
            st, dt = ('I', 'J') if c == 'int-to-long' else ('J', 'I') if c == 'long-to-int' else ('I', 'I')
            a, d = self.src(st, live), self.dst(dt, live)
            self.emit(c, d.reg, a.reg); self.feat.add(c)
            live.add(d)
        elif kind == 'const':
            d = self.dst(rng.choice('IJ'), live)
            self.const_into(d)
            live.add(d)
        elif kind == 'cmp':
            a, b, d = self.src('J', live), self.src('J', live), self.dst('I', live)
            self.emit('cmp-long', d.reg, a.reg, b.reg); self.feat.add('cmp-long(value)')
            live.add(d)
        elif kind == 'move':
            ty = rng.choice('IJ')
            a, d = self.src(ty, live), self.dst(ty, live)
            if a is not d:
                self.emit('move' if ty == 'I' else 'move-wide', d.reg, a.reg); self.feat.add('move')
                live.add(d)

    def writable(self, v, live):
        """a 2addr destination: a local (parameters are fine too: they are ordinary registers) but not a loop counter"""
        if v.ro:
            pool = self.ilocals if v.ty == 'I' else self.llocals
            w = self.rng.choice(pool)
            self.emit('move' if v.ty == 'I' else 'move-wide', w.reg, v.reg)
            live.add(w)
            return w
        return v

    def guard_div(self, op, b, live):
        """most divisors are forced odd (non-zero) so that not every division throws; the rest are left alone"""
        if op in ('div', 'rem') and not b.ro and self.rng.random() < 0.7:
            if b.ty == 'I':
                self.emit('or-int/lit8', b.reg, b.reg, 1); self.feat.add('or-int/lit8')
            else:
                t = self.llocals[0] if b is not self.llocals[0] else self.llocals[1]
                # b |= 1L  (through a constant in the other long local; only when that one is dead or reassigned here)
                self.emit('const-wide/16', t.reg, 1)
                live.add(t)
                self.emit('or-long/2addr', b.reg, t.reg); self.feat.add('or-long/2addr')

    # ------------------------------------------------------------------ conditions
    def cond_atom(self, live):
        """returns (emit_jump(cond_true_label, negate)) closure data: ('rr', c, a, b) | ('rz', c, a) after emitting
        whatever computes a long comparison"""
        rng = self.rng
        k = rng.randrange(5)
        c = rng.choice(CONDS)
        if k == 4:
            # a char-typed operand compared with a small constant (an ASCII code)
            x = self.src('I', live)
            self.emit('int-to-char', self.tmp.reg, x.reg)
            d = self.rng.choice(self.ilocals)
            self.emit('const/16', d.reg, rng.randrange(0, 128))
            live.add(d)
            self.feat.add('char-vs-const')
            return ('rr', c, self.tmp, d)
        if k == 0:
            return ('rr', c, self.src('I', live), self.src('I', live))
        if k == 1:
            return ('rz', c, self.src('I', live))
        if k == 2:
            return ('lc', c, self.src('J', live), self.src('J', live))
        return ('rr', c, self.src('I', live), self.src('I', live))

    def jump_if(self, atom, target, sense):
        """jump to target when atom evaluates to `sense`"""
        kind, c = atom[0], atom[1]
        if not sense:
            c = NEG[c]
        if kind == 'rr':
            self.emit('if-' + c, atom[2].reg, atom[3].reg, target); self.feat.add('if-' + c)
        elif kind == 'rz':
            self.emit('if-%sz' % c, atom[2].reg, target); self.feat.add('if-%sz' % c)
        else:
            self.emit('cmp-long', self.tmp.reg, atom[2].reg, atom[3].reg)
            self.emit('if-%sz' % c, self.tmp.reg, target); self.feat.add('cmp-long+if-%sz' % c)

    def branch_false(self, live, else_lab):
        """emit code that falls through when the (possibly compound) condition holds and jumps to else_lab otherwise.
        The operands of ALL atoms are chosen (and, when needed, loaded) before the first jump, so that every register
        read later is definitely assigned."""
        rng = self.rng
        shape = rng.choice(('atom', 'atom', 'and', 'or', 'and3', 'mixed')) if self.level >= 1 else 'atom'
        n = {'atom': 1, 'and': 2, 'or': 2, 'and3': 3, 'mixed': 3}[shape]
        atoms = [self.cond_atom(live) for _ in range(n)]
        if shape == 'atom':
            self.jump_if(atoms[0], else_lab, False)
        elif shape == 'and':
            self.jump_if(atoms[0], else_lab, False)
            self.jump_if(atoms[1], else_lab, False)
            self.feat.add('cond:&&')
        elif shape == 'and3':
            for a in atoms:
                self.jump_if(a, else_lab, False)
            self.feat.add('cond:&&&&')
        elif shape == 'or':
            then = self.label('T')
            self.jump_if(atoms[0], then, True)
            self.jump_if(atoms[1], else_lab, False)
            self.mark(then)
            self.feat.add('cond:||')
        else:   # (a && b) || c
            nxt, then = self.label('N'), self.label('T')
            self.jump_if(atoms[0], nxt, False)
            self.jump_if(atoms[1], then, True)
            self.mark(nxt)
            self.jump_if(atoms[2], else_lab, False)
            self.mark(then)
            self.feat.add('cond:(&&)||')

    # ------------------------------------------------------------------ structured statements
    def ret_stmt(self, live):
        v = self.src(self.ret, live)
        self.emit('return' if self.ret == 'I' else 'return-wide', v.reg)

    def block(self, live, depth, n, in_loop=None):
        """n statements; returns False when control cannot fall out of the block's end (it returned / broke out)"""
        rng = self.rng
        for k in range(n):
            if self.budget <= 0 and k > 0:
                break               # (an arm or body is never empty)
            self.budget -= 1
            r = rng.random()
            ft = True
            if depth >= (3 if self.level >= 2 else self.level) or r < 0.55:
                self.stmt_simple(live)
            elif r < 0.72:
                if depth >= 1:
                    self.feat.add('nested')
                ft = self.if_stmt(live, depth, in_loop)
            elif r < 0.84:
                if self.free_counters and self.want('loop'):
                    if depth >= 1:
                        self.feat.add('nested')
                    ft = self.loop_stmt(live, depth)
                else:
                    self.stmt_simple(live)
            elif r < 0.93:
                if self.want('switch'):
                    if depth >= 1:
                        self.feat.add('nested')
                    ft = self.switch_stmt(live, depth, in_loop)
                else:
                    self.stmt_simple(live)
            elif r < 0.97 and depth > 0 and self.want('early-return'):
                self.ret_stmt(live)
                self.feat.add('early-return')
                return False
            else:
                self.stmt_simple(live)
            if not ft:
                return False
        return True

    def want(self, what):
        return self.only is None or what in self.only

    def if_stmt(self, live, depth, in_loop):
        rng = self.rng
        else_lab, end_lab = self.label('E'), self.label('X')
        self.branch_false(live, else_lab)
        l1 = set(live)
        ft1 = self.block(l1, depth + 1, rng.randrange(1, 4), in_loop)
        if in_loop and ft1 and rng.random() < 0.15:
            self.emit('goto', in_loop[0]); self.feat.add('break')
            in_loop[1] += 1
            ft1 = False
        if rng.random() < 0.55:
            if ft1:
                self.emit('goto', end_lab)
            self.mark(else_lab)
            l2 = set(live)
            ft2 = self.block(l2, depth + 1, rng.randrange(1, 4), in_loop)
            if ft1:
                self.mark(end_lab)
            self.feat.add('if-else')
            if ft1 and ft2:
                live |= (l1 & l2)
            elif ft1:
                live |= l1
            elif ft2:
                live |= l2
            return ft1 or ft2
        self.mark(else_lab)
        self.feat.add('if')
        # variables assigned only inside the arm are not definitely assigned after it
        return True

    def loop_stmt(self, live, depth):
        rng = self.rng
        k = self.free_counters.pop()
        top, end = self.label('W'), self.label('Z')
        # trip count: constant 0..5 or (x & 3|7)
        if rng.random() < 0.6:
            self.emit('const/4', k.reg, rng.randrange(0, 6))
        else:
            x = self.src('I', live)
            self.emit('and-int/lit8', k.reg, x.reg, rng.choice((3, 7)))
            self.feat.add('and-int/lit8')
        live_in = set(live) | {k}
        if len(self.free_counters) < len(self.counters) - 1:
            self.feat.add('nested-loop')
        form = rng.choice(('while', 'while', 'do'))
        ctx = [end, 0]
        self.mark(top)
        if form == 'while':
            self.emit('if-lez', k.reg, end)
            ft = self.block(set(live_in), depth + 1, rng.randrange(1, 4), in_loop=ctx)
            if ft:
                self.emit('add-int/lit8', k.reg, k.reg, -1)
                self.emit('goto', top)
            self.mark(end)
            self.feat.add('loop:while')
            reach = True
        else:
            ft = self.block(set(live_in), depth + 1, rng.randrange(1, 4), in_loop=ctx)
            if ft:
                self.emit('add-int/lit8', k.reg, k.reg, -1)
                self.emit('if-gtz', k.reg, top)
            reach = ft or ctx[1] > 0
            if ctx[1] > 0:
                self.mark(end)
            self.feat.add('loop:do-while')
        self.free_counters.append(k)
        # after the loop only what was assigned before it is definitely assigned
        return reach

    def switch_stmt(self, live, depth, in_loop):
        rng = self.rng
        x = self.src('I', live)
        if rng.random() < 0.5:
            self.emit('and-int/lit8', self.tmp.reg, x.reg, 7)
            x = self.tmp
        packed = rng.random() < 0.5
        ncase = rng.randrange(1, 5)
        if packed:
            first = rng.choice((0, 0, 1, -1, 3, 100))
            keys = [first + i for i in range(ncase)]
        else:
            keys = sorted(rng.sample([-5, -1, 0, 1, 2, 3, 5, 7, 10, 100, 1000, -100, 0x7FFFFFFF, -0x80000000], ncase))
        tab, end = self.label('S'), self.label('Q')
        labs = [self.label('C') for _ in keys]
        self.emit('packed-switch' if packed else 'sparse-switch', x.reg, tab)
        self.feat.add('packed-switch' if packed else 'sparse-switch')
        # default arm (falls out of the switch instruction)
        outs = []
        ld = set(live)
        ft = self.block(ld, depth + 1, rng.randrange(0, 3), in_loop)
        if ft:
            self.emit('goto', end)
            outs.append(ld)
        for i, lab in enumerate(labs):
            self.mark(lab)
            lc = set(live)
            ft = self.block(lc, depth + 1, rng.randrange(1, 3), in_loop)
            if ft:
                if i + 1 < len(labs) and rng.random() < 0.15:
                    self.feat.add('switch:fallthrough')   # falls into the next case; what it assigned is not definite there
                else:
                    if i + 1 < len(labs):
                        self.emit('goto', end)
                    outs.append(lc)
        if outs:
            self.mark(end)
        if packed:
            self.tail += [tab + ':', ('packed-switch-payload', keys[0], labs)]
        else:
            self.tail += [tab + ':', ('sparse-switch-payload', keys, labs)]
        if not outs:
            return False
        live |= set.intersection(*outs)
        return True

    def build(self):
        live = set(self.params)
        ft = self.block(live, 0, max(1, self.budget), None)
        if ft:
            self.ret_stmt(live)
        self.items += self.tail
        return {
            'name': self.name, 'ret': self.ret, 'params': list(self.params_t), 'registers': self.registers,
            'ins': self.ins, 'items': self.items, 'features': sorted(self.feat), 'level': self.level,
        }


def gen_method(rng, name, size=None, features=None, level=2):
    """level 0: straight-line code; 1: one level of if/else, loops, switches with simple conditions;
    2: nesting up to three deep and compound conditions"""
    g = Gen(rng, name, size or rng.choice((2, 3, 4, 6, 8, 12)), features, level)
    m = g.build()
    assert _labels_ok(m['items'])
    return m


def _labels_ok(items):
    """every referenced label is defined (popping trailing labels after a dead end may remove a referenced one)"""
    defined = {it[:-1] for it in items if isinstance(it, str)}
    for it in items:
        if isinstance(it, tuple):
            for x in it[1:]:
                if isinstance(x, str) and x not in defined:
                    return False
                if isinstance(x, list):
                    for y in x:
                        if isinstance(y, str) and y not in defined:
                            return False
    return True


def arg_tuples(rng, params, n_boundary=22, n_random=10):
    out = []
    seen = set()

    def add(t):
        if t not in seen:
            seen.add(t); out.append(t)
    for _ in range(n_boundary):
        add(tuple(rng.choice(I_BOUND if t == 'I' else J_BOUND) for t in params))
    for _ in range(n_random):
        t = []
        for p in params:
            bits = 32 if p == 'I' else 64
            k = rng.randrange(1, bits + 1)
            v = rng.randrange(-(1 << (k - 1)), 1 << (k - 1))
            t.append(v)
        add(tuple(t))
    add(tuple(0 for _ in params))
    # equal arguments (the boundary of every comparison between two registers)
    for v in (1, -1, 7, 0x7FFFFFFF, -0x80000000, rng.choice(I_BOUND)):
        add(tuple(v for _ in params))
    return out


# ---------------------------------------------------------------------------------------------- Java test bench
JT = {'I': 'int', 'J': 'long'}


def java_literal(v, t):
    if t == 'J':
        return '%dL' % v if v != -(1 << 63) else 'Long.MIN_VALUE'
    return '%d' % v if v != -(1 << 31) else 'Integer.MIN_VALUE'


def bench_source(cls, methods):
    """methods: list of dict(name, ret, params, source, tuples).  Returns (text, line_ranges) where
    line_ranges = [(first_line, last_line, name)] of the pasted decompiler output."""
    lines = ['public class %s {' % cls]
    ranges = []
    for m in methods:
        src = m['source'].rstrip('\n').split('\n')
        first = len(lines) + 1
        lines += src
        ranges.append((first, len(lines), m['name']))
    for m in methods:
        n = m['name']
        lines.append('  static void r_%s() {' % n)
        lines.append('    System.out.println("BEGIN %s"); System.out.flush();' % n)
        rows = ', '.join('{' + ', '.join(java_literal(v, 'J') for v in t) + '}' for t in m['tuples'])
        lines.append('    long[][] A = {%s};' % rows)
        call = '%s(%s)' % (n, ', '.join(('(int) A[i][%d]' % k) if t == 'I' else 'A[i][%d]' % k
                                        for k, t in enumerate(m['params'])))
        lines.append('    StringBuilder sb = new StringBuilder();')
        lines.append('    for (int i = 0; i < A.length; i++) { String s; try { s = String.valueOf(%s); } '
                     'catch (ArithmeticException e) { s = "AE"; } catch (Throwable e) { s = "EX:" + e.getClass().getName(); } '
                     'sb.append("%s ").append(i).append(" ").append(s).append("\\n"); }' % (call, n))
        lines.append('    System.out.print(sb); System.out.flush();')
        lines.append('  }')
    lines.append('  public static void main(String[] a) {')
    for m in methods:
        lines.append('    r_%s();' % m['name'])
    lines.append('    System.out.println("DONE"); System.out.flush();')
    lines.append('  }')
    lines.append('}')
    return '\n'.join(lines) + '\n', ranges


class BenchTimeout(Exception):
    pass


def compile_and_run(cls, methods, workdir, javac_timeout=300, java_timeout=120):
    """Compile the bench; methods whose pasted source javac rejects are reported and left out of a second
    compilation.  Returns (results, rejected, hung) with
       results  : {name: {tuple_index: 'value' | 'AE' | 'EX:...'}}
       rejected : {name: first javac error message}
       hung     : [name]  (the JVM did not finish that method within java_timeout)"""
    rejected = {}
    hung = []
    todo = list(methods)
    for _round in range(6):
        if not todo:
            return {}, rejected, hung
        text, ranges = bench_source(cls, todo)
        path = os.path.join(workdir, cls + '.java')
        with open(path, 'w') as f:
            f.write(text)
        try:
            p = subprocess.run(['javac', '-nowarn', '-Xmaxerrs', '100000', '-d', workdir, path], capture_output=True, text=True,
                               timeout=javac_timeout)
        except subprocess.TimeoutExpired:
            raise BenchTimeout('javac')
        if p.returncode == 0:
            break
        bad = {}
        for mm in re.finditer(r'^%s:(\d+): error: (.*)$' % re.escape(path), p.stderr, re.M):
            ln = int(mm.group(1))
            for a, b, name in ranges:
                if a <= ln <= b:
                    bad.setdefault(name, mm.group(2))
                    break
            else:
                bad.setdefault('<bench>', mm.group(2) + ' @%d' % ln)
        if not bad or '<bench>' in bad:
            raise RuntimeError('javac failed outside the decompiler output: ' + p.stderr[-800:])
        rejected.update(bad)
        todo = [m for m in todo if m['name'] not in bad]
    else:
        raise RuntimeError('javac still failing after 6 rounds')
    results = {}
    remaining = list(todo)
    while remaining:
        # run; when a method hangs, drop it and run the rest again
        for attempt in (1, 4):
            # (a JVM that printed nothing at all within the limit did not get to run: machine load, not a hang -> once more, longer)
            try:
                p = subprocess.run(['java', '-Xss8m', '-cp', workdir, cls], capture_output=True, text=True,
                                   timeout=java_timeout * attempt)
                out = p.stdout
                finished = True
            except subprocess.TimeoutExpired as e:
                out = e.stdout.decode() if isinstance(e.stdout, bytes) else (e.stdout or '')
                finished = False
            if finished or 'BEGIN ' in out:
                break
        cur = None
        for line in out.split('\n'):
            if line.startswith('BEGIN '):
                cur = line[6:]
            elif line and line != 'DONE':
                parts = line.split(' ')
                if len(parts) == 3:
                    results.setdefault(parts[0], {})[int(parts[1])] = parts[2]
        if finished:
            if p.returncode != 0 or 'DONE' not in out:
                raise RuntimeError('java bench failed: ' + (p.stderr or '')[-800:])
            break
        if cur is None:
            raise BenchTimeout('java')
        hung.append(cur)
        remaining = [m for m in remaining if m['name'] != cur and m['name'] not in results]
        results.pop(cur, None)
        if not remaining:
            break
        text, ranges = bench_source(cls, remaining)
        with open(os.path.join(workdir, cls + '.java'), 'w') as f:
            f.write(text)
        p = subprocess.run(['javac', '-nowarn', '-d', workdir, os.path.join(workdir, cls + '.java')], capture_output=True,
                           text=True, timeout=javac_timeout)
        if p.returncode != 0:
            raise RuntimeError('javac failed on the reduced bench: ' + p.stderr[-800:])
    return results, rejected, hung
