"""Histories on ONE real Graph object (C18, C19): seeded sequences of at most 15 operations
    add_node / add_edge / add_catch_edge / remove_node / compute_rpo / immediate_dominators
after a small or medium rooted start graph.  After EVERY query (C18: immediate_dominators, C19: compute_rpo followed
by reading num / rpo / the post_order yield order) the answer is compared with the Lean model and judged by the
independent oracle, both evaluated on the node and edge sets READ OFF THE GRAPH OBJECT at that moment
(the model is a pure function of the current graph - it has no history).

A history is named by (seed, index) and regenerated from the name.  Node ids are creation indices; node 0.. of the
start graph, later ids for add_node.  The entry is never removed and the graph is made rooted before every query
(edges from reachable to unreachable nodes are inserted), because the properties speak of rooted graphs.

Scripted shapes (always present among the histories), then a random tail:
  S1  idom, remove_node(reachable block, compute_rpo never called => not in graph.rpo), idom
  S2  compute_rpo, add_node x, add_edge(u, x), [add_edge(x, w)], idom, remove_node x (x not in graph.rpo), idom
  S3  compute_rpo, idom, remove_node(RPO-numbered block), idom, compute_rpo
  S4  compute_rpo, add_node x, add_edge(u, x), compute_rpo, remove_node x, compute_rpo, idom
  S5  idom, idom, add_catch_edge, idom, compute_rpo, compute_rpo
  S6  idom, compute_rpo, <in-place retarget of one successor, graph stays rooted>, idom, compute_rpo
  S7  idom, compute_rpo, <remove-one-append-another | g.edges[n] = new list | swap of two successors>, idom, compute_rpo,
      <wholesale reassignment of g.edges / g.catch_edges / g.nodes>, <retarget>, idom

Direct pokes (what tests/test_decompiler_dominator.py and control_flow.catch_struct do to a Graph, bypassing the
mutator methods; k = e for g.edges, c for g.catch_edges):
  retarget k u i d     g.<k>[u][i] = d                     (d not yet a successor of u)
  swap k u i j         exchange two successors of u
  replace1 k u c d     g.<k>[u].remove(c); g.<k>[u].append(d)
  setlist k u l        g.<k>[u] = l
  reassign edges|catch_edges|nodes   the attribute is rebound to a fresh container (nodes: in a new order)
  reroot x             g.entry = x                         (only when every node is reachable from x)
  del_edges u          del g.edges[u]                      (u has no normal successor)
After a poke the harness rebuilds reverse_edges / reverse_catch_edges from the forward maps, so that a later
remove_node finds consistent predecessor lists.  No mutator method is called between a scripted poke and the
query that follows it (pokes are chosen so that the graph stays rooted).
"""
from __future__ import annotations

import random

from harness import graphgen

MAX_OPS = 15
START_FAMILIES = ("arbor", "structured", "irreducible", "ladder", "tarjan")


class Abs:
    """abstract graph: ids, successor lists (what add_edge/add_catch_edge/remove_node do to the node and edge sets)"""

    def __init__(self, G):
        n, self.entry, edges, catch = G
        self.ids = list(range(n))
        self.e = {u: list(edges[u]) for u in range(n)}
        self.c = {u: list(catch[u]) for u in range(n)}
        self.next = n

    def sucs(self, u):
        return self.e[u] + self.c[u]

    def reach(self, without=None):
        if self.entry == without:
            return set()
        seen, todo = {self.entry}, [self.entry]
        while todo:
            u = todo.pop()
            for v in self.sucs(u):
                if v != without and v not in seen:
                    seen.add(v)
                    todo.append(v)
        return seen

    def lst(self, kind, u):
        return (self.e if kind == "e" else self.c)[u]

    def copy(self):
        import copy
        return copy.deepcopy(self)

    def rooted(self):
        return len(self.reach()) == len(self.ids)

    def apply(self, op):
        k = op[0]
        if k == "retarget":
            self.lst(op[1], op[2])[op[3]] = op[4]
        elif k == "swap":
            l = self.lst(op[1], op[2]); l[op[3]], l[op[4]] = l[op[4]], l[op[3]]
        elif k == "replace1":
            l = self.lst(op[1], op[2]); l.remove(op[3]); l.append(op[4])
        elif k == "setlist":
            (self.e if op[1] == "e" else self.c)[op[2]] = list(op[3])
        elif k == "reassign":
            if op[1] == "nodes":
                self.ids = list(op[2])
        elif k == "reroot":
            self.entry = op[1]
        elif k == "del_edges":
            pass
        elif k == "add_node":
            self.ids.append(op[1]); self.e[op[1]] = []; self.c[op[1]] = []; self.next = max(self.next, op[1] + 1)
        elif k == "add_edge":
            if op[2] not in self.e[op[1]]:
                self.e[op[1]].append(op[2])
        elif k == "add_catch_edge":
            if op[2] not in self.c[op[1]]:
                self.c[op[1]].append(op[2])
        elif k == "remove_node":
            x = op[1]
            self.ids.remove(x); del self.e[x]; del self.c[x]
            for u in self.ids:
                self.e[u] = [v for v in self.e[u] if v != x]
                self.c[u] = [v for v in self.c[u] if v != x]


def _removable(rng, a: Abs, prefer=None):
    """a reachable non-entry node whose removal leaves the graph rooted (None if there is none)"""
    cands = [x for x in a.ids if x != a.entry]
    rng.shuffle(cands)
    if prefer is not None and prefer in cands:
        cands.remove(prefer); cands.insert(0, prefer)
    for x in cands[:8]:
        if len(a.reach(without=x)) == len(a.ids) - 1:
            return x
    return None


def _poke(rng, a: Abs, kinds=("retarget", "swap", "replace1", "setlist")):
    """a direct poke that keeps the graph rooted (None if none was found in a few tries)"""
    for _ in range(12):
        what = rng.choice(kinds)
        k = "e" if rng.random() < 0.8 else "c"
        us = [u for u in a.ids if a.lst(k, u)]
        if not us:
            continue
        u = rng.choice(us)
        l = a.lst(k, u)
        free = [d for d in a.ids if d not in l]
        if what == "retarget" and free:
            op = ("retarget", k, u, rng.randrange(len(l)), rng.choice(free))
        elif what == "swap" and len(l) >= 2:
            i, j = rng.sample(range(len(l)), 2)
            op = ("swap", k, u, i, j)
        elif what == "replace1" and free:
            op = ("replace1", k, u, rng.choice(l), rng.choice(free))
        elif what == "setlist":
            new = [d for d in l if rng.random() < 0.7] + ([rng.choice(free)] if free and rng.random() < 0.7 else [])
            op = ("setlist", k, u, tuple(dict.fromkeys(new)))
        else:
            continue
        b = a.copy()
        b.apply(op)
        if b.rooted():
            return op
    return None


def _other_poke(rng, a: Abs):
    r = rng.random()
    if r < 0.45:
        what = rng.choice(("edges", "catch_edges", "nodes"))
        if what == "nodes":
            ids = list(a.ids); rng.shuffle(ids)
            return ("reassign", "nodes", tuple(ids))
        return ("reassign", what)
    if r < 0.75:
        cands = [x for x in a.ids if x != a.entry]
        rng.shuffle(cands)
        for x in cands[:6]:
            b = a.copy(); b.entry = x
            if b.rooted():
                return ("reroot", x)
        return None
    leaves = [u for u in a.ids if not a.e[u]]
    return ("del_edges", rng.choice(leaves)) if leaves else None


def generate(seed, index):
    """-> (G0, ops); ops are tuples, at most MAX_OPS, ending with a query of each kind"""
    rng = random.Random("hist/%s/%d" % (seed, index))
    fam = rng.choice(START_FAMILIES)
    n = rng.randrange(2, 9) if rng.random() < 0.65 else rng.randrange(9, 61)
    G0 = graphgen.FAMILIES[fam](rng, n, catch_share=rng.choice((0.0, 0.0, 0.2)))
    a = Abs(G0)
    ops = []

    def push(op):
        if len(ops) < MAX_OPS - 2:
            ops.append(op); a.apply(op)

    def make_rooted():
        r = a.reach()
        for x in list(a.ids):
            if x not in r:
                push(("add_edge", rng.choice(sorted(r)), x))
                r = a.reach()

    def query(kind):
        make_rooted()
        push((kind,))

    def add_block():
        x = a.next
        push(("add_node", x))
        push(("add_edge", rng.choice(sorted(a.reach())), x))
        if rng.random() < 0.6:
            push(("add_edge", x, rng.choice(a.ids)))
        return x

    def remove(prefer=None):
        x = _removable(rng, a, prefer)
        if x is not None:
            push(("remove_node", x))

    def poke(kinds=("retarget", "swap", "replace1", "setlist")):
        op = _poke(rng, a, kinds)
        if op is not None:
            push(op)

    def other():
        op = _other_poke(rng, a)
        if op is not None:
            push(op)

    shape = index % 8            # shapes S1..S7 for index % 8 in 0..6, purely random histories otherwise
    if shape == 0:
        query("idom"); remove(); query("idom")
    elif shape == 1:
        query("compute_rpo"); x = add_block(); query("idom"); remove(x); query("idom")
    elif shape == 2:
        query("compute_rpo"); query("idom"); remove(); query("idom"); query("compute_rpo")
    elif shape == 3:
        query("compute_rpo"); x = add_block(); query("compute_rpo"); remove(x); query("compute_rpo"); query("idom")
    elif shape == 4:
        query("idom"); query("idom"); push(("add_catch_edge", rng.choice(a.ids), rng.choice(a.ids)))
        query("idom"); query("compute_rpo"); query("compute_rpo")
    elif shape == 5:
        query("idom"); query("compute_rpo"); poke(("retarget",)); ops.append(("idom",)); ops.append(("compute_rpo",))
    elif shape == 6:
        query("idom"); query("compute_rpo"); poke(("replace1", "setlist", "swap")); ops.append(("idom",)); ops.append(("compute_rpo",))
        other(); poke(("retarget",))
        if a.rooted():
            ops.append(("idom",))
    while len(ops) < MAX_OPS - 4:
        r = rng.random()
        if rng.random() < 0.3:
            # a direct poke followed at once by a query (no mutator call in between)
            poke() if rng.random() < 0.7 else other()
            if a.rooted() and len(ops) < MAX_OPS - 2:
                ops.append((rng.choice(("idom", "compute_rpo")),))
        elif r < 0.10:
            push(("add_node", a.next))
        elif r < 0.35:
            push(("add_edge", rng.choice(a.ids), rng.choice(a.ids)))
        elif r < 0.45:
            push(("add_catch_edge", rng.choice(a.ids), rng.choice(a.ids)))
        elif r < 0.65:
            remove()
        elif r < 0.80:
            query("compute_rpo")
        else:
            query("idom")
        if rng.random() < 0.08:
            break
    # always finish with both queries when the graph is rooted (two slots are reserved for them)
    make_rooted()
    if len(a.reach()) == len(a.ids):
        ops.append(("idom",)); ops.append(("compute_rpo",))
    return fam, G0, ops[:MAX_OPS]


def show_ops(ops):
    return [" ".join(",".join(map(str, x)) if isinstance(x, (tuple, list)) else str(x) for x in op) for op in ops]


def _rebuild_reverse(g):
    from collections import defaultdict
    for fwd, name in ((g.edges, "reverse_edges"), (g.catch_edges, "reverse_catch_edges")):
        rev = defaultdict(list)
        for u, l in fwd.items():
            for v in l:
                if u not in rev[v]:
                    rev[v].append(u)
        setattr(g, name, rev)


def _apply_poke(g, byid, op):
    from collections import defaultdict
    k = op[0]
    if k in ("retarget", "swap", "replace1", "setlist"):
        d = g.edges if op[1] == "e" else g.catch_edges
        u = byid[op[2]]
        if k == "retarget":
            d[u][op[3]] = byid[op[4]]
        elif k == "swap":
            l = d[u]; l[op[3]], l[op[4]] = l[op[4]], l[op[3]]
        elif k == "replace1":
            d[u].remove(byid[op[3]]); d[u].append(byid[op[4]])
        else:
            d[u] = [byid[x] for x in op[3]]
    elif k == "reassign":
        if op[1] == "edges":
            g.edges = defaultdict(list, {u: list(l) for u, l in g.edges.items()})
        elif op[1] == "catch_edges":
            g.catch_edges = defaultdict(list, {u: list(l) for u, l in g.catch_edges.items()})
        else:
            g.nodes = [byid[x] for x in op[2]]
    elif k == "reroot":
        g.entry = byid[op[1]]
    elif k == "del_edges":
        if byid[op[1]] in g.edges and not g.edges[byid[op[1]]]:
            del g.edges[byid[op[1]]]
    _rebuild_reverse(g)


def read_off(g):
    """the current graph as the Graph object holds it: (G, index of each node object) with index = position in g.nodes"""
    idx = {x: i for i, x in enumerate(g.nodes)}
    dangling = []

    def lst(d, x):
        out = []
        for y in d.get(x, []):
            if y in idx:
                out.append(idx[y])
            else:
                dangling.append(getattr(y, "name", "?"))
        return out

    n = len(g.nodes)
    G = (n, idx.get(g.entry, 0), [lst(g.edges, x) for x in g.nodes], [lst(g.catch_edges, x) for x in g.nodes])
    return G, idx, dangling


def run(mod, seed, index):
    """execute the history (seed, index) on a real Graph; returns a list of query records
    dict(label, request, real, fails, tags, query=<op number>)"""
    fam, G0, ops = generate(seed, index)
    g, nodes = graphgen.build_real(G0)
    byid = dict(enumerate(nodes))
    cls = type(nodes[0])
    name = {"seed": str(seed), "index": index}
    out = []
    for k, op in enumerate(ops):
        kind = op[0]
        if kind == "add_node":
            byid[op[1]] = cls("n%d" % op[1]); g.add_node(byid[op[1]])
        elif kind == "add_edge":
            g.add_edge(byid[op[1]], byid[op[2]])
        elif kind == "add_catch_edge":
            g.add_catch_edge(byid[op[1]], byid[op[2]])
        elif kind == "remove_node":
            g.remove_node(byid[op[1]])
        elif kind in ("retarget", "swap", "replace1", "setlist", "reassign", "reroot", "del_edges"):
            _apply_poke(g, byid, op)
        else:
            case = {"history": name, "query": k, "ops": show_ops(ops[:k + 1]), "start": "%s n=%d" % (fam, G0[0])}
            if len(graphgen.encode(G0)) <= 300:
                case["start_graph"] = graphgen.encode(G0)
            rec = mod.hist_query(g, kind, case)          # None when `kind` is not a query of this property
            if rec is not None:
                rec["label"] = "%s history seed=%s index=%d query=%d (%s)" % (mod.CMD, seed, index, k, ";".join(show_ops(ops[:k + 1])))
                rec["query"] = k
                out.append(rec)
            elif kind == "idom":
                g.immediate_dominators()
            elif kind == "compute_rpo":
                g.compute_rpo()
    return out
